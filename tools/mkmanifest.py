#!/usr/bin/env python3
"""Writes MANIFEST.json from the table below (single source of truth for what is claimed)."""
import json
import os

VERIF = os.path.dirname(os.path.dirname(os.path.abspath(__file__)))
ALL = ["C%02d" % i for i in range(1, 21)]

BASELINE = ("cd /repo && /venv/bin/python -m pytest -ra -q -p no:cacheprovider --timeout=900 "
            "--continue-on-collection-errors")

COMMON_NOTE = ("Trusted: Lean 4.33 kernel (axioms audited per theorem: subset of propext, Classical.choice, Quot.sound; "
               "no sorry/native_decide/bv_decide), tools/translate.py, the correspondence harness and its generators. ")

CLAIMS = {
    "C12": dict(
        text="Theorems over the complete register universe (x86: kernel-decided table lifted to every case spelling by a "
             "general case-insensitivity theorem; AArch64: for all register names/numbers of any length and all prefixes): "
             "dependence = architectural overlap, hence reflexive/symmetric/transitive/case-insensitive/families disjoint. "
             "Tables are regenerated from the parser sources on every run; the exhaustive correspondence (711k ordered pairs "
             "through the real parsers) ties model and code.",
        design="5/C12",
        note=COMMON_NOTE + "Modelled not verified: Python str.upper/lower/rstrip/re.match ASCII behaviour; pyparsing "
             "(only used to build the operand objects).",
        technique="Lean 4 proof (decide +kernel table + structural case lemma) over translator-generated tables; exhaustive differential correspondence",
    ),
    "C01": dict(
        text="Theorems for all port models / micro-op lists / kernels: the loop of average_port_pressure equals the closed-form "
             "uniform split, which is exactly feasible (non-negative, supported, exact total, Hall condition for every port set); "
             "any sequence of guarded balancing moves (INC from the source) keeps the vector feasible up to INC/2 per micro-op with "
             "exact total; kernel totals are the column sums over lines with throughput != skip value. Tie: translator (INC, digits, "
             "filter), K1 correspondence of average_port_pressure/get_throughput_sum, K2 trace refinement of the real balancer "
             "(every recorded mutation replayed as a guarded move), oracle Spec.checkFeasible on uniform/once/twice states; the oracle "
             "itself is proved sound and complete (Props/C01Oracle: checkFeasible_iff, lowerBound_spec).",
        design="5/C01",
        note=COMMON_NOTE + "The balancer's float-noise dependent control flow is modelled relationally. Known finding: state after the "
             "second assign_optimal_throughput call (D12). Modelled not verified: Python floats/round.",
        technique="Lean 4 proof (induction over micro-op lists and move sequences) + trace-refinement correspondence",
    ),
    "C02": dict(
        text="Theorems for all kernels: per-instruction feasibility (C01) makes the kernel totals a feasible schedule of all micro-ops "
             "(kernel_feasible), and a feasible schedule never undercuts max_S confined(S)/|S| by more than its slack "
             "(lowerBound_le_max, pigeonhole). That number is proved to BE the exact optimum of fractional scheduling "
             "(Props/C02Duality: assignment_feasible, optimum_attained via Hall's theorem on cycle units, optimum_eq_lowerBound, "
             "feasible_ge_optimum: every eps-feasible vector has a port carrying at least the optimum minus eps). The 0.15 clause is decided exhaustively on the property's 5355-kernel family by "
             "executing the real code against the Lean Spec optimum; 'optimised <= uniform': transfers_bottleneck_mono (any number of "
             "guarded INC transfers does not raise the rounded bottleneck, under the decidable no-tie hypothesis, with a proved "
             "counterexample without it) plus the same family and random kernels.",
        design="5/C02",
        note=COMMON_NOTE + "The property's bound (one rounding step) is tested as such; undercuts within the proven half step per micro-op are the known finding undercut-accumulates-per-uop. transfers_bottleneck_mono is an auxiliary lemma tied to nothing. Optimum = max_S confined(S)/|S|, proved equal to the minimum over all fractional assignment matrices (fractional Hall / Gale supply-demand, Lemmas/Duality.lean). 'optimised <= uniform' "
             "on rounded sums is checked on executions, proved only for exact sums (transfer_max_le). Known finding: second pass on "
             "multi-micro-op kernels outside the family.",
        technique="Lean 4 proof (feasibility algebra, pigeonhole, LP duality via Hall's marriage theorem) + bounded-exhaustive execution of the real code against the Lean Spec",
    ),
    "C15": dict(
        text="Per shipped model a kernel-decided theorem (regenerated from the YAML on every run) that every micro-op list, "
             "throughput/latency value and load/store table entry is well-formed, lifted by wf_costable/shipped_costable (for all port "
             "lists and raw lists) to: costing never raises and returns the exactly feasible uniform split; counts_spec for --db-check. "
             "Tie: raw YAML vs loaded MachineModel entry by entry, every distinct list through the real average_port_pressure vs the "
             "Lean model, --db-check counters vs sanityCounts vs a raw count. The property's CLI path: one instruction synthesised per "
             "payload class (throughput/latency absent, zero, positive; micro-ops empty/list/alternatives; operand classes) of every "
             "model through the real osaca.inspect, optimal and --fixed, text report and --yaml-out, must not raise.",
        design="5/C15",
        note=COMMON_NOTE + "Modelled not verified: ruamel.yaml. The per-entry matching and costing sweep (every entry) is C07's self-match sweep; the "
             "CLI-path sweep here is per payload class (40 classes per model in the quick tier, all in the thorough tier) and is an "
             "execution-level oracle, not a theorem. bdw/csx/skx are empty in this sandbox and skipped.",
        technique="Lean 4 proof (decide +kernel tables from YAML + general costing lemma) + exhaustive correspondence",
    ),
    "C03": dict(
        text="Theorems scan_iff_raw and edges_iff_raw (all kernels with strictly increasing lines): the forward scan of find_depending emits "
             "exactly the read-after-write positions (reads t, no earlier write of t) with the producer's tag; no_edge_past_kill, "
             "findDepending_forward (edges point forward), edge_weight_spec, flags_ignored_without_option. Tie: register tables from "
             "the parser sources (C12) + create_DG of the real code vs DG.create edge by edge with weights; oracle: declarative "
             "Spec.rawEdges vs the implementation's edges, a curated vocabulary of real instructions with architectural roles per status flag "
             "(flag readers cmovcc/sbb/csel/cset/csinc; half of the kernels with flag dependencies), and a "
             "synthetic ISA database with random roles. The role assignment itself is inside the model (Props/C03Roles, 69 theorems: "
             "roles_spec, roles_partition, defaults per ISA, zero idiom, write-back, has_load/store_iff, reg_changes_post_register "
             "(a post-index by a register reports the base as unknown and never raises), op_*: the translated "
             "operation mini-programs compute dst = src +/- imm for all immediates), ISA databases and operation strings regenerated "
             "from the YAML, tied per instruction to semantic_operands / flags / get_reg_changes of the real code.",
        design="5/C03", note=COMMON_NOTE + "Modelled not verified: networkx path search (replaced by the model's own enumeration), the parsers and the role assignment (taken from the implementation per kernel: the model consumes the implementation's semantic operands, latencies and register changes). Graph level: edges_iff_raw, create_edges_subset (last emission wins), edges_forward, create_iff_raw (kernels without stores).",
        technique="Lean 4 proof (induction over the scan) + differential correspondence of the dependency graph",
    ),
    "C04": dict(
        text="get_critical_path was repaired (fix 2f8e653: the longest chain computed in one pass over the lines). Theorems for all "
             "kernels with strictly increasing lines, non-negative latencies and known load stages: cpTotal_eq_longestChain (the "
             "model of the repaired function equals the declarative DP), longestChain_is_max, hence cp_is_longest (the total is "
             "attained by a genuine chain and dominates all chains), cp_ge_every_instr, cp_ge_every_chain; cp_lines_form_chain and "
             "cp_lines_sum (the marked lines are linked by dependencies, ascending, and their per-line CP latencies add up to the "
             "total), cp_marked_chain_is_longest, cp_no_deps_repaired. Theorems about the unrepaired variant (cp_underreports, "
             "cp_never_overreports) are kept as its witness. Tie: total and marks of the real function vs LCD.cpTotal / cpMarks; "
             "oracle Spec.longestChain in both directions, chain and stage validation.",
        design="5/C04", note=COMMON_NOTE + "Lean hypotheses NonnegStages and NonnegParams (realistic: latencies and load stages are non-negative). Hypotheses LoadsKnown / NonnegWeights are necessary (counterexamples proved); networkx is no longer involved in the "
             "path selection. Among chains of equal maximal length the implementation may mark another one than the model (counted).",
        technique="Lean 4 proof (DP equals the declarative longest chain; maximality) + differential correspondence + Spec oracle",
    ),
    "C05": dict(
        text="Theorems for all kernels with strictly increasing lines: offset_ok/map_back/double_disjoint; pathsFrom_iff (the search "
             "returns exactly the simple paths), fuel_suffices, lcd_paths_exact; emissions_forward, path_increasing, winding1_sorted "
             "(a path crosses the iteration boundary once; sorted modulo the offset it is ascending); entry_latency, post_dedup, "
             "post_represents; dg_local; lcd_sound / lcd_complete (the reported entries are exactly the winding-number-1 cycles of "
             "the periodic stream dependency relation, with members and latency sum); lcd_key_collision_free, lcd_reported_once; "
             "spec_cycles_iff_lcd (the executable oracle Spec.cycles and the model agree as sets of (lines, latency)). Tie: "
             "get_loopcarried_dependencies vs LCD.lcd incl. start lines ~1000/~5000; oracle: independent Spec.cycles over the "
             "relation of two iterations built by the real create_DG; LCD column and summary figure of the real report.",
        design="5/C05", note=COMMON_NOTE + "Modelled not verified: networkx path search, parsers and role assignment (taken from the implementation per kernel). Spec.cycles may list a cycle more than once (set-level agreement is what is proved and compared).",
        technique="Lean 4 proof (path-search soundness/completeness, winding argument) + differential correspondence + independent cycle enumeration",
    ),
    "C06": dict(
        text="Theorems about the model of is_memload/_update_reg_changes for all registers, displacements and tracked increments: "
             "same_location_edge, untouched_iff_disp_eq, no_edge_when_disp_differs / regs_differ / unknown / scale_differs / "
             "base_vs_nobase, no_edge_after_register_post_index (an access post-indexed by a register leaves its base unknown until a copy of another register overwrites it), increment_of_unknown_stays_unknown, copy_from_known_makes_known, unknown_stays_without_copy, store_ends_search (all suffixes), update_add_add; tracks_preserved, tracking_sound and store_load_edge_sound (every store->load emission is address-exact under a concrete register-valuation semantics, for every start valuation and execution -- including the storing instruction's own post-index write-back -- and for every meaning of the symbols used as displacements); post_indexed_store_edge, no_edge_symbol_vs_number, no_edge_different_symbols, same_symbol_edge. Tie: create_DG on generated store/load kernels of both "
             "ISAs vs the model; oracle: the generator's own symbolic bookkeeping (edge iff same location, with the forwarding weight).",
        design="5/C06", note=COMMON_NOTE + "Modelled not verified: networkx path search (replaced by the model's own enumeration), the parsers and the role assignment (taken from the implementation per kernel: the model consumes the implementation's semantic operands, latencies and register changes). Not covered: a load that overwrites its own address register; pre-indexed loads directly aliasing the store.",
        technique="Lean 4 proof (decision logic of the address comparison) + differential correspondence + symbolic oracle",
    ),
    "C14": dict(
        text="Theorem lcd_rotation_invariant (all kernels with strictly increasing lines, all rotation offsets r <= |k|): every entry "
             "reported for k has a counterpart reported for rotate r k with the same member instructions (identified by "
             "j -> (j+r) mod |k|), the same edge latencies and the same total latency, and conversely; built on stream locality "
             "(scanTarget_append, scanMem_append, window_suffices_all, stream_local), streamDep_rotate' and the C05 characterisation "
             "lcd_sound/lcd_complete. Tie: every rotated kernel through the real code vs LCD.lcd; oracle: the metamorphic relation on "
             "the real code for every rotation offset (cycles mapped to instruction identities).",
        design="5/C14", note=COMMON_NOTE + "Modelled not verified: networkx path search, parsers and role assignment (taken from the implementation per kernel). lcd_rotation_count: the rotated body reports the same number of entries.",
        technique="Lean 4 proof (stream locality + rotation of the periodic dependency relation) + metamorphic differential validation",
    ),
    "C17": dict(
        text="Cache state machine (Load/Edit/CrashDuringWrite/ConcurrentLoad/ForeignCache/NewProcess over companion, home and runtime "
             "caches) with invariant; theorems for every history, content, directory layout, schedule and process count under hash "
             "injectivity: inv_reachable, history_transparent, load_transparent, cache_state_irrelevant, torn_ignored, race_safe (any "
             "interleaving of N loaders at probe/open/write/close/rename granularity), race_interrupted_safe, atomic_no_torn; "
             "counterexamples for the write-in-place code. Tie: translator (INTERNAL_VERSION, file-name expressions, tolerant-read / "
             "atomic-write shape flags) + real MachineModel driven in subprocesses through random operation histories incl. truncation "
             "at each offset class and simultaneous cold starts, compared with cache-less runs.",
        design="5/C17 + notes/C17.md",
        note=COMMON_NOTE + "The model cannot plant a current-version cache with other content (only HashInj is assumed): transparency holds by construction of the writers; real-process histories are what discriminates. Partial by nature: atomicity of os.replace, pickle, real process scheduling are runtime behaviour sampled by the "
             "correspondence only. Not reached: a model file edited while it is being loaded.",
        technique="Lean 4 proof (invariant by induction over operation histories and interleavings) + history-driven correspondence",
    ),
    "C18": dict(
        text="History model with the machine model as explicit state and Python list aliasing made explicit; configuration flags "
             "(which sites copy/share/extend in place) regenerated from the AST; theorems for all Dbs, kernels and histories: "
             "analyse_preserves_db, history_independent, repeat_equal, inspect_history_independent, cache_clean_after_any_history, and "
             "exactness (every unsafe configuration has a polluting history). Tie: every history runs in one fresh worker process, "
             "object-identity trace of which model lists each line received replayed through the model; structural digest of runtime "
             "caches/ISA models/parser singletons after every call; every report vs a fresh-process run.",
        design="5/C18 + notes/C18.md",
        note=COMMON_NOTE + "Several theorems hold by construction of the abstract history model (it has one mutation site; it cannot express a write through another handed-out reference): the discriminating power is in the real-process correspondence and the AST-derived aliasing flags. Partial by nature: Python object aliasing is what the digest observes; balancer/KernelDG/Frontend are covered only by "
             "the fresh-process comparison.",
        technique="Lean 4 proof (state-threading refinement, induction over histories) + in-process history correspondence",
    ),
    "C20": dict(
        text="Import model over exact rationals; theorems for all measurements, line sequences and files: tp_snap_spec (iff), "
             "tp_window_unique, tp_reject_spec, lt_snap_spec/complete/reject, decode tables for both ISAs, dispatch_spec, key_spec, "
             "ibench_merge (any interleaving), asmbench_prefix, import_emits_all_a64, import_emits_all_partial (+ proof that the full "
             "statement is false on x86: known finding D11). Tie: translator (1.05/0.95, range(1,11), round 5, tags, offsets, operand "
             "code tables) + in-process parser correspondence on generated files + CLI import into scratch models.",
        design="5/C20 + notes/C20.md",
        note=COMMON_NOTE + "Float behaviour exactly on a 5% edge is unspecified (either outcome accepted within 1e-9). Known finding: imported x86 "
             "form with an existing mnemonic+arity is not emitted.",
        technique="Lean 4 proof (rational arithmetic, folds over line sequences) + differential correspondence through the CLI",
    ),
    "C11": dict(
        text="Theorems for all files prologue+start+body+end+epilogue (decoys of all kinds allowed, every marker style, both ISAs): "
             "marked_exact, no_marker_whole, start_only/end_only, decoy_not_marker, marker recognition with bytes on one or several "
             ".byte lines in any base, noise_transparent_select; for all --lines specs: lines_denotation, select_lines_exact; "
             "three_ways_select; parse_file numbering is positional and strictly increasing. Marker constants regenerated from "
             "marker_utils.py. Tie: generated files through the real parsers + reduce_to_section, --lines strings through "
             "get_line_range; end-to-end metamorphic runs (marked / --lines / body alone / noise insertions / beyond line 1000) on "
             "shipped kernels compared on parsed numbers (incl. non-canonical --lines spellings). At the level of the numeric analysis "
             "(Model/Pipeline: selection, dependency graph, critical path, LCD, column sums composed; Props/C11Pipeline, 29 theorems, "
             "all kernels/latencies/options): analysis_rename_equivariant, analysis_renumber_invariant, noise_drop, noise_transparent, "
             "three_ways_same, blank_line_transparent_analysis; tied by the pipeline correspondence (real CLI path under --fixed vs the "
             "driver's pipe.run, whole analysis at 1e-9).",
        design="5/C11 + notes/C11.md + notes/C11Pipeline.md",
        note=COMMON_NOTE + "In the pipeline model the per-instruction data (semantic operands, latencies, uniform pressure) are inputs, tied per run "
             "and modelled by C03Roles/C07/C08/C01; the balancer is not on the --fixed path; noise_transparent carries the proved-necessary "
             "hypothesis 0 < CP total for the CP marks (cp_zero_quirk).",
        technique="Lean 4 proof (induction over line lists, marker automaton) + differential correspondence + metamorphic end-to-end runs",
    ),
    "C13": dict(
        text="Theorems for all analyses, port counts and magnitudes: fmt2/fmtFixed round trips, shown_nearest/tie_even (half-even on the "
             "exact binary value), cells_roundtrip/row_roundtrip (cells never merge or truncate), report_roundtrip "
             "(parseTable (combinedView a) = view a), cells/sums agree with the dict at the shown precision, unknown_logic, "
             "lcd_selection (first maximal entry), lcdlist_roundtrip/complete, warning_logic. Tie: translator (DEFAULT_ARCHS, 100-line "
             "threshold, symbols) + byte-for-byte comparison of real Frontend / osaca.inspect text with the model renderer and of "
             "full_analysis_dict with the model dict; oracle: parse the real report back and compare with the real dict. "
             "End to end (Model/EndToEnd: analyse isa, for x86 AND AArch64 = parse file text -> roles -> lookup/composition -> selection -> graph -> CP/LCD -> "
             "sums -> report, all inside the model; Props/EndToEnd (38, ISA-generic) + Props/EndToEndA64 (23 instances), for all files/models/options: e2e_factors, "
             "e2e_report_wf + e2e_report_roundtrip (the hypotheses of report_roundtrip discharged for the pipeline's own output), "
             "e2e_per_line_local, e2e_unknown_isolated (C08's last clause at file level), e2e_noise_transparent_text (C11 at text level); "
             "tied by level 3: the real command line under --fixed vs the driver's e2e.x86 / e2e.a64 on the same file text and model YAML, "
             "whole analysis at 1e-9 and report text byte for byte (synthetic models + zen2/spr/tx2/a64fx). Default (optimal) scheduling: "
             "analyseWith (pressures supplied), OptimalOutcome, Props/EndToEndOpt (29): opt_invariant_part (--fixed and default runs "
             "differ at most in pressure cells and port totals), opt_uniform_admissible, opt_totals_feasible, "
             "opt_bottleneck_ge_optimum (reported bottleneck >= optimum - slack - 1/200), opt_report_roundtrip; tied by e2e.opt: the "
             "real command line without --fixed, report byte for byte given the implementation's pressures, first-pass pressures "
             "judged admissible by Spec.checkFeasible.",
        design="5/C13 + notes/C13.md + notes/EndToEnd.md",
        note=COMMON_NOTE + "Not modelled: detect_ISA, header/symbol-map blocks (tied by text comparison only); totals >= 1000 in a "
             "4-wide column are read as tokens. End-to-end model: both ISAs, --fixed only (the balancer is relational, C01); parser "
             "outputs outside the glue's domain are listed in notes/EndToEnd.md.",
        technique="Lean 4 proof (formatter/parser round trip by induction over cells) + byte-exact differential correspondence",
    ),
    "C09": dict(
        text="Hand-written model of the language the AT&T grammar accepts; theorems for all files and all lines of the AST domain: "
             "parseFile_lines (one parsed line per non-blank line, in order, numbered index+1+start, verbatim text), "
             "classify_exclusive, parseNat_renderNat / parseInt_renderInt (decimal and hex, any case, leading zeros), "
             "number/register/memory_any_blanks, operand_roundtrip, x86_roundtrip (0-4 operands, all layouts incl. tabs), "
             "expandTabs_relayout; gen_* theorems tie every hard-wired literal and character class to the parser source, "
             "grammar_unchanged compares a digest of the constructed pyparsing grammar. Tie/oracle: rendered random ASTs with random "
             "layout through ParserX86ATT vs the model and vs the AST (needs no model); malformed stream informational.",
        design="5/C09 + notes/C09.md",
        note=COMMON_NOTE + "Modelled not verified: pyparsing itself. grammar_unchanged is a digest: a grammar rewritten to the same language "
             "breaks it and ends in no-failing-input-found.",
        technique="Lean 4 proof (lexer/parser round trip by induction over tokens and operands) + differential correspondence",
    ),
    "C16": dict(
        text="Theorems for all kernels, worker counts n >= 1 (incl. n > klen) and arrival orders: partition_covers / ordered / "
             "index_unique (the slices are disjoint, ordered and concatenate to the kernel), post_perm_invariant (any permutation of "
             "the arriving paths gives the same dictionary, under the decidable SumByKey predicate evaluated on every real run), "
             "post_sound/complete/mono, parallel_eq_sequential, worker_count_irrelevant. Partition expressions compiled from the "
             "Python AST. Tie: real multi-process runs with patched cpu_count and seeded per-worker delays vs the sequential search "
             "and the model; repeated CLI runs byte-identical.",
        design="5/C16 + notes/C16.md",
        note=COMMON_NOTE + "Partial by nature: process creation, the Manager proxy and delivery of every batch are runtime behaviour sampled by the "
             "correspondence; injectivity of the '-'.join key is trusted.",
        technique="Lean 4 proof (partition arithmetic, permutation invariance) + real-process correspondence with controlled schedules",
    ),
    "C19": dict(
        text="Abstract poll loop with clock; theorems for any timeout, clock and kill point: partial_subset / partial_post_subdict (the "
             "reported dictionary is a sub-dictionary of the untimed one with equal latencies), complete_if_in_time, "
             "complete_eq_sequential, flag_iff_cut (repaired loop), old_flag_spurious (witness for the unrepaired loop), exit_bound, "
             "poll_terminates. Tie: real processes with timeouts {0,1,2,generous,-1} on kernel_x86_long_LCD.s and generated kernels "
             "(wall time bound on the best of three attempts with load-scaled slack, warning iff cut, subset with equal latencies, no child "
             "left, CP/TP unaffected) + virtual-clock runs incl. the overhead bound in virtual time for timeouts up to 21 s.",
        design="5/C19 + notes/C19.md",
        note=COMMON_NOTE + "partial_subset / flag_iff_cut / complete_if_in_time are unfoldings of the abstract poll loop (a worker that is dead but incomplete is inexpressible); partial_post_subdict needs SumByKey and LinesUnique of the complete path list (logged at run time, not evaluated as an oracle). Partial by nature: wall-clock bounds, SIGKILL and reaping are runtime; the model cannot exhibit a hung join.",
        technique="Lean 4 proof (state machine of the poll loop) + real-process correspondence with real and virtual clocks",
    ),
    "C07": dict(
        text="Rule-by-rule model of get_instruction/_match_operands/_check_*_operands/_is_*_type and the mnemonic fall-backs; "
             "theorems for all parser-domain operands, schema-valid entries and databases: check_iff_kind (the operand test is exactly "
             "the declarative KindAgree relation), match_iff_agree, lookup_sound, lookup_complete_first, lookup_none_iff, "
             "lookup_case_insensitive, fallback_spec/unique, self_match, never_unknown; kernel-decided tables over the 139 distinct "
             "operand signatures of all shipped models (shipped_*_sigs, shipped_*_live), regenerated per run. Tie: index of the entry "
             "returned by the real get_instruction on synthetic models x matching/near-miss instructions of both ISAs, and for every "
             "entry of every shipped model the instruction synthesised from its own pattern incl. the full costing path.",
        design="5/C07 + notes/C07.md",
        note=COMMON_NOTE + "assign_src_dst is not modelled (semantic operand lists come from the implementation). Known findings: 84 m1/v2 entries "
             "with index/scale null and 104 five-operand icl forms can never match.",
        technique="Lean 4 proof (decision logic vs declarative kind relation, first-match lemmas) + differential correspondence + exhaustive self-match sweep",
    ),
    "C08": dict(
        text="Model of assign_tp_lt's composition path; theorems for all models and instructions: compose_spec (every field is "
             "Spec.Composed of the named ingredients), compose_feasible (the composed pressure is Feasible 0 with the multipliers as "
             "mult: links to C01), unknown_spec, own_entry_first, composed_when, per_instruction, row_choice_load/store. Tie: "
             "synthetic models x instructions with a memory operand in every position and role, each analysed twice in a row and "
             "after a decoy; curated real vocabulary on shipped models; oracle Spec.Composed recomputed from the raw YAML tables.",
        design="5/C08 + notes/C08.md",
        note=COMMON_NOTE + "Known findings: AArch64 composition ignores the register type when picking the load/store row; the loader drops "
             "pre/post_indexed of table rows.",
        technique="Lean 4 proof (decision logic of the composition) + differential correspondence with history checks",
    ),
    "C10": dict(
        text="Model of the language the AArch64 grammar accepts; theorems for all files and all lines of the AST domain: "
             "parseFile_lines, classify_exclusive, a64_roundtrip (every operand kind: scalar/alias/vector/SVE/predicate registers, "
             "lists and ranges expanded, integer/hex/float/shifted immediates, conditions, identifiers, prefetch, memory with offset / "
             "scaled index / pre- and post-index; up to 5 operands, all layouts, trailing comment), a64_roundtrip_checked (executable "
             "domain test evaluated on every generated AST), range_expand, scale_pow2, imm_*_roundtrip. Tie/oracle: rendered random "
             "ASTs through ParserAArch64 vs the model and vs the AST; Lean renderer vs Python renderer.",
        design="5/C10 + notes/C10.md",
        note=COMMON_NOTE + "classify_exclusive is true by construction of the four-constructor line type; the round-trip domain excludes labels that begin like a register name (v0_table, spin_loop): covered by neither theorem nor generator. Modelled not verified: pyparsing. ASCII only; label names starting with a shift-operator word or pld/pst are outside the domain.",
        technique="Lean 4 proof (parser round trip by induction over tokens/operands) + differential correspondence",
    ),
}

REASON_TODO = "no theorem + checked tie built yet in this round; planned per DESIGN.md section 5 (not claimed until both exist)"


def main():
    checks = []
    for pid in ALL:
        if pid not in CLAIMS:
            continue
        c = CLAIMS[pid]
        checks.append({
            "property_id": pid,
            "quick_cmd": "./check %s --tier quick" % pid,
            "thorough_cmd": "./check %s --tier thorough" % pid,
            "evidence_file": "evidence/%s.json" % pid,
            "replay_cmd_template": "./check %s --replay {path}" % pid,
            "engine": "lean-proof+correspondence",
            "level_claimed": {"category": c.get("category", "proof"), "text": c["text"], "design_ref": c["design"]},
            "level_note": c["note"],
            "technique": c["technique"],
        })
    man = {
        "version": 1,
        "setup_cmd": "./setup.sh",
        "hooks": {
            "guard": "OSACA_VERIF",
            "enable": "none needed: the harness controls schedules, clocks, caches and traces by in-process patching and a private HOME",
            "baseline_off_cmd": BASELINE,
            "source_commits": [],
            "add_only": True,
        },
        "engines": [{
            "name": "lean-proof+correspondence",
            "path": "lean/ (Lean 4 project), tools/translate.py, harness/",
            "serves_properties": sorted(CLAIMS),
            "kind_free_text": "Lean 4 models + theorems; translator regenerates Gen/*.lean from /repo on every run; "
                              "Python harness runs the real code and the native Lean driver on the same inputs and diffs",
        }],
        "checks": checks,
        "notes": "See DESIGN.md. fix: commits in /repo are listed in known_findings.json (kind=fixed).",
        "not_applicable": [{"property_id": p, "reason": NA.get(p, REASON_TODO)} for p in ALL if p not in CLAIMS],
    }
    with open(os.path.join(VERIF, "MANIFEST.json"), "w") as f:
        json.dump(man, f, indent=1)
    print("MANIFEST.json: %d checks, %d not claimed" % (len(checks), len(man["not_applicable"])))


NA = {}

if __name__ == "__main__":
    main()
