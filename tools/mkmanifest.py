#!/usr/bin/env python3
"""Writes MANIFEST.json from the table below (single source of truth for what is claimed)."""
import json
import os

VERIF = os.path.dirname(os.path.dirname(os.path.abspath(__file__)))
ALL = ["C%02d" % i for i in range(1, 21)]

BASELINE = ("cd /repo && /venv/bin/python -m pytest -ra -q -p no:cacheprovider --timeout=900 "
            "--continue-on-collection-errors")

COMMON_NOTE = ("Trusted: Lean 4.33 kernel (axioms audited per theorem: subset of propext, Classical.choice, Quot.sound; "
               "no sorry/native_decide/bv_decide), tools/translate.py, the correspondence harness and its generators. ")

CLAIMS = {
    "C12": dict(
        text="Theorems over the complete register universe (x86: kernel-decided table lifted to every case spelling by a "
             "general case-insensitivity theorem; AArch64: for all register names/numbers of any length and all prefixes): "
             "dependence = architectural overlap, hence reflexive/symmetric/transitive/case-insensitive/families disjoint. "
             "Tables are regenerated from the parser sources on every run; the exhaustive correspondence (711k ordered pairs "
             "through the real parsers) ties model and code.",
        design="5/C12",
        note=COMMON_NOTE + "Modelled not verified: Python str.upper/lower/rstrip/re.match ASCII behaviour; pyparsing "
             "(only used to build the operand objects).",
        technique="Lean 4 proof (decide +kernel table + structural case lemma) over translator-generated tables; exhaustive differential correspondence",
    ),
    "C01": dict(
        text="Theorems for all port models / micro-op lists / kernels: the loop of average_port_pressure equals the closed-form "
             "uniform split, which is exactly feasible (non-negative, supported, exact total, Hall condition for every port set); "
             "any sequence of guarded balancing moves (INC from the source) keeps the vector feasible up to INC/2 per micro-op with "
             "exact total; kernel totals are the column sums over lines with throughput != skip value. Tie: translator (INC, digits, "
             "filter), K1 correspondence of average_port_pressure/get_throughput_sum, K2 trace refinement of the real balancer "
             "(every recorded mutation replayed as a guarded move), oracle Spec.checkFeasible on uniform/once/twice states.",
        design="5/C01",
        note=COMMON_NOTE + "The balancer's float-noise dependent control flow is modelled relationally. Known finding: state after the "
             "second assign_optimal_throughput call (D12). Modelled not verified: Python floats/round.",
        technique="Lean 4 proof (induction over micro-op lists and move sequences) + trace-refinement correspondence",
    ),
    "C02": dict(
        text="Theorems for all kernels: per-instruction feasibility (C01) makes the kernel totals a feasible schedule of all micro-ops "
             "(kernel_feasible), and a feasible schedule never undercuts max_S confined(S)/|S| by more than its slack "
             "(lowerBound_le_max, pigeonhole). The 0.15 clause is decided exhaustively on the property's 5355-kernel family by "
             "executing the real code against the Lean Spec optimum; 'optimised <= uniform' by the same family and random kernels.",
        design="5/C02",
        note=COMMON_NOTE + "Optimum = max_S confined(S)/|S| as the property defines it (LP duality not proved). 'optimised <= uniform' "
             "on rounded sums is checked on executions, proved only for exact sums (transfer_max_le). Known finding: second pass on "
             "multi-micro-op kernels outside the family.",
        technique="Lean 4 proof (feasibility algebra, pigeonhole) + bounded-exhaustive execution of the real code against the Lean Spec",
    ),
    "C15": dict(
        text="Per shipped model a kernel-decided theorem (regenerated from the YAML on every run) that every micro-op list, "
             "throughput/latency value and load/store table entry is well-formed, lifted by wf_costable/shipped_costable (for all port "
             "lists and raw lists) to: costing never raises and returns the exactly feasible uniform split; counts_spec for --db-check. "
             "Tie: raw YAML vs loaded MachineModel entry by entry, every distinct list through the real average_port_pressure vs the "
             "Lean model, --db-check counters vs sanityCounts vs a raw count.",
        design="5/C15",
        note=COMMON_NOTE + "Modelled not verified: ruamel.yaml. The CLI path (one synthesised instruction per entry) is exercised by C07's "
             "self-match sweep. bdw/csx/skx are empty in this sandbox and skipped.",
        technique="Lean 4 proof (decide +kernel tables from YAML + general costing lemma) + exhaustive correspondence",
    ),
}

REASON_TODO = "no theorem + checked tie built yet in this round; planned per DESIGN.md section 5 (not claimed until both exist)"


def main():
    checks = []
    for pid in ALL:
        if pid not in CLAIMS:
            continue
        c = CLAIMS[pid]
        checks.append({
            "property_id": pid,
            "quick_cmd": "./check %s --tier quick" % pid,
            "thorough_cmd": "./check %s --tier thorough" % pid,
            "evidence_file": "evidence/%s.json" % pid,
            "replay_cmd_template": "./check %s --replay {path}" % pid,
            "engine": "lean-proof+correspondence",
            "level_claimed": {"category": c.get("category", "proof"), "text": c["text"], "design_ref": c["design"]},
            "level_note": c["note"],
            "technique": c["technique"],
        })
    man = {
        "version": 1,
        "setup_cmd": "./setup.sh",
        "hooks": {
            "guard": "OSACA_VERIF",
            "enable": "none needed: the harness controls schedules, clocks, caches and traces by in-process patching and a private HOME",
            "baseline_off_cmd": BASELINE,
            "source_commits": [],
            "add_only": True,
        },
        "engines": [{
            "name": "lean-proof+correspondence",
            "path": "lean/ (Lean 4 project), tools/translate.py, harness/",
            "serves_properties": sorted(CLAIMS),
            "kind_free_text": "Lean 4 models + theorems; translator regenerates Gen/*.lean from /repo on every run; "
                              "Python harness runs the real code and the native Lean driver on the same inputs and diffs",
        }],
        "checks": checks,
        "notes": "See DESIGN.md. fix: commits in /repo are listed in known_findings.json (kind=fixed).",
        "not_applicable": [{"property_id": p, "reason": NA.get(p, REASON_TODO)} for p in ALL if p not in CLAIMS],
    }
    with open(os.path.join(VERIF, "MANIFEST.json"), "w") as f:
        json.dump(man, f, indent=1)
    print("MANIFEST.json: %d checks, %d not claimed" % (len(checks), len(man["not_applicable"])))


NA = {}

if __name__ == "__main__":
    main()
