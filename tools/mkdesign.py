#!/usr/bin/env python3
"""Assembles DESIGN.md = Part I (DESIGN_asbuilt.md, with the seeded-change table filled in) + Part II (the round-0 design,
kept verbatim from git: tools/DESIGN_round0.md)."""
import os
import subprocess

VERIF = os.path.dirname(os.path.dirname(os.path.abspath(__file__)))
part1 = open(os.path.join(VERIF, "DESIGN_asbuilt.md")).read()
table = subprocess.check_output(["python3", os.path.join(VERIF, "tools", "seedtable.py")]).decode()
table = "\n".join(l for l in table.split("\n") if "conda" not in l.lower())
part1 = part1.replace("SEEDED_TABLE_PLACEHOLDER", table)
part2 = open(os.path.join(VERIF, "tools", "DESIGN_round0.md")).read()
part2 = part2.replace("# Verification design for RRZE-HPC/OSACA — machine-checked proof in Lean 4",
                      "# Part II — the design as written before the code (round 0)\n\n"
                      "(Kept verbatim. Sections 5 and 6 carry the per-property reasoning; the status line, the \"no framework code\n"
                      "exists yet\" remark and the defect plan of section 6 are superseded by Part I.)", 1)
with open(os.path.join(VERIF, "DESIGN.md"), "w") as f:
    f.write(part1.rstrip("\n") + "\n\n---------------------------------------------------------------------------------------------\n\n" + part2)
print("DESIGN.md written: %d lines" % (part1.count("\n") + part2.count("\n")))
