#!/usr/bin/env python3
"""Markdown table of the independently seeded changes under seeded/ (from their meta.json)."""
import glob
import json
import os

VERIF = os.path.dirname(os.path.dirname(os.path.abspath(__file__)))
rows = []
for d in sorted(glob.glob(os.path.join(VERIF, "seeded", "*"))):
    try:
        m = json.load(open(os.path.join(d, "meta.json")))
    except Exception:
        continue
    ran = ", ".join("%s: %s" % (r["check"], "VIOLATION" + ("" if r["check"] in m.get("caught_with_input", []) else " (no-failing-input-found)")
                                if r["exit"] == 1 else "quiet (exit %d)" % r["exit"]) for r in m.get("ran", []))
    rows.append("| `%s` | %s | %s | %s | %s |" % (os.path.basename(d), m.get("property"), m.get("needs", "")[:160],
                                               "yes" if m.get("valid_seed") else "NO (%s/%s)" % (m.get("demo_clean"), m.get("demo_patched")), ran))
print("| seeded change | property | needs, to manifest | demo 0→1, tests unchanged | checks |")
print("|---|---|---|---|---|")
print("\n".join(rows))
