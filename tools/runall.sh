#!/bin/sh
# Run every registered quick (or $1) check sequentially; print id, exit code, seconds.
TIER=${1:-quick}
cd "$(dirname "$0")/.."
mkdir -p .work/runall
for i in 01 02 03 04 05 06 07 08 09 10 11 12 13 14 15 16 17 18 19 20; do
  s=$(date +%s)
  ./check C$i --tier $TIER > .work/runall/C$i.$TIER.log 2>&1
  rc=$?
  e=$(date +%s)
  echo "C$i rc=$rc t=$((e-s))s $(grep -c '^VIOLATION' .work/runall/C$i.$TIER.log) viol $(grep -c '^KNOWN-FINDING' .work/runall/C$i.$TIER.log) known"
done
