#!/usr/bin/env python3
"""Validate a seeded change against the checks.

  tools/seedtest.py <PROP> <patch.diff> <demo.py> [--checks C01,C02] [--keep-as NAME] [--needs "..."]

Applies the patch to /repo (which must be clean), confirms that the demonstration exits 0 without and 1 with
the patch, that the pinned baseline tests still pass with it, runs the named checks (default: the property's own),
and restores /repo.  With --keep-as it stores patch, demo and meta.json under /verif/seeded/NAME/.
"""
import argparse
import json
import os
import shutil
import subprocess
import sys
import time

VERIF = os.path.dirname(os.path.dirname(os.path.abspath(__file__)))
REPO = os.environ.get("OSACA_REPO", "/repo")
TMP = os.environ.get("SEEDTEST_TMP", "/tmp/seedtest-%d" % os.getpid())
BASE = json.load(open("/root/.vp/BASELINE.json"))["stable_pass"]


def sh(cmd, **kw):
    return subprocess.run(cmd, shell=True, stdout=subprocess.PIPE, stderr=subprocess.STDOUT, text=True, **kw)


def clean():
    return sh("git -C %s status --porcelain --untracked-files=no" % REPO).stdout.strip() == ""


def run_demo(demo):
    env = dict(os.environ, OSACA_REPO=REPO, HOME=TMP + "/home")
    shutil.rmtree(TMP + "/home", ignore_errors=True)
    os.makedirs(TMP + "/home", exist_ok=True)
    p = subprocess.run(["/venv/bin/python", "-W", "ignore", demo], stdout=subprocess.PIPE, stderr=subprocess.STDOUT, text=True, env=env, timeout=900)
    return p.returncode, p.stdout[-1500:]


def baseline_ok():
    files = sorted({t.split(".")[1] for t in BASE})
    cmd = ("cd %s && PYTHONPATH=%s /venv/bin/python -m pytest -q -p no:cacheprovider --timeout=900 --continue-on-collection-errors "
           "--junitxml=%s/junit.xml %s > %s/pytest.log 2>&1" % (REPO, REPO, TMP, " ".join("tests/%s.py" % f for f in files), TMP))
    sh(cmd, timeout=1800)
    import xml.etree.ElementTree as ET

    res = {}
    for tc in ET.parse(TMP + "/junit.xml").getroot().iter("testcase"):
        res[tc.get("classname") + "::" + tc.get("name")] = not any(ch.tag in ("failure", "error", "skipped") for ch in tc)
    return [t for t in BASE if not res.get(t)]


def main():
    ap = argparse.ArgumentParser()
    ap.add_argument("prop")
    ap.add_argument("patch")
    ap.add_argument("demo")
    ap.add_argument("--checks", default=None)
    ap.add_argument("--keep-as", default=None)
    ap.add_argument("--needs", default="")
    ap.add_argument("--skip-tests", action="store_true")
    a = ap.parse_args()
    checks = (a.checks or a.prop).split(",")
    if not clean():
        print(REPO + " has uncommitted changes; refusing")
        return 2
    out = {"property": a.prop, "patch": os.path.basename(a.patch), "needs": a.needs, "ran": []}
    rc0, o0 = run_demo(a.demo)
    out["demo_clean"] = rc0
    r = sh("git -C %s apply --check %s && git -C %s apply %s" % (REPO, a.patch, REPO, a.patch))
    if r.returncode != 0:
        print("patch does not apply:", r.stdout)
        return 2
    try:
        rc1, o1 = run_demo(a.demo)
        out["demo_patched"] = rc1
        out["demo_output_patched"] = o1[-600:]
        if not a.skip_tests:
            broken = baseline_ok()
            out["baseline_tests_broken"] = broken
        for c in checks:
            t = time.time()
            p = sh("cd %s && ./check %s --tier quick" % (VERIF, c), timeout=3000)
            allines = p.stdout.split("\n")
            lines = [l for l in allines if l.startswith(("VIOLATION", "KNOWN-FINDING")) or "done: exit" in l]
            lines += [l for l in allines if "broken" in l][:4]
            out["ran"].append({"check": c, "exit": p.returncode, "wall_s": round(time.time() - t, 1),
                               "lines": [l[:300] for l in lines][:12]})
            # keep one replay file as illustration
            for l in lines:
                if l.startswith("VIOLATION") and "replay=" in l and "first_replay" not in out:
                    rp = l.split("replay=")[1].split()[0]
                    try:
                        out["first_replay"] = json.load(open(rp))["what"][:400]
                    except Exception:
                        pass
    finally:
        sh("git -C %s checkout -- ." % REPO)
        shutil.rmtree(TMP, ignore_errors=True)
        # regenerate Gen from the clean tree so that the next build starts from the committed state
        sh("cd %s && git checkout -- lean/OsacaVerif/Gen 2>/dev/null; /venv/bin/python -W ignore tools/translate.py >/dev/null 2>&1" % VERIF)
    out["valid_seed"] = (out["demo_clean"] == 0 and out.get("demo_patched") == 1 and not out.get("baseline_tests_broken"))
    out["caught_by"] = [r["check"] for r in out["ran"] if r["exit"] == 1 and any(l.startswith("VIOLATION") for l in r["lines"])]
    out["caught_with_input"] = [r["check"] for r in out["ran"] if any(l.startswith("VIOLATION") and "no-failing-input-found" not in l for l in r["lines"])]
    print(json.dumps(out, indent=1))
    if a.keep_as:
        d = os.path.join(VERIF, "seeded", a.keep_as)
        os.makedirs(d, exist_ok=True)
        shutil.copy(a.patch, os.path.join(d, "patch.diff"))
        shutil.copy(a.demo, os.path.join(d, "demo.py"))
        json.dump(out, open(os.path.join(d, "meta.json"), "w"), indent=1)
    return 0


if __name__ == "__main__":
    sys.exit(main())
