import subprocess, json, re, sys
def show(stage, path):
    return subprocess.check_output(['git','-C','/verif','show',':%d:%s'%(stage,path)]).decode()
# OsacaVerif.lean: union of import lines
ours=show(2,'lean/OsacaVerif.lean'); theirs=show(3,'lean/OsacaVerif.lean')
lines=ours.rstrip('\n').split('\n')
for l in theirs.split('\n'):
    if l.startswith('import ') and l not in lines: lines.append(l)
open('/verif/lean/OsacaVerif.lean','w').write('\n'.join(lines)+'\n')
# Driver.lean
ours=show(2,'lean/Driver.lean'); theirs=show(3,'lean/Driver.lean')
imps=[l for l in theirs.split('\n') if l.startswith('import ') and l not in ours]
hs=re.search(r'def handlers[^\[]*\[(.*?)\]', theirs, re.S).group(1)
th=[h.strip().rstrip(',') for h in hs.split('\n') if h.strip()]
oh_m=re.search(r'(def handlers[^\[]*\[)(.*?)(\])', ours, re.S)
oh=[h.strip().rstrip(',') for h in oh_m.group(2).split('\n') if h.strip()]
for h in th:
    if h not in oh: oh.append(h)
new=ours[:oh_m.start()]+oh_m.group(1)+'\n'+',\n'.join('  '+h for h in oh)+'\n'+oh_m.group(3)+ours[oh_m.end():]
# imports after last import
il=new.split('\n'); last=max(i for i,l in enumerate(il) if l.startswith('import '))
il[last+1:last+1]=imps
open('/verif/lean/Driver.lean','w').write('\n'.join(il))
# known findings
o=json.loads(show(2,'known_findings.json')); t=json.loads(show(3,'known_findings.json'))
keys={(f['property'],f.get('key')) for f in o['findings']}
for f in t['findings']:
    if (f['property'],f.get('key')) not in keys: o['findings'].append(f)
json.dump(o,open('/verif/known_findings.json','w'),indent=1)
print("resolved")
