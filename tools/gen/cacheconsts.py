"""Gen/CacheConsts.lean: what the cache model (C17) takes from the source.

Sources: osaca/semantics/hw_model.py (INTERNAL_VERSION, __init__, _get_cached, _write_in_cache and the
helpers they call), osaca/utils.py (DATA_DIRS, CACHE_DIR), osaca/data/_build_cache.py, and the list
of shipped model files.  Everything is located by structure (which calls are made on what), not by
variable names or spelling (helpers: astutil_G1.py), so a harmless rewrite changes nothing; a change of
behaviour flips a flag or a constant, and the theorems of Props/C17 that mention it stop compiling.

Tolerated (same output):
  * cache file names written as `"." + p.stem + "_" + h`, `".{}_{}".format(p.stem, h)`, `".%s_%s" % (..)`,
    `f".{p.stem}_{h}"`, `"".join([...])`, with `{0}` / `{name}` / `{0.stem}` fields, `str(..)` wrappers, the
    name or its pieces bound to locals first, literal pieces split or taken from constants; the home name as
    `D / name`, `D.joinpath(name)` or `Path(D, name)`; the path expression hoisted (`q = p.with_name(..)`);
    the slots are recognised by what they ARE (`<x>.stem`; a `hashlib` hexdigest of `<x>.read_bytes()`,
    inline or bound to any local; `hashlib.sha256(..)`, `sha256(..)` imported from hashlib, `hashlib.new("sha256", ..)`;
    the bytes bound to a local first);
  * INTERNAL_VERSION and the suffix as constant expressions;
  * the version test / the `not lazy` guards in any equivalent control-flow form: nested `if`, `and`, conditional
    expression, `else` of the negated test, guard clause with early return / continue, De Morgan, mirrored `==`;
  * `cached = self._get_cached(..) if not lazy else False` as an if/else statement; `if not cached` with swapped branches;
  * `pickle.load` / `pickle.loads`, also imported by name; the elements of DATA_DIRS / CACHE_DIR with constants
    folded (`"~/.osaca" + "/data"`).  (DATA_DIRS must stay a list: a tuple would change the text of find_datafile's
    error message.)
Insisted on: two cache-hit returns in `_get_cached` (companion probed first), each under the version test; one
`_get_cached` call, one `_write_in_cache` call and one runtime-cache store in `__init__`; two `os.access(.., os.W_OK)`
tests; reader and writer build the same names with the same hash.  A loop over the two candidate files, or a hit
returned through a result variable, is NOT recognised (fails loudly).
No module of the analysed tree is imported or executed.
"""
import ast
import glob
import hashlib
import os
import sys

sys.path.insert(0, os.path.dirname(os.path.abspath(__file__)))
import astutil_G1 as U  # noqa: E402

# the plug-in and its helpers are inputs too: a change of either regenerates the file
SELF = ["../verif-self:tools/gen/cacheconsts.py", "../verif-self:tools/gen/astutil_G1.py"]

import translate as T  # noqa: E402
from translate import TranslateError, generator, parse, find_func, txt, txt_list, HEADER  # noqa: E402

HW = "osaca/semantics/hw_model.py"
CLS = "MachineModel"
VERSION_ATTR = "INTERNAL_VERSION"
VERSION_KEY = "internal_version"

parents = U.parents
_contains = U.contains


# --------------------------------------------------------------------------- AST helpers
def is_attr_call(node, attr, base=None):
    """`<base>.<attr>(...)`"""
    if not (isinstance(node, ast.Call) and isinstance(node.func, ast.Attribute) and node.func.attr == attr):
        return False
    if base is None:
        return True
    return isinstance(node.func.value, ast.Name) and node.func.value.id == base


def is_lib_call(node, sc, lib, names):
    """`lib.f(...)` or `f(...)` with `from lib import f` -> f (for f in names), else None"""
    if not isinstance(node, ast.Call):
        return None
    f = node.func
    if isinstance(f, ast.Attribute) and isinstance(f.value, ast.Name) and f.value.id == lib and f.attr in names:
        return f.attr
    if isinstance(f, ast.Name):
        b = sc.module().bind.get(f.id)
        if b and len(b) == 1 and b[0][0] == "import" and isinstance(b[0][1], ast.ImportFrom) \
                and b[0][1].module == lib and not b[0][1].level and b[0][2].name in names \
                and f.id not in sc.bind:
            return b[0][2].name
    return None


def method_closure(methods, start):
    """Methods of the class reachable from `start` through `self.m(...)` / `Class.m(...)` / `cls.m(...)`."""
    seen, todo = [], [start]
    while todo:
        m = todo.pop()
        if m in seen or m not in methods:
            continue
        seen.append(m)
        for node in ast.walk(methods[m]):
            if isinstance(node, ast.Call) and isinstance(node.func, ast.Attribute) and isinstance(
                node.func.value, ast.Name
            ) and node.func.value.id in ("self", "cls", CLS):
                todo.append(node.func.attr)
    return seen


def broad_handler(h):
    """except: / except Exception / except BaseException (also inside a tuple), without re-raise."""
    def broad(t):
        if t is None:
            return True
        if isinstance(t, ast.Name):
            return t.id in ("Exception", "BaseException")
        if isinstance(t, ast.Tuple):
            return any(broad(e) for e in t.elts)
        return False

    if not broad(h.type):
        return False
    return not any(isinstance(n, ast.Raise) for b in h.body for n in ast.walk(b))


def in_protected_try(node, par):
    """Is `node` inside the body of a `try` that has a broad, non-re-raising handler?"""
    ch = node
    while ch in par:
        p = par[ch]
        if isinstance(p, ast.Try) and any(ch is b or _contains(b, ch) for b in p.body):
            if any(broad_handler(h) for h in p.handlers):
                return True
        ch = p
    return False


def is_hexdigest(n):
    return is_attr_call(n, "hexdigest") and not n.args and not n.keywords


def name_parts(expr, sc):
    """`"." + p.stem + "_" + hexhash` (in any formatting style) -> ([(0, "."), (1, ""), (0, "_"), (2, "")], hash call)
    kinds: 0 literal text, 1 the file's stem, 2 the content hash (a hashlib hexdigest, inline or via a local)."""
    parts, hcall = [], None
    for kind, v in U.template_parts(expr, sc):
        if kind == "lit":
            parts.append((0, v))
            continue
        n = sc.deref(v)
        if isinstance(n, ast.Attribute) and n.attr == "stem":
            parts.append((1, ""))
        elif is_hexdigest(n):
            if hcall is not None and not U.same(hcall, n):
                raise TranslateError("cache file name: two different hashes in %s" % ast.unparse(expr))
            hcall = n
            parts.append((2, ""))
        else:
            raise TranslateError("cache file name: unexpected expression %s" % ast.unparse(v))
    return parts, hcall


class CacheName:
    def __init__(self, kind, parts, suffix, hcall, node, base):
        self.kind, self.parts, self.suffix, self.hcall, self.node, self.base = kind, parts, suffix, hcall, node, base

    def doc(self):
        """canonical pseudo-code of the expression (independent of the formatting style of the source)"""
        pieces = [repr(t) if k == 0 else ("p.stem" if k == 1 else "hexhash") for k, t in self.parts]
        e = " + ".join(pieces)
        if self.kind == "companion":
            return "p.with_name(%s).with_suffix(%r)" % (e, self.suffix)
        return "(%s / %s).with_suffix(%r)" % (self.base, "(%s)" % e if len(pieces) > 1 else e, self.suffix)


def cache_name_exprs(sc):
    """The two `….with_suffix(<const>)` expressions of a function, by kind:
    'companion' for `p.with_name(E).with_suffix(S)`, 'home' for `(D / E).with_suffix(S)` (also `D.joinpath(E)`,
    `Path(D, E)`)."""
    fn = sc.node
    out = {}
    for node in ast.walk(fn):
        if not is_attr_call(node, "with_suffix"):
            continue
        if len(node.args) != 1 or node.keywords:
            raise TranslateError("%s: with_suffix argument is not a literal" % fn.name)
        ok, suffix = sc.try_ev(node.args[0])
        if not ok or not isinstance(suffix, str):
            raise TranslateError("%s: with_suffix argument is not a literal" % fn.name)
        inner = sc.deref(node.func.value)
        base = ""
        if is_attr_call(inner, "with_name") and len(inner.args) == 1 and not inner.keywords:
            kind, e = "companion", inner.args[0]
        elif isinstance(inner, ast.BinOp) and isinstance(inner.op, ast.Div):
            kind, e, base = "home", inner.right, inner.left
        elif is_attr_call(inner, "joinpath") and len(inner.args) == 1 and not inner.keywords:
            kind, e, base = "home", inner.args[0], inner.func.value
        elif isinstance(inner, ast.Call) and U.call_name(inner) in ("Path", "PurePath") and len(inner.args) == 2 \
                and not inner.keywords:
            kind, e = "home", inner.args[1]
            base = ast.Call(func=inner.func, args=[inner.args[0]], keywords=[])
        else:
            raise TranslateError("%s: unexpected cache path expression %s" % (fn.name, ast.unparse(node)))
        parts, hcall = name_parts(e, sc)
        if hcall is None or sum(1 for p in parts if p[0] == 2) != 1 or sum(1 for p in parts if p[0] == 1) != 1:
            raise TranslateError("%s: cache file name must use the stem and the hash once each: %s"
                                 % (fn.name, ast.unparse(e)))
        if kind in out:
            raise TranslateError("%s: two %s cache names" % (fn.name, kind))
        if kind == "home":
            b = sc.deref(base)
            if U.call_name(b) in ("Path", "PurePath") and len(b.args) == 1:
                base = b
            base = ast.unparse(ast.fix_missing_locations(base))
        out[kind] = CacheName(kind, parts, suffix, hcall, node, base)
    if set(out) != {"companion", "home"}:
        raise TranslateError("%s: expected a companion and a home cache name, found %s" % (fn.name, sorted(out)))
    return out


def first_use(sc, node):
    """source position where the value of `node` is first used: if it is bound to a local, the first load of
    that local after the binding; otherwise the node itself"""
    par = sc.par
    p = par.get(node)
    if isinstance(p, ast.Assign) and p.value is node and len(p.targets) == 1 and isinstance(p.targets[0], ast.Name):
        nm = p.targets[0].id
        uses = [(n.lineno, n.col_offset) for n in ast.walk(sc.node)
                if isinstance(n, ast.Name) and n.id == nm and isinstance(n.ctx, ast.Load)
                and (n.lineno, n.col_offset) > (p.lineno, p.col_offset)]
        if uses:
            return min(uses)
    return (node.lineno, node.col_offset)


def hash_def(sc, hcall):
    """`hashlib.<algo>(<path>.read_bytes()).hexdigest()` -> algo; the key must come from the file's bytes."""
    fn = sc.node
    h = sc.deref(hcall.func.value)
    if not isinstance(h, ast.Call) or h.keywords:
        raise TranslateError("%s: the hash does not come from hashlib" % fn.name)
    f = h.func
    args = list(h.args)
    algo = None
    if isinstance(f, ast.Attribute) and isinstance(f.value, ast.Name) and f.value.id == "hashlib":
        algo = f.attr
    elif isinstance(f, ast.Name):
        b = sc.module().bind.get(f.id)
        if b and len(b) == 1 and b[0][0] == "import" and isinstance(b[0][1], ast.ImportFrom) \
                and b[0][1].module == "hashlib" and not b[0][1].level and f.id not in sc.bind:
            algo = b[0][2].name
    if algo is None:
        raise TranslateError("%s: the hash does not come from hashlib" % fn.name)
    if algo == "new":
        if len(args) != 2:
            raise TranslateError("%s: hashlib.new(name, data) expected" % fn.name)
        algo = sc.ev_str(args[0], "hashlib.new").lower()
        args = args[1:]
    if len(args) != 1 or not (is_attr_call(sc.deref(args[0]), "read_bytes") and not sc.deref(args[0]).args):
        raise TranslateError("%s: cache key is not computed from the model file's bytes: %s"
                             % (fn.name, ast.unparse(hcall)))
    return algo


def is_name(n, ident):
    return isinstance(n, ast.Name) and n.id == ident


def is_version_attr(n, sc):
    n = sc.deref(n)
    return isinstance(n, ast.Attribute) and n.attr == VERSION_ATTR and isinstance(n.value, ast.Name) \
        and n.value.id in ("self", "cls", CLS)


def mentions_version_key(n, sc):
    """`x.get("internal_version")` / `x["internal_version"]` (the key may be a constant expression)"""
    n = sc.deref(n)
    if isinstance(n, ast.Subscript) and not isinstance(n.slice, ast.Slice):
        return sc.try_ev(n.slice) == (True, VERSION_KEY)
    if is_attr_call(n, "get") and 1 <= len(n.args) <= 2 and not n.keywords:
        if sc.try_ev(n.args[0]) != (True, VERSION_KEY):
            return False
        if len(n.args) == 2:           # a default equal to the current version would defeat the test
            ok, v = sc.try_ev(n.args[1])
            return ok and v is None
        return True
    return False


def is_version_test(a, sc):
    if not (isinstance(a, ast.Compare) and len(a.ops) == 1 and isinstance(a.ops[0], ast.Eq)):
        return False
    l, r = a.left, a.comparators[0]
    return (is_version_attr(l, sc) and mentions_version_key(r, sc)) or \
        (is_version_attr(r, sc) and mentions_version_key(l, sc))


def lean_bool(b):
    return "true" if b else "false"


def _unstr(n):
    while isinstance(n, ast.Call) and isinstance(n.func, ast.Name) and n.func.id == "str" and len(n.args) == 1:
        n = n.args[0]
    return n


# --------------------------------------------------------------------------- the generator
@generator("CacheConsts", [HW, "osaca/utils.py", "osaca/data/_build_cache.py", "osaca/data/*.yml",
                           "osaca/data/isa/*.yml"] + SELF)
def gen_cacheconsts():
    U.reset_cache()
    mod = U.mod_scope(HW)
    cls = mod.cls(CLS)
    methods = cls.methods()
    for m in ("__init__", "_get_cached", "_write_in_cache"):
        if m not in methods:
            raise TranslateError("%s.%s not found" % (CLS, m))

    # INTERNAL_VERSION = <int>  (class attribute)
    if VERSION_ATTR not in cls.bind:
        raise TranslateError("INTERNAL_VERSION not found")
    va = cls.class_attr(VERSION_ATTR)
    if va is None:
        raise TranslateError("INTERNAL_VERSION is not a natural-number literal")
    ok, version = cls.try_ev(va[0])
    if not ok or isinstance(version, bool) or not isinstance(version, int) or version < 0:
        raise TranslateError("INTERNAL_VERSION is not a natural-number literal")

    # ---------------- _get_cached: names, key, version test, error handling
    sgc = cls.fn("_get_cached")
    gc = sgc.node
    names_r = cache_name_exprs(sgc)
    algo_r = hash_def(sgc, names_r["companion"].hcall)
    if hash_def(sgc, names_r["home"].hcall) != algo_r or not U.same(
            sgc.deref(names_r["home"].hcall.func.value), sgc.deref(names_r["companion"].hcall.func.value)):
        raise TranslateError("_get_cached: companion and home names use different hashes")
    # every `return <something that is not False/None>` must be under a test of internal_version
    par = sgc.par
    n_hits = 0
    for node in ast.walk(gc):
        if isinstance(node, ast.Return) and node.value is not None:
            ok, v = sgc.try_ev(node.value)
            if ok and (v is False or v is None):
                continue
            n_hits += 1
            if not U.holds(U.path_conditions(node, par), lambda a: is_version_test(a, sgc), True):
                raise TranslateError("_get_cached: a cache hit is returned without the internal_version test "
                                     "(line %d)" % node.lineno)
    if n_hits != 2:
        raise TranslateError("_get_cached: expected two cache-hit returns (companion, home), found %d" % n_hits)
    # order: companion probed before home
    order = [k for _, k in sorted((first_use(sgc, v.node), k) for k, v in names_r.items())]
    if order != ["companion", "home"]:
        raise TranslateError("_get_cached: companion cache is not probed first")
    # pickle.load calls reachable from _get_cached
    loads = []
    for m in method_closure(methods, "_get_cached"):
        pm = parents(methods[m])
        msc = cls.fn(m)
        for node in ast.walk(methods[m]):
            if is_lib_call(node, msc, "pickle", ("load", "loads")):
                loads.append(in_protected_try(node, pm))
    if not loads:
        raise TranslateError("_get_cached: no pickle.load found")
    tolerant = all(loads)

    # ---------------- _write_in_cache: same names, companion-if-writable-else-home, how files are written
    swc = cls.fn("_write_in_cache")
    wc = swc.node
    names_w = cache_name_exprs(swc)
    algo_w = hash_def(swc, names_w["companion"].hcall)
    if hash_def(swc, names_w["home"].hcall) != algo_w:
        raise TranslateError("_write_in_cache: companion and home names use different hashes")
    for k in ("companion", "home"):
        if (names_w[k].parts, names_w[k].suffix) != (names_r[k].parts, names_r[k].suffix):
            raise TranslateError("cache reader and writer build different %s names: %s vs %s"
                                 % (k, names_r[k].doc(), names_w[k].doc()))
    if algo_r != algo_w:
        raise TranslateError("cache reader and writer hash differently")
    access_tests = [n for n in ast.walk(wc) if is_attr_call(n, "access", "os")]
    if len(access_tests) != 2 or not all("W_OK" in ast.unparse(a) for a in access_tests):
        raise TranslateError("_write_in_cache: expected two os.access(…, os.W_OK) tests")
    # a pickle.dump is atomic if the file object it writes was opened on a name that is afterwards the
    # first argument of os.replace / os.rename (or receiver of .replace/.rename) in the same function
    dumps = []
    for m in method_closure(methods, "_write_in_cache"):
        fn = methods[m]
        pm = parents(fn)
        msc = cls.fn(m)
        for node in ast.walk(fn):
            if is_lib_call(node, msc, "pickle", ("dump",)) is None:
                continue
            opened = None
            ch = node
            while ch in pm:
                p = pm[ch]
                if isinstance(p, ast.With):
                    for it in p.items:
                        ce = it.context_expr
                        if isinstance(ce, ast.Call):
                            modes = [msc.try_ev(a) for a in list(ce.args) + [k.value for k in ce.keywords]]
                            if not any(ok and isinstance(v, str) and "w" in v and "b" in v for ok, v in modes):
                                continue
                            if is_attr_call(ce, "open") and isinstance(ce.func.value, ast.Name):
                                opened = ce.func.value.id
                            elif isinstance(ce.func, ast.Name) and ce.func.id == "open" and ce.args:
                                opened = ast.unparse(_unstr(ce.args[0]))
                ch = p
            if opened is None:
                raise TranslateError("%s: pickle.dump outside `with <path>.open('wb')`" % m)
            moved = False
            for n2 in ast.walk(fn):
                if isinstance(n2, ast.Call) and isinstance(n2.func, ast.Attribute) \
                        and n2.func.attr in ("replace", "rename") and getattr(n2, "lineno", 0) > node.lineno:
                    src0 = None
                    if isinstance(n2.func.value, ast.Name) and n2.func.value.id == "os" and n2.args:
                        src0 = ast.unparse(_unstr(n2.args[0]))
                    elif isinstance(n2.func.value, ast.Name):
                        src0 = n2.func.value.id
                    if src0 is not None and src0 == opened:
                        moved = True
            # the temporary name must not be one of the final names themselves
            is_final_var = False
            for n3 in ast.walk(wc):
                if isinstance(n3, ast.Assign) and len(n3.targets) == 1 and isinstance(n3.targets[0], ast.Name) \
                        and n3.targets[0].id == opened and any(n3.value is v.node for v in names_w.values()):
                    is_final_var = True
            dumps.append(moved and not is_final_var)
    if not dumps:
        raise TranslateError("_write_in_cache: no pickle.dump found")
    atomic = all(dumps)

    # ---------------- __init__: lazy bypasses every cache; the runtime-cache probe never decides
    sinit = cls.fn("__init__")
    init = sinit.node
    pi = sinit.par
    if not sinit.is_param("lazy"):
        raise TranslateError("__init__: parameter `lazy` not found")
    gets = [n for n in ast.walk(init) if is_attr_call(n, "_get_cached", "self")]
    writes = [n for n in ast.walk(init) if is_attr_call(n, "_write_in_cache", "self")]
    rt_stores = [n for n in ast.walk(init) if isinstance(n, ast.Assign) and any(
        isinstance(t, ast.Subscript) and "_runtime_cache" in ast.unparse(t.value) for t in n.targets)]
    if len(gets) != 1 or len(writes) != 1 or len(rt_stores) != 1:
        raise TranslateError("__init__: expected one _get_cached call, one _write_in_cache call and one "
                             "runtime-cache store (found %d, %d, %d)" % (len(gets), len(writes), len(rt_stores)))

    def not_lazy(n):
        return U.holds(U.path_conditions(n, pi), lambda a: is_name(a, "lazy"), False)

    lazy_bypasses = all(not_lazy(n) for n in gets + writes + rt_stores)
    # runtime-cache probe: an `if … _runtime_cache …:` without else whose successor statement computes
    # `cached` from _get_cached unconditionally; both branches of `if cached` then assign self._data
    def assigns_data(stmts):
        return any(isinstance(n, ast.Assign) and any(ast.unparse(t) == "self._data" for t in n.targets)
                   for s in stmts for n in ast.walk(s))

    def binds_from_get(st):
        """`c = <.. _get_cached ..>`  or  `if ..: c = <.. _get_cached ..> else: c = ..` -> c"""
        if isinstance(st, ast.Assign) and len(st.targets) == 1 and isinstance(st.targets[0], ast.Name) \
                and _contains(st, gets[0]):
            return st.targets[0].id
        if isinstance(st, ast.If) and len(st.body) == 1 and len(st.orelse) == 1 and _contains(st, gets[0]) \
                and not _contains(st.test, gets[0]):
            a, b = st.body[0], st.orelse[0]
            if all(isinstance(x, ast.Assign) and len(x.targets) == 1 and isinstance(x.targets[0], ast.Name)
                   for x in (a, b)) and a.targets[0].id == b.targets[0].id:
                return a.targets[0].id
        return None

    rt_overwritten = False
    stmt_lists = [getattr(node, f) for node in ast.walk(init) for f in ("body", "orelse", "finalbody")
                  if isinstance(getattr(node, f, None), list)]
    for body in stmt_lists:
        for i, st in enumerate(body):
            if isinstance(st, ast.If) and "_runtime_cache" in ast.unparse(st.test):
                nxt = body[i + 1:i + 3]
                if not st.orelse and len(nxt) == 2 and not U.always_exits(st.body):
                    c = binds_from_get(nxt[0])
                    if c is not None and isinstance(nxt[1], ast.If) and nxt[1].orelse \
                            and is_name(U.strip_not(nxt[1].test)[0], c):
                        rt_overwritten = assigns_data(nxt[1].body) and assigns_data(nxt[1].orelse)
    # the version stamp is put into the data before it is written
    stamps = [n for n in ast.walk(init) if isinstance(n, ast.Assign) and len(n.targets) == 1
              and mentions_version_key(n.targets[0], sinit) and is_version_attr(n.value, sinit)]
    stamped = bool(stamps) and all(s.lineno < writes[0].lineno for s in stamps)

    # ---------------- utils.DATA_DIRS / CACHE_DIR
    usc = U.mod_scope("osaca/utils.py")
    ut = usc.tree
    dd = usc.bind.get("DATA_DIRS")
    cd = usc.bind.get("CACHE_DIR")
    if not dd or not cd or len(dd) != 1 or len(cd) != 1 or dd[0][0] != "assign" or cd[0][0] != "assign" \
            or not any(s is dd[0][2] for s in ut.body) or not any(s is cd[0][2] for s in ut.body):
        raise TranslateError("utils.DATA_DIRS / CACHE_DIR not found")
    if not isinstance(dd[0][1], ast.List) or any(isinstance(e, ast.Starred) for e in dd[0][1].elts):
        raise TranslateError("utils.DATA_DIRS is not a list literal")
    data_dirs = [ast.unparse(U.fold_constants(e, usc)) for e in dd[0][1].elts]
    cache_dir = ast.unparse(U.fold_constants(cd[0][1], usc))
    if not data_dirs:
        raise TranslateError("utils.DATA_DIRS / CACHE_DIR not found")
    user_first = "expanduser" in data_dirs[0] and "__file__" in data_dirs[-1]
    fd = find_func(ut, "find_datafile")
    loops = [n for n in ast.walk(fd) if isinstance(n, ast.For)]
    first_wins = (len(loops) == 1 and ast.unparse(loops[0].iter) == "DATA_DIRS"
                  and any(isinstance(n, ast.Return) for n in ast.walk(loops[0]))
                  and not any(isinstance(n, ast.Call) and ast.unparse(n.func) in ("reversed", "sorted")
                              for n in ast.walk(fd)))

    # ---------------- _build_cache.py: caches shipped with the package come from the same loader
    bt = parse("osaca/data/_build_cache.py")
    calls = [n for n in ast.walk(bt) if isinstance(n, ast.Call) and ast.unparse(n.func) == CLS]
    build_full = bool(calls) and all(
        [k.arg for k in c.keywords] == ["path_to_yaml"] and not c.args for c in calls)

    # ---------------- shipped model files
    stems = []
    for pat in ("osaca/data/*.yml", "osaca/data/isa/*.yml"):
        for f in sorted(glob.glob(os.path.join(T.REPO, pat))):
            stems.append(os.path.basename(f)[:-4])

    try:
        hexlen = hashlib.new(algo_r).digest_size * 2
    except Exception:
        raise TranslateError("unknown hash algorithm %r" % algo_r)

    def parts_lit(parts):
        return "[" + ", ".join("(%d, %s)" % (k, txt(t)) for k, t in parts) + "]"

    o = [HEADER, "namespace OsacaVerif.Gen\n"]
    o.append("/-- `MachineModel.INTERNAL_VERSION` -/")
    o.append("def cacheInternalVersion : Nat := %d\n" % version)
    o.append("/-- every `pickle.load` reachable from `_get_cached` sits in a `try` with a broad handler -/")
    o.append("def cacheTolerantRead : Bool := %s\n" % lean_bool(tolerant))
    o.append("/-- every `pickle.dump` reachable from `_write_in_cache` writes a temporary name that is then\n"
             "    `os.replace`d onto the final one -/")
    o.append("def cacheAtomicWrite : Bool := %s\n" % lean_bool(atomic))
    o.append("/-- `_get_cached`, `_write_in_cache` and the runtime-cache store are all under `not lazy` -/")
    o.append("def cacheLazyBypasses : Bool := %s\n" % lean_bool(lazy_bypasses))
    o.append("/-- the runtime-cache probe of `__init__` is always overwritten by the hash-keyed lookup or a parse -/")
    o.append("def cacheRtProbeOverwritten : Bool := %s\n" % lean_bool(rt_overwritten))
    o.append("/-- `internal_version` is stored in the data before `_write_in_cache` runs -/")
    o.append("def cacheVersionStamped : Bool := %s\n" % lean_bool(stamped))
    o.append("/-- `utils.DATA_DIRS`: the user's directory first, the package directory last; first match wins -/")
    o.append("def cacheDataDirs : List (List Nat) := %s" % txt_list(data_dirs))
    o.append("def cacheDir : List Nat := %s" % txt(cache_dir))
    o.append("def cacheUserDirFirst : Bool := %s\n" % lean_bool(user_first and first_wins))
    o.append("/-- `_build_cache.py` fills the package directory with full, non-lazy loads of each file -/")
    o.append("def cacheBuildUsesLoader : Bool := %s\n" % lean_bool(build_full))
    o.append("/-- cache file names; parts: (0, text) literal, (1, _) the model file's stem, (2, _) the hash -/")
    o.append("-- %s" % names_r["companion"].doc())
    o.append("def cacheCompanionParts : List (Nat × List Nat) := %s" % parts_lit(names_r["companion"].parts))
    o.append("def cacheCompanionSuffix : List Nat := %s" % txt(names_r["companion"].suffix))
    o.append("-- %s" % names_r["home"].doc())
    o.append("def cacheHomeParts : List (Nat × List Nat) := %s" % parts_lit(names_r["home"].parts))
    o.append("def cacheHomeSuffix : List Nat := %s\n" % txt(names_r["home"].suffix))
    o.append("/-- the key is `hashlib.%s(<file>.read_bytes()).hexdigest()` -/" % algo_r)
    o.append("def cacheHashAlgo : List Nat := %s" % txt(algo_r))
    o.append("def cacheHashHexLen : Nat := %d\n" % hexlen)
    o.append("/-- stems of the shipped model files (`osaca/data/*.yml`, `osaca/data/isa/*.yml`) -/")
    o.append("def cacheShippedStems : List (List Nat) := [")
    o.append(",\n".join("  %s  -- %s" % (txt(s), s) for s in stems[:-1]))
    o[-1] = ",\n".join("  %s" % txt(s) for s in stems)
    o.append("]\n")
    o.append("end OsacaVerif.Gen\n")
    return "\n".join(o)
