"""Gen/CacheConsts.lean: what the cache model (C17) takes from the source.

Sources: osaca/semantics/hw_model.py (INTERNAL_VERSION, __init__, _get_cached, _write_in_cache and the
helpers they call), osaca/utils.py (DATA_DIRS, CACHE_DIR), osaca/data/_build_cache.py, and the list
of shipped model files.  Everything is located by structure (which calls are made on what), not by
variable names, so a harmless renaming changes nothing; a change of behaviour flips a flag or a
constant, and the theorems of Props/C17 that mention it stop compiling.
"""
import ast
import glob
import hashlib
import os

import translate as T
from translate import TranslateError, generator, parse, find_func, txt, txt_list, HEADER

HW = "osaca/semantics/hw_model.py"
CLS = "MachineModel"


# --------------------------------------------------------------------------- AST helpers
def parents(tree):
    par = {}
    for node in ast.walk(tree):
        for ch in ast.iter_child_nodes(node):
            par[ch] = node
    return par


def is_attr_call(node, attr, base=None):
    """`<base>.<attr>(...)`"""
    if not (isinstance(node, ast.Call) and isinstance(node.func, ast.Attribute) and node.func.attr == attr):
        return False
    if base is None:
        return True
    return isinstance(node.func.value, ast.Name) and node.func.value.id == base


def class_methods(tree, cls):
    for node in ast.walk(tree):
        if isinstance(node, ast.ClassDef) and node.name == cls:
            return {n.name: n for n in node.body if isinstance(n, ast.FunctionDef)}
    raise TranslateError("class %s not found" % cls)


def method_closure(methods, start):
    """Methods of the class reachable from `start` through `self.m(...)` / `Class.m(...)` / `cls.m(...)`."""
    seen, todo = [], [start]
    while todo:
        m = todo.pop()
        if m in seen or m not in methods:
            continue
        seen.append(m)
        for node in ast.walk(methods[m]):
            if isinstance(node, ast.Call) and isinstance(node.func, ast.Attribute) and isinstance(
                node.func.value, ast.Name
            ) and node.func.value.id in ("self", "cls", CLS):
                todo.append(node.func.attr)
    return seen


def broad_handler(h):
    """except: / except Exception / except BaseException (also inside a tuple), without re-raise."""
    def broad(t):
        if t is None:
            return True
        if isinstance(t, ast.Name):
            return t.id in ("Exception", "BaseException")
        if isinstance(t, ast.Tuple):
            return any(broad(e) for e in t.elts)
        return False

    if not broad(h.type):
        return False
    return not any(isinstance(n, ast.Raise) for b in h.body for n in ast.walk(b))


def in_protected_try(node, par):
    """Is `node` inside the body of a `try` that has a broad, non-re-raising handler?"""
    ch = node
    while ch in par:
        p = par[ch]
        if isinstance(p, ast.Try) and any(ch is b or _contains(b, ch) for b in p.body):
            if any(broad_handler(h) for h in p.handlers):
                return True
        ch = p
    return False


def _contains(root, node):
    return any(n is node for n in ast.walk(root))


def name_parts(expr, stem_attr="stem"):
    """`"." + p.stem + "_" + hexhash` -> [(0, "."), (1, ""), (0, "_"), (2, "")]
    kinds: 0 literal text, 1 the file's stem, 2 the content hash (any plain variable)."""
    if isinstance(expr, ast.BinOp) and isinstance(expr.op, ast.Add):
        return name_parts(expr.left) + name_parts(expr.right)
    if isinstance(expr, ast.Constant) and isinstance(expr.value, str):
        return [(0, expr.value)]
    if isinstance(expr, ast.Attribute) and expr.attr == stem_attr:
        return [(1, "")]
    if isinstance(expr, ast.Name):
        return [(2, expr.id)]
    raise TranslateError("cache file name: unexpected expression %s" % ast.unparse(expr))


def cache_name_exprs(fn):
    """The two `….with_suffix(<const>)` expressions of a function: (kind, parts, suffix, hashvar)
    kind = 'companion' for `p.with_name(E).with_suffix(S)`, 'home' for `(Path(DIR) / E).with_suffix(S)`."""
    out = {}
    for node in ast.walk(fn):
        if not is_attr_call(node, "with_suffix"):
            continue
        if len(node.args) != 1 or not isinstance(node.args[0], ast.Constant):
            raise TranslateError("%s: with_suffix argument is not a literal" % fn.name)
        suffix = node.args[0].value
        inner = node.func.value
        if is_attr_call(inner, "with_name") and len(inner.args) == 1:
            kind, e = "companion", inner.args[0]
        elif isinstance(inner, ast.BinOp) and isinstance(inner.op, ast.Div):
            kind, e = "home", inner.right
        else:
            raise TranslateError("%s: unexpected cache path expression %s" % (fn.name, ast.unparse(node)))
        parts = name_parts(e)
        hv = [p[1] for p in parts if p[0] == 2]
        if len(hv) != 1 or sum(1 for p in parts if p[0] == 1) != 1:
            raise TranslateError("%s: cache file name must use the stem and the hash once each: %s"
                                 % (fn.name, ast.unparse(e)))
        if kind in out:
            raise TranslateError("%s: two %s cache names" % (fn.name, kind))
        out[kind] = ([(k, "" if k == 2 else t) for k, t in parts], suffix, hv[0], ast.unparse(node))
    if set(out) != {"companion", "home"}:
        raise TranslateError("%s: expected a companion and a home cache name, found %s" % (fn.name, sorted(out)))
    return out


def hash_def(fn, var):
    """`var = hashlib.<algo>(<path>.read_bytes()).hexdigest()` -> algo; the key must come from the
    file's bytes."""
    for node in ast.walk(fn):
        if isinstance(node, ast.Assign) and len(node.targets) == 1 and isinstance(node.targets[0], ast.Name) \
                and node.targets[0].id == var:
            v = node.value
            if not is_attr_call(v, "hexdigest"):
                raise TranslateError("%s: %s is not a hexdigest" % (fn.name, var))
            h = v.func.value
            if not (isinstance(h, ast.Call) and isinstance(h.func, ast.Attribute)
                    and isinstance(h.func.value, ast.Name) and h.func.value.id == "hashlib"):
                raise TranslateError("%s: %s does not come from hashlib" % (fn.name, var))
            if len(h.args) != 1 or not is_attr_call(h.args[0], "read_bytes"):
                raise TranslateError("%s: cache key is not computed from the model file's bytes: %s"
                                     % (fn.name, ast.unparse(v)))
            return h.func.attr
    raise TranslateError("%s: definition of %s not found" % (fn.name, var))


def guarded_by_not_lazy(node, par):
    """Is `node` only evaluated when `lazy` is false (body of `if not lazy`, or `X if not lazy else Y`)?"""
    def is_not_lazy(t):
        return isinstance(t, ast.UnaryOp) and isinstance(t.op, ast.Not) and isinstance(t.operand, ast.Name) \
            and t.operand.id == "lazy"

    ch = node
    while ch in par:
        p = par[ch]
        if isinstance(p, ast.IfExp) and is_not_lazy(p.test) and (ch is p.body or _contains(p.body, ch)):
            return True
        if isinstance(p, ast.If) and is_not_lazy(p.test) and any(ch is b or _contains(b, ch) for b in p.body):
            return True
        ch = p
    return False


def lean_bool(b):
    return "true" if b else "false"


# --------------------------------------------------------------------------- the generator
@generator("CacheConsts", [HW, "osaca/utils.py", "osaca/data/_build_cache.py", "osaca/data/*.yml",
                           "osaca/data/isa/*.yml"])
def gen_cacheconsts():
    tree = parse(HW)
    methods = class_methods(tree, CLS)
    for m in ("__init__", "_get_cached", "_write_in_cache"):
        if m not in methods:
            raise TranslateError("%s.%s not found" % (CLS, m))

    # INTERNAL_VERSION = <int>  (class attribute)
    version = None
    for node in ast.walk(tree):
        if isinstance(node, ast.ClassDef) and node.name == CLS:
            for st in node.body:
                if isinstance(st, ast.Assign) and any(
                    isinstance(t, ast.Name) and t.id == "INTERNAL_VERSION" for t in st.targets
                ):
                    if not (isinstance(st.value, ast.Constant) and isinstance(st.value.value, int)
                            and st.value.value >= 0):
                        raise TranslateError("INTERNAL_VERSION is not a natural-number literal")
                    version = st.value.value
    if version is None:
        raise TranslateError("INTERNAL_VERSION not found")

    # ---------------- _get_cached: names, key, version test, error handling
    gc = methods["_get_cached"]
    names_r = cache_name_exprs(gc)
    algo_r = hash_def(gc, names_r["companion"][2])
    if names_r["home"][2] != names_r["companion"][2]:
        raise TranslateError("_get_cached: companion and home names use different hashes")
    # every `return <something that is not False/None>` must be under a test of internal_version
    par = parents(gc)
    n_hits = 0
    for node in ast.walk(gc):
        if isinstance(node, ast.Return) and node.value is not None and not (
            isinstance(node.value, ast.Constant) and node.value.value in (False, None)
        ):
            n_hits += 1
            ch, ok = node, False
            while ch in par:
                p = par[ch]
                if isinstance(p, ast.If) and any(ch is b or _contains(b, ch) for b in p.body):
                    src = ast.unparse(p.test)
                    has_eq = any(isinstance(c, ast.Compare) and len(c.ops) == 1 and isinstance(c.ops[0], ast.Eq)
                                 and "internal_version" in ast.unparse(c) and "INTERNAL_VERSION" in ast.unparse(c)
                                 for c in ast.walk(p.test))
                    if has_eq and " or " not in src:
                        ok = True
                ch = p
            if not ok:
                raise TranslateError("_get_cached: a cache hit is returned without the internal_version test "
                                     "(line %d)" % node.lineno)
    if n_hits != 2:
        raise TranslateError("_get_cached: expected two cache-hit returns (companion, home), found %d" % n_hits)
    # order: companion probed before home
    order = [k for _, k in sorted((min(n.lineno for n in ast.walk(gc)
                                       if is_attr_call(n, "with_suffix") and ast.unparse(n) == v[3]), k)
                                  for k, v in names_r.items())]
    if order != ["companion", "home"]:
        raise TranslateError("_get_cached: companion cache is not probed first")
    # pickle.load calls reachable from _get_cached
    loads = []
    for m in method_closure(methods, "_get_cached"):
        pm = parents(methods[m])
        for node in ast.walk(methods[m]):
            if is_attr_call(node, "load", "pickle"):
                loads.append(in_protected_try(node, pm))
    if not loads:
        raise TranslateError("_get_cached: no pickle.load found")
    tolerant = all(loads)

    # ---------------- _write_in_cache: same names, companion-if-writable-else-home, how files are written
    wc = methods["_write_in_cache"]
    names_w = cache_name_exprs(wc)
    algo_w = hash_def(wc, names_w["companion"][2])
    for k in ("companion", "home"):
        if names_w[k][:2] != names_r[k][:2]:
            raise TranslateError("cache reader and writer build different %s names: %s vs %s"
                                 % (k, names_r[k][3], names_w[k][3]))
    if algo_r != algo_w:
        raise TranslateError("cache reader and writer hash differently")
    access_tests = [n for n in ast.walk(wc) if is_attr_call(n, "access", "os")]
    if len(access_tests) != 2 or not all("W_OK" in ast.unparse(a) for a in access_tests):
        raise TranslateError("_write_in_cache: expected two os.access(…, os.W_OK) tests")
    # a pickle.dump is atomic if the file object it writes was opened on a name that is afterwards the
    # first argument of os.replace / os.rename (or receiver of .replace/.rename) in the same function
    dumps = []
    for m in method_closure(methods, "_write_in_cache"):
        fn = methods[m]
        pm = parents(fn)
        for node in ast.walk(fn):
            if not is_attr_call(node, "dump", "pickle"):
                continue
            opened = None
            ch = node
            while ch in pm:
                p = pm[ch]
                if isinstance(p, ast.With):
                    for it in p.items:
                        ce = it.context_expr
                        if isinstance(ce, ast.Call) and "wb" in ast.unparse(ce):
                            if is_attr_call(ce, "open") and isinstance(ce.func.value, ast.Name):
                                opened = ce.func.value.id
                            elif isinstance(ce.func, ast.Name) and ce.func.id == "open" and ce.args:
                                opened = ast.unparse(ce.args[0])
                ch = p
            if opened is None:
                raise TranslateError("%s: pickle.dump outside `with <path>.open('wb')`" % m)
            moved = False
            for n2 in ast.walk(fn):
                if isinstance(n2, ast.Call) and isinstance(n2.func, ast.Attribute) \
                        and n2.func.attr in ("replace", "rename") and getattr(n2, "lineno", 0) > node.lineno:
                    src0 = None
                    if isinstance(n2.func.value, ast.Name) and n2.func.value.id == "os" and n2.args:
                        src0 = ast.unparse(n2.args[0])
                    elif isinstance(n2.func.value, ast.Name):
                        src0 = n2.func.value.id
                    if src0 is not None and (src0 == opened or src0 == "str(%s)" % opened):
                        moved = True
            # the temporary name must not be one of the final names themselves
            finals = [v[3] for v in names_w.values()]
            is_final_var = False
            for n3 in ast.walk(wc):
                if isinstance(n3, ast.Assign) and len(n3.targets) == 1 and isinstance(n3.targets[0], ast.Name) \
                        and n3.targets[0].id == opened and ast.unparse(n3.value) in finals:
                    is_final_var = True
            dumps.append(moved and not is_final_var)
    if not dumps:
        raise TranslateError("_write_in_cache: no pickle.dump found")
    atomic = all(dumps)

    # ---------------- __init__: lazy bypasses every cache; the runtime-cache probe never decides
    init = methods["__init__"]
    pi = parents(init)
    gets = [n for n in ast.walk(init) if is_attr_call(n, "_get_cached", "self")]
    writes = [n for n in ast.walk(init) if is_attr_call(n, "_write_in_cache", "self")]
    rt_stores = [n for n in ast.walk(init) if isinstance(n, ast.Assign) and any(
        isinstance(t, ast.Subscript) and "_runtime_cache" in ast.unparse(t.value) for t in n.targets)]
    if len(gets) != 1 or len(writes) != 1 or len(rt_stores) != 1:
        raise TranslateError("__init__: expected one _get_cached call, one _write_in_cache call and one "
                             "runtime-cache store (found %d, %d, %d)" % (len(gets), len(writes), len(rt_stores)))
    lazy_bypasses = all(guarded_by_not_lazy(n, pi) for n in gets + writes + rt_stores)
    # runtime-cache probe: an `if … _runtime_cache …:` without else whose successor statement computes
    # `cached` from _get_cached unconditionally; both branches of `if cached` then assign self._data
    rt_overwritten = False
    stmt_lists = [getattr(node, f) for node in ast.walk(init) for f in ("body", "orelse", "finalbody")
                  if isinstance(getattr(node, f, None), list)]
    for body in stmt_lists:
        for i, st in enumerate(body):
            if isinstance(st, ast.If) and "_runtime_cache" in ast.unparse(st.test):
                nxt = body[i + 1:i + 3]
                if (not st.orelse and len(nxt) == 2 and isinstance(nxt[0], ast.Assign)
                        and _contains(nxt[0], gets[0]) and isinstance(nxt[1], ast.If)
                        and isinstance(nxt[1].test, ast.Name)
                        and isinstance(nxt[0].targets[0], ast.Name)
                        and nxt[1].test.id == nxt[0].targets[0].id and nxt[1].orelse):
                    def assigns_data(stmts):
                        return any(isinstance(n, ast.Assign) and any(ast.unparse(t) == "self._data" for t in n.targets)
                                   for s in stmts for n in ast.walk(s))
                    rt_overwritten = assigns_data(nxt[1].body) and assigns_data(nxt[1].orelse)
    # the version stamp is put into the data before it is written
    stamps = [n for n in ast.walk(init) if isinstance(n, ast.Assign) and "internal_version" in ast.unparse(n.targets[0])
              and "INTERNAL_VERSION" in ast.unparse(n.value)]
    stamped = bool(stamps) and all(s.lineno < writes[0].lineno for s in stamps)

    # ---------------- utils.DATA_DIRS / CACHE_DIR
    ut = parse("osaca/utils.py")
    data_dirs = cache_dir = None
    for node in ut.body:
        if isinstance(node, ast.Assign) and isinstance(node.targets[0], ast.Name):
            if node.targets[0].id == "DATA_DIRS":
                if not isinstance(node.value, ast.List):
                    raise TranslateError("utils.DATA_DIRS is not a list literal")
                data_dirs = [ast.unparse(e) for e in node.value.elts]
            if node.targets[0].id == "CACHE_DIR":
                cache_dir = ast.unparse(node.value)
    if not data_dirs or cache_dir is None:
        raise TranslateError("utils.DATA_DIRS / CACHE_DIR not found")
    user_first = "expanduser" in data_dirs[0] and "__file__" in data_dirs[-1]
    fd = find_func(ut, "find_datafile")
    loops = [n for n in ast.walk(fd) if isinstance(n, ast.For)]
    first_wins = (len(loops) == 1 and ast.unparse(loops[0].iter) == "DATA_DIRS"
                  and any(isinstance(n, ast.Return) for n in ast.walk(loops[0]))
                  and not any(isinstance(n, ast.Call) and ast.unparse(n.func) in ("reversed", "sorted")
                              for n in ast.walk(fd)))

    # ---------------- _build_cache.py: caches shipped with the package come from the same loader
    bt = parse("osaca/data/_build_cache.py")
    calls = [n for n in ast.walk(bt) if isinstance(n, ast.Call) and ast.unparse(n.func) == CLS]
    build_full = bool(calls) and all(
        [k.arg for k in c.keywords] == ["path_to_yaml"] and not c.args for c in calls)

    # ---------------- shipped model files
    stems = []
    for pat in ("osaca/data/*.yml", "osaca/data/isa/*.yml"):
        for f in sorted(glob.glob(os.path.join(T.REPO, pat))):
            stems.append(os.path.basename(f)[:-4])

    try:
        hexlen = hashlib.new(algo_r).digest_size * 2
    except Exception:
        raise TranslateError("unknown hash algorithm %r" % algo_r)

    def parts_lit(parts):
        return "[" + ", ".join("(%d, %s)" % (k, txt(t)) for k, t in parts) + "]"

    o = [HEADER, "namespace OsacaVerif.Gen\n"]
    o.append("/-- `MachineModel.INTERNAL_VERSION` -/")
    o.append("def cacheInternalVersion : Nat := %d\n" % version)
    o.append("/-- every `pickle.load` reachable from `_get_cached` sits in a `try` with a broad handler -/")
    o.append("def cacheTolerantRead : Bool := %s\n" % lean_bool(tolerant))
    o.append("/-- every `pickle.dump` reachable from `_write_in_cache` writes a temporary name that is then\n"
             "    `os.replace`d onto the final one -/")
    o.append("def cacheAtomicWrite : Bool := %s\n" % lean_bool(atomic))
    o.append("/-- `_get_cached`, `_write_in_cache` and the runtime-cache store are all under `not lazy` -/")
    o.append("def cacheLazyBypasses : Bool := %s\n" % lean_bool(lazy_bypasses))
    o.append("/-- the runtime-cache probe of `__init__` is always overwritten by the hash-keyed lookup or a parse -/")
    o.append("def cacheRtProbeOverwritten : Bool := %s\n" % lean_bool(rt_overwritten))
    o.append("/-- `internal_version` is stored in the data before `_write_in_cache` runs -/")
    o.append("def cacheVersionStamped : Bool := %s\n" % lean_bool(stamped))
    o.append("/-- `utils.DATA_DIRS`: the user's directory first, the package directory last; first match wins -/")
    o.append("def cacheDataDirs : List (List Nat) := %s" % txt_list(data_dirs))
    o.append("def cacheDir : List Nat := %s" % txt(cache_dir))
    o.append("def cacheUserDirFirst : Bool := %s\n" % lean_bool(user_first and first_wins))
    o.append("/-- `_build_cache.py` fills the package directory with full, non-lazy loads of each file -/")
    o.append("def cacheBuildUsesLoader : Bool := %s\n" % lean_bool(build_full))
    o.append("/-- cache file names; parts: (0, text) literal, (1, _) the model file's stem, (2, _) the hash -/")
    o.append("-- %s" % names_r["companion"][3])
    o.append("def cacheCompanionParts : List (Nat × List Nat) := %s" % parts_lit(names_r["companion"][0]))
    o.append("def cacheCompanionSuffix : List Nat := %s" % txt(names_r["companion"][1]))
    o.append("-- %s" % names_r["home"][3])
    o.append("def cacheHomeParts : List (Nat × List Nat) := %s" % parts_lit(names_r["home"][0]))
    o.append("def cacheHomeSuffix : List Nat := %s\n" % txt(names_r["home"][1]))
    o.append("/-- the key is `hashlib.%s(<file>.read_bytes()).hexdigest()` -/" % algo_r)
    o.append("def cacheHashAlgo : List Nat := %s" % txt(algo_r))
    o.append("def cacheHashHexLen : Nat := %d\n" % hexlen)
    o.append("/-- stems of the shipped model files (`osaca/data/*.yml`, `osaca/data/isa/*.yml`) -/")
    o.append("def cacheShippedStems : List (List Nat) := [")
    o.append(",\n".join("  %s  -- %s" % (txt(s), s) for s in stems[:-1]))
    o[-1] = ",\n".join("  %s" % txt(s) for s in stems)
    o.append("]\n")
    o.append("end OsacaVerif.Gen\n")
    return "\n".join(o)
