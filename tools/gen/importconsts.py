"""Gen/ImportConsts.lean: every literal of the benchmark importer (C20).

From osaca/db_interface.py:
  _validate_measurement   1.05 / 0.95 of the latency branch, 0.95 / 1.05 of the throughput branch,
                          range(1, 11), round(reci, 5)
  _get_ibench_output      "Using frequency", the TP/LT dispatch (tag strings, suffix-vs-substring test,
                          rstrip), the key slice [:2], separators, token index of the measurement
  _get_asmbench_output    block length 4, line offsets of blank / latency / throughput line, presence of
                          the length guard, token index of the measurement
  _create_db_operand_*    the complete if/elif decision tables (tests and dict literals) as data

Read by VALUE and ROLE (helpers: astutil_G1.py), not by spelling:
  * every number / string is a constant *expression*: literal in any spelling (`95e-2`, `10 + 1`, adjacent or
    concatenated string literals), a local, class or module constant under any name, also imported;
  * locals are found by what they are bound to (`instruction` = `<line>.split(c)[0]`, the key = `c.join(
    <instruction>.split(c)[:k])`, the entry name = `<data>[i + k].strip()`), parameters by position;
  * comparisons may be mirrored (`m <= floor(m) * c`), products commuted (`c * floor(m)`), the two latency
    tests swapped, the chained `a <= m <= b` written `a <= m and m <= b`, `1 / x` written `1.0 / x`;
  * `if c: ... break` + rest-of-body instead of `if/else`; an if/elif chain written as consecutive
    `if ...: return` guard clauses; a returned dict bound to a local first; `"r" in operand` instead of
    `True if "r" in operand else False`; `f"{operand}mm"` / `"%smm" % operand` instead of `operand + "mm"`.
Kept as written because it is observable: the ORDER of the decision chains and of the keys of the dict literals
(the dicts are dumped in insertion order).
Shapes are located structurally; an unexpected shape raises TranslateError (= failed generator).
No module of the analysed tree is imported or executed.
"""
import ast
import os
import sys

sys.path.insert(0, os.path.dirname(os.path.abspath(__file__)))
import astutil_G1 as U  # noqa: E402

# the plug-in and its helpers are inputs too: a change of either regenerates the file
SELF = ["../verif-self:tools/gen/importconsts.py", "../verif-self:tools/gen/astutil_G1.py"]

from translate import TranslateError, generator, txt, HEADER, rat  # noqa: E402

SRC = "osaca/db_interface.py"
MIRROR = {ast.Lt: ast.Gt, ast.Gt: ast.Lt, ast.LtE: ast.GtE, ast.GtE: ast.LtE, ast.Eq: ast.Eq, ast.NotEq: ast.NotEq}


# --------------------------------------------------------------------------- small AST helpers
def _is_name(n, ident=None):
    return isinstance(n, ast.Name) and (ident is None or n.id == ident)


_call_name = U.call_name


def _param(sc, k, what):
    a = sc.node.args
    names = [x.arg for x in list(a.posonlyargs) + list(a.args)]
    if k >= len(names):
        raise TranslateError("%s: parameter %d not found" % (what, k))
    return names[k]


def _nat(sc, n, what):
    v = sc.ev_int(n, what)
    if v < 0:
        raise TranslateError("%s: negative constant %d" % (what, v))
    return v


def _char(sc, n, what):
    v = sc.ev_str(n, what)
    if len(v) != 1:
        raise TranslateError("%s: separator %r is not one character" % (what, v))
    return v


def _eq_const(sc, test, name):
    """`name == <const>` / `<const> == name` -> const value; else None"""
    if isinstance(test, ast.Compare) and len(test.ops) == 1 and isinstance(test.ops[0], ast.Eq):
        l, r = test.left, test.comparators[0]
        if _is_name(r, name) and not _is_name(l, name):
            l, r = r, l
        if _is_name(l, name):
            ok, v = sc.try_ev(r)
            if ok:
                return v
    return None


def _product(sc, n, is_var, what):
    """`<var> * C` / `C * <var>` -> decimal text of C, where is_var(operand) recognises the variable part"""
    n = sc.deref(n)
    if not (isinstance(n, ast.BinOp) and isinstance(n.op, ast.Mult)):
        raise TranslateError("%s: expected a product at line %s" % (what, getattr(n, "lineno", "?")))
    l, r = n.left, n.right
    if is_var(sc.deref(r)) and not is_var(sc.deref(l)):
        l, r = r, l
    if not is_var(sc.deref(l)):
        raise TranslateError("%s: unexpected factor in the product at line %s" % (what, n.lineno))
    return U.dec_text(sc.ev_num(r, what))


def _m_compare(c, m):
    """single comparison with the name `m` on one side -> (other side, op type normalised to `other OP m`)"""
    if not (isinstance(c, ast.Compare) and len(c.ops) == 1 and type(c.ops[0]) in MIRROR):
        return None
    l, r, op = c.left, c.comparators[0], type(c.ops[0])
    if _is_name(l, m) and not _is_name(r, m):
        l, r, op = r, l, MIRROR[op]
    if not _is_name(r, m):
        return None
    return l, op


_disjuncts = U.disjuncts


# --------------------------------------------------------------------------- _validate_measurement
def _validate(mod):
    W = "_validate_measurement"
    sc = mod.fn(W)
    fn = sc.node
    M, MODE = _param(sc, 0, W), _param(sc, 1, W)
    branches = {}
    for node in ast.walk(fn):
        if isinstance(node, ast.If):
            v = _eq_const(sc, node.test, MODE)
            if v in ("lt", "tp"):
                if v in branches:
                    raise TranslateError("%s: two branches for mode %r" % (W, v))
                branches[v] = node
    if set(branches) != {"lt", "tp"}:
        raise TranslateError("%s: mode branches 'lt'/'tp' not found" % W)
    # ---- latency branch:  if floor(m) * A >= m or ceil(m) * B <= m: return float(round(m))
    lt = branches["lt"]
    inner = [n for n in lt.body if isinstance(n, ast.If)]
    if len(inner) != 1 or inner[0].orelse:
        raise TranslateError("%s: latency test is not `A or B`" % W)
    ds = _disjuncts(inner[0].test)
    if len(ds) != 2:
        raise TranslateError("%s: latency test is not `A or B`" % W)
    found = {}
    for c in ds:
        mc = _m_compare(c, M)
        if mc is None:
            raise TranslateError("%s: latency comparison shape" % W)
        prod, op = mc
        p = sc.deref(prod)
        fname = None
        if isinstance(p, ast.BinOp) and isinstance(p.op, ast.Mult):
            for side in (p.left, p.right):
                s = sc.deref(side)
                if _call_name(s) in ("floor", "ceil") and len(s.args) == 1 and _is_name(s.args[0], M):
                    fname = _call_name(s)
        if fname is None or fname in found:
            raise TranslateError("%s: latency comparison is not floor(m) * c / ceil(m) * c against m" % W)
        want = ast.GtE if fname == "floor" else ast.LtE
        if op is not want:
            raise TranslateError("%s: latency comparisons are not `>=` / `<=`" % W)
        found[fname] = _product(sc, p, lambda x, f=fname: _call_name(x) == f, W)
    lt_hi, lt_lo = found["floor"], found["ceil"]
    ret = [n for n in inner[0].body if isinstance(n, ast.Return)]
    rv = sc.deref(ret[0].value) if len(ret) == 1 and ret[0].value is not None else None
    rr = sc.deref(rv.args[0]) if rv is not None and _call_name(rv) == "float" and len(rv.args) == 1 else None
    if rr is None or _call_name(rr) != "round" or len(rr.args) != 1 or rr.keywords or not _is_name(rr.args[0], M):
        raise TranslateError("%s: latency result is not float(round(m))" % W)
    # ---- throughput branch
    tp = branches["tp"]
    fors = [n for n in tp.body if isinstance(n, ast.For) and any(isinstance(x, ast.Return) for x in ast.walk(n))]
    if len(fors) != 1 or not _is_name(fors[0].target):
        raise TranslateError("%s: for loop over reciprocals not found" % W)
    loop = fors[0]
    R = loop.target.id
    lc = U.comp_view(loop.iter, sc)
    if lc is None:
        raise TranslateError("%s: reciprocal list comprehension not found" % W)
    one = sc.try_ev(lc.elt.left) if isinstance(lc.elt, ast.BinOp) and isinstance(lc.elt.op, ast.Div) else (False, None)
    if not (one[0] and not isinstance(one[1], bool) and isinstance(one[1], (int, float)) and one[1] == 1
            and _is_name(lc.target) and _is_name(lc.elt.right, lc.target.id) and not lc.ifs):
        raise TranslateError("%s: reciprocals are not `1 / x for x in range(..)`" % W)
    rg = sc.deref(lc.iter)
    if _call_name(rg) != "range" or not isinstance(rg.func, ast.Name) or len(rg.args) != 2 or rg.keywords:
        raise TranslateError("%s: range(a, b) expected" % W)
    r_from, r_to = sc.ev_int(rg.args[0], W + ": range"), sc.ev_int(rg.args[1], W + ": range")
    if r_from < 1:
        raise TranslateError("%s: range starts below 1 (division by zero)" % W)
    ifs = [n for n in loop.body if isinstance(n, ast.If)]
    if len(ifs) != 1 or ifs[0].orelse:
        raise TranslateError("%s: throughput test is not `reci*a <= m <= reci*b`" % W)
    bounds = {}
    conj = U.atoms(ifs[0].test, True)
    for a, pol in conj:
        mc = _m_compare(a, M) if pol else None
        if mc is None or mc[1] not in (ast.LtE, ast.GtE):
            raise TranslateError("%s: throughput test is not `reci*a <= m <= reci*b`" % W)
        which = "lo" if mc[1] is ast.LtE else "hi"
        if which in bounds:
            raise TranslateError("%s: throughput test is not `reci*a <= m <= reci*b`" % W)
        bounds[which] = _product(sc, mc[0], lambda x: _is_name(x, R), W)
    if set(bounds) != {"lo", "hi"}:
        raise TranslateError("%s: throughput test is not `reci*a <= m <= reci*b`" % W)
    ret = [n for n in ifs[0].body if isinstance(n, ast.Return)]
    rv = sc.deref(ret[0].value) if len(ret) == 1 and ret[0].value is not None else None
    if rv is None or _call_name(rv) != "round" or not isinstance(rv.func, ast.Name) or not rv.args \
            or not _is_name(rv.args[0], R):
        raise TranslateError("%s: throughput result is not round(reci, d)" % W)
    if len(rv.args) == 2 and not rv.keywords:
        dn = rv.args[1]
    elif len(rv.args) == 1 and len(rv.keywords) == 1 and rv.keywords[0].arg == "ndigits":
        dn = rv.keywords[0].value
    else:
        raise TranslateError("%s: throughput result is not round(reci, d)" % W)
    digits = _nat(sc, dn, W + ": digits")
    return dict(lt_hi=lt_hi, lt_lo=lt_lo, tp_lo=bounds["lo"], tp_hi=bounds["hi"], r_from=r_from, r_to=r_to,
                digits=digits)


# --------------------------------------------------------------------------- measurement token
def _measurement(sc, call, is_line, what):
    """`_validate_measurement(float(<line>.split()[k]), mode)` -> (line expr, k, mode)"""
    if len(call.args) != 2 or call.keywords:
        raise TranslateError("%s: unexpected _validate_measurement call" % what)
    tok = sc.deref(call.args[0])
    sub = sc.deref(tok.args[0]) if _call_name(tok) == "float" and len(tok.args) == 1 else None
    sp = sc.deref(sub.value) if isinstance(sub, ast.Subscript) else None
    if not (sp is not None and _call_name(sp) == "split" and not sp.args and not sp.keywords
            and isinstance(sp.func, ast.Attribute)):
        raise TranslateError("%s: measurement is not float(line.split()[k])" % what)
    line = is_line(sp.func.value)
    if line is None:
        raise TranslateError("%s: measurement is not taken from the expected line" % what)
    return line, _nat(sc, sub.slice, what + ": token index"), sc.ev_str(call.args[1], what + ": mode")


# --------------------------------------------------------------------------- _get_ibench_output
def _ibench(mod):
    W = "_get_ibench_output"
    sc = mod.fn(W)
    fn = sc.node
    DATA = _param(sc, 0, W)
    loop = [n for n in fn.body if isinstance(n, ast.For)]
    if len(loop) != 1 or not _is_name(loop[0].iter, DATA) or not _is_name(loop[0].target):
        raise TranslateError("%s: loop not found" % W)
    body = loop[0].body
    LINE = loop[0].target.id

    # skip test: `"<text>" in line or len(line) == 0`
    skip = None
    if isinstance(body[0], ast.If) and len(body[0].body) == 1 and isinstance(body[0].body[0], ast.Continue) \
            and not body[0].orelse:
        for v in _disjuncts(body[0].test):
            if isinstance(v, ast.Compare) and len(v.ops) == 1 and isinstance(v.ops[0], ast.In) \
                    and _is_name(v.comparators[0], LINE):
                ok, s = sc.try_ev(v.left)
                if ok and isinstance(s, str):
                    if skip is not None:
                        raise TranslateError("%s: two skip texts" % W)
                    skip = s
    if not isinstance(skip, str):
        raise TranslateError("%s: skip test not found" % W)

    # instruction = line.split(":")[0]
    def split_field(n, is_recv):
        """`<recv>.split(c)[k]` -> (c node, k node)"""
        n = sc.deref(n)
        if isinstance(n, ast.Subscript) and not isinstance(n.slice, ast.Slice):
            sp = sc.deref(n.value)
            if _call_name(sp) == "split" and isinstance(sp.func, ast.Attribute) and len(sp.args) == 1 \
                    and not sp.keywords and is_recv(sp.func.value):
                return sp.args[0], n.slice
        return None

    instr = []
    for st in body:
        if isinstance(st, ast.Assign) and len(st.targets) == 1 and _is_name(st.targets[0]):
            f = split_field(st.value, lambda r: _is_name(r, LINE))
            if f is not None:
                instr.append((st.targets[0].id, f))
    if len(instr) != 1:
        raise TranslateError("%s: instruction/key computation not found" % W)
    INSTR, (cn, kn) = instr[0]
    if _nat(sc, kn, W) != 0:
        raise TranslateError("%s: the instruction is not field 0 of the line" % W)
    colon = _char(sc, cn, W)
    if sc.bind.get(INSTR) is None or len(sc.bind[INSTR]) != 1:
        raise TranslateError("%s: %s is bound more than once" % (W, INSTR))

    def is_instr(n):
        return _is_name(n, INSTR)

    # key = "-".join(instruction.split("-")[:2])
    keys = []
    for st in body:
        if isinstance(st, ast.Assign) and len(st.targets) == 1 and _is_name(st.targets[0]):
            v = sc.deref(st.value)
            if _call_name(v) == "join" and isinstance(v.func, ast.Attribute) and len(v.args) == 1:
                a = sc.deref(v.args[0])
                sp = sc.deref(a.value) if isinstance(a, ast.Subscript) and isinstance(a.slice, ast.Slice) else None
                if sp is not None and _call_name(sp) == "split" and isinstance(sp.func, ast.Attribute) \
                        and len(sp.args) == 1 and is_instr(sp.func.value):
                    sl = a.slice
                    lo_ok = sl.lower is None or (sc.try_ev(sl.lower) in ((True, 0), (True, None)))
                    st_ok = sl.step is None or (sc.try_ev(sl.step) in ((True, 1), (True, None)))
                    if not (lo_ok and st_ok and sl.upper is not None):
                        raise TranslateError("%s: key is not the first k fields" % W)
                    dash = _char(sc, v.func.value, W)
                    if _char(sc, sp.args[0], W) != dash:
                        raise TranslateError("%s: key split/join separators differ" % W)
                    keys.append((dash, _nat(sc, sl.upper, W)))
    if len(keys) != 1:
        raise TranslateError("%s: instruction/key computation not found" % W)
    dash, nkey = keys[0]

    # operand separator: instruction.split("-")[1].split("_")
    under = None
    for n in ast.walk(fn):
        if _call_name(n) == "split" and n.args and isinstance(n.func, ast.Attribute):
            f = split_field(n.func.value, is_instr)
            if f is not None:
                if _nat(sc, f[1], W) != 1:
                    raise TranslateError("%s: operands are not field 1" % W)
                if _char(sc, f[0], W) != dash:
                    raise TranslateError("%s: operands are split off with another separator than the key" % W)
                u = _char(sc, n.args[0], W)
                if under is not None and u != under:
                    raise TranslateError("%s: two operand separators" % W)
                under = u
    if under is None:
        raise TranslateError("%s: operand separator not found" % W)

    # dispatch: if <tp test>: ... elif <lt test>: ...
    def dispatch_test(test):
        """`"TP" in instruction`  -> (tag, suffix=False, rstrip=False)
           `instruction[.rstrip()].endswith("-TP")` -> (tag, True, rstrip)"""
        if isinstance(test, ast.Compare) and len(test.ops) == 1 and isinstance(test.ops[0], ast.In) \
                and is_instr(test.comparators[0]):
            ok, s = sc.try_ev(test.left)
            if ok and isinstance(s, str):
                return s, False, False
        if _call_name(test) == "endswith" and isinstance(test.func, ast.Attribute) and len(test.args) == 1 \
                and not test.keywords:
            ok, s = sc.try_ev(test.args[0])
            if ok and isinstance(s, str):
                recv = sc.deref(test.func.value) if not is_instr(test.func.value) else test.func.value
                if is_instr(recv):
                    return s, True, False
                if _call_name(recv) == "rstrip" and not recv.args and not recv.keywords \
                        and isinstance(recv.func, ast.Attribute) and is_instr(recv.func.value):
                    return s, True, True
        return None

    def assigned(block):
        for s in block:
            if isinstance(s, ast.Assign) and len(s.targets) == 1 and isinstance(s.targets[0], ast.Attribute):
                v = sc.deref(s.value)
                if _call_name(v) == "_validate_measurement":
                    _, tok, mode = _measurement(sc, v, lambda r: True if _is_name(r, LINE) else None, W)
                    return s.targets[0].attr, mode, tok
        raise TranslateError("%s: no assignment in dispatch branch" % W)

    disp = None
    for i, st in enumerate(body):
        if not isinstance(st, ast.If):
            continue
        a = dispatch_test(st.test)
        if a is None:
            continue
        # second test: `elif`, or the next statement if the branches cannot both fire ... only elif is equivalent
        if not (len(st.orelse) == 1 and isinstance(st.orelse[0], ast.If)):
            raise TranslateError("%s: TP/LT dispatch is not an if/elif pair" % W)
        b = dispatch_test(st.orelse[0].test)
        if b is None:
            raise TranslateError("%s: unknown TP/LT dispatch test at line %d" % (W, st.orelse[0].lineno))
        a_attr, a_mode, a_tok = assigned(st.body)
        b_attr, b_mode, b_tok = assigned(st.orelse[0].body)
        if (a_attr, a_mode) == ("latency", "lt") and (b_attr, b_mode) == ("throughput", "tp"):
            # the two tests are exclusive only if neither tag can match where the other does; keep source order
            raise TranslateError("%s: dispatch branches are in the order LT, TP" % W)
        if (a_attr, a_mode, b_attr, b_mode) != ("throughput", "tp", "latency", "lt") or a_tok != b_tok:
            raise TranslateError("%s: dispatch branches do not set throughput/tp then latency/lt" % W)
        if st.orelse[0].orelse:
            raise TranslateError("%s: unexpected else branch in dispatch" % W)
        if a[1:] != b[1:]:
            raise TranslateError("%s: TP and LT tests have different shapes" % W)
        if disp is not None:
            raise TranslateError("%s: two TP/LT dispatches" % W)
        disp = dict(tp_tag=a[0], lt_tag=b[0], suffix=a[1], rstrip=a[2], tok=a_tok)
    if disp is None:
        raise TranslateError("%s: TP/LT dispatch not found" % W)
    disp.update(skip=skip, colon=colon, dash=dash, under=under, nkey=nkey)
    return disp


# --------------------------------------------------------------------------- _get_asmbench_output
def _asmbench(mod):
    W = "_get_asmbench_output"
    sc = mod.fn(W)
    fn = sc.node
    DATA = _param(sc, 0, W)
    loop = [n for n in fn.body if isinstance(n, ast.For)]
    it = sc.deref(loop[0].iter) if len(loop) == 1 else None
    if it is None or _call_name(it) != "range" or not isinstance(it.func, ast.Name) or len(it.args) != 3 \
            or it.keywords or not _is_name(loop[0].target):
        raise TranslateError("%s: for i in range(0, len, step) not found" % W)
    I = loop[0].target.id
    if sc.ev_int(it.args[0], W) != 0:
        raise TranslateError("%s: range does not start at 0" % W)
    stop = sc.deref(it.args[1])
    if not (_call_name(stop) == "len" and len(stop.args) == 1 and _is_name(stop.args[0], DATA)):
        raise TranslateError("%s: range does not end at len(input_data)" % W)
    step = sc.ev_int(it.args[2], W + ": step")
    if step < 1:
        raise TranslateError("%s: step %d" % (W, step))
    dec = U.split_if_else(loop[0].body)
    if dec is None:
        raise TranslateError("%s: malformed-block test not found" % W)
    test, then, other = dec
    pol = True
    if any(isinstance(s, ast.Break) for s in other) and not any(isinstance(s, ast.Break) for s in then):
        then, other, pol = other, then, False       # `if not malformed: <entry> else: <complain>; break`
    if not any(isinstance(s, ast.Break) for s in then) or any(isinstance(s, ast.Break) for s in other):
        raise TranslateError("%s: malformed-block test not found" % W)

    def index_off(s):
        """i + k -> k ; k + i -> k ; i -> 0"""
        s = sc.deref(s)
        if _is_name(s, I):
            return 0
        if isinstance(s, ast.BinOp) and isinstance(s.op, ast.Add):
            l, r = s.left, s.right
            if _is_name(r, I) and not _is_name(l, I):
                l, r = r, l
            if _is_name(l, I):
                return _nat(sc, r, W + ": line offset")
        return None

    def offset(sub):
        """input_data[i + k] -> k ; input_data[i] -> 0"""
        sub = sc.deref(sub)
        if not (isinstance(sub, ast.Subscript) and _is_name(sub.value, DATA)) or isinstance(sub.slice, ast.Slice):
            return None
        return index_off(sub.slice)

    def blank_test(t):
        # input_data[i + k].strip() != ""
        at = U.atoms(t, True)
        if len(at) != 1:
            return None
        a, pol = at[0]
        if isinstance(a, ast.Compare) and len(a.ops) == 1 and isinstance(a.ops[0], ast.Eq) and pol is False:
            l, r = a.left, a.comparators[0]
            if _call_name(sc.deref(r)) == "strip":
                l, r = r, l
            l = sc.deref(l)
            if _call_name(l) == "strip" and isinstance(l.func, ast.Attribute) and not l.args \
                    and sc.try_ev(r) == (True, ""):
                return offset(l.func.value)
        return None

    guard, blank = False, None
    ds = _disjuncts(test, pol)
    if len(ds) == 2:
        g, t2 = ds
        blank = blank_test(t2)
        # i + k >= len(input_data)   (the guard must come first: it protects the subscript)
        ok = False
        if isinstance(g, ast.Compare) and len(g.ops) == 1 and type(g.ops[0]) in MIRROR and blank is not None:
            l, r, op = g.left, g.comparators[0], type(g.ops[0])
            if _call_name(sc.deref(l)) == "len":
                l, r, op = r, l, MIRROR[op]
            rr = sc.deref(r)
            if op is ast.GtE and _call_name(rr) == "len" and len(rr.args) == 1 and _is_name(rr.args[0], DATA) \
                    and index_off(l) == blank:
                ok = True
        if not ok:
            raise TranslateError("%s: unknown guard in the malformed-block test" % W)
        guard = True
    elif len(ds) == 1:
        blank = blank_test(ds[0])
    if blank is None:
        raise TranslateError("%s: blank-line test not found" % W)
    offs = {}
    names = []
    for n in ast.walk(ast.Module(body=list(other), type_ignores=[])):
        if isinstance(n, ast.keyword) and n.arg in ("throughput", "latency"):
            v = sc.deref(n.value)
            if _call_name(v) != "_validate_measurement":
                continue
            o, tok, mode = _measurement(sc, v, offset, W)
            if mode != {"throughput": "tp", "latency": "lt"}[n.arg]:
                raise TranslateError("%s: measurement line / mode not recognised" % W)
            if n.arg in offs:
                raise TranslateError("%s: %s given twice" % (W, n.arg))
            offs[n.arg] = (o, tok)
        if isinstance(n, ast.Assign) and len(n.targets) == 1 and _is_name(n.targets[0]):
            v = n.value
            if _call_name(v) == "strip" and isinstance(v.func, ast.Attribute) and not v.args:
                o = offset(v.func.value)
                if o is not None:
                    names.append(o)
    if set(offs) != {"throughput", "latency"} or len(names) != 1:
        raise TranslateError("%s: entry construction not found" % W)
    if offs["throughput"][1] != offs["latency"][1]:
        raise TranslateError("%s: token indices differ" % W)
    return dict(step=step, blank=blank, guard=guard, name=names[0], lat=offs["latency"][0],
                tp=offs["throughput"][0], tok=offs["latency"][1])


# --------------------------------------------------------------------------- operand decoders
def _lit(v):
    if v is None:
        return "(.lit .none)"
    if isinstance(v, bool):
        return "(.lit (.b %s))" % ("true" if v else "false")
    if isinstance(v, int):
        if v < 0:
            raise TranslateError("negative literal")
        return "(.lit (.n %d))" % v
    if isinstance(v, str):
        return "(.lit (.s %s))" % txt(v)
    raise TranslateError("unsupported literal %r" % (v,))


def _has_test(sc, t, P):
    """`"c" in operand` -> ("c", True);  `"c" not in operand` -> ("c", False)"""
    at = U.atoms(t, True)
    if len(at) == 1:
        a, pol = at[0]
        if isinstance(a, ast.Compare) and len(a.ops) == 1 and isinstance(a.ops[0], ast.In) and _is_name(a.comparators[0], P):
            ok, s = sc.try_ev(a.left)
            if ok and isinstance(s, str):
                return s, pol
    return None


def _const_slice(sc, n, P):
    """`operand[a:b]` with constant natural bounds -> (a, b), else None"""
    if isinstance(n, ast.Subscript) and isinstance(n.slice, ast.Slice) and _is_name(n.value, P) \
            and n.slice.lower is not None and n.slice.upper is not None \
            and (n.slice.step is None or sc.try_ev(n.slice.step) in ((True, 1), (True, None))):
        return _nat(sc, n.slice.lower, "slice"), _nat(sc, n.slice.upper, "slice")
    return None


def _val(sc, n, P):
    """Lean term (constructor of Import.VExpr) for a dict value expression."""
    ok, v = sc.try_ev(n)
    if ok:
        return _lit(v)
    n = sc.deref(n)
    if _is_name(n, P):
        return ".operand"
    if isinstance(n, ast.IfExp):
        h = _has_test(sc, n.test, P)
        if h is not None:
            a, b = (n.body, n.orelse) if h[1] else (n.orelse, n.body)
            return "(.ifHas %s %s %s)" % (txt(h[0]), _val(sc, a, P), _val(sc, b, P))
        # operand[a:b] if operand[a:b] != "" else "d"
        at = U.atoms(n.test, True)
        if len(at) == 1 and isinstance(at[0][0], ast.Compare) and isinstance(at[0][0].ops[0], ast.Eq):
            c, pol = at[0]
            l, r = c.left, c.comparators[0]
            if isinstance(sc.deref(r), ast.Subscript):
                l, r = r, l
            l = sc.deref(l)
            yes, no = (n.body, n.orelse) if pol else (n.orelse, n.body)     # `yes`: the slice is ""
            sl = _const_slice(sc, l, P)
            if sl is not None and sc.try_ev(r) == (True, "") and _const_slice(sc, sc.deref(no), P) == sl:
                return "(.sliceOr %d %d %s)" % (sl[0], sl[1], txt(sc.ev_str(yes, "slice default")))
    h = _has_test(sc, n, P)
    if h is not None:        # the bare test is the bool `True if c in operand else False`
        return "(.ifHas %s %s %s)" % (txt(h[0]), _lit(h[1]), _lit(not h[1]))
    try:
        parts = U.template_parts(n, sc)
    except U.NotConst:
        parts = None
    if parts and len(parts) == 2 and parts[0][0] == "expr" and _is_name(parts[0][1], P) and parts[1][0] == "lit":
        return "(.operandPlus %s)" % txt(parts[1][1])
    raise TranslateError("operand decoder: unsupported value expression at line %s" % getattr(n, "lineno", "?"))


def _test(sc, t, P):
    if isinstance(t, ast.Compare) and len(t.ops) == 1:
        l, r, op = t.left, t.comparators[0], t.ops[0]
        if isinstance(op, ast.Eq) and _is_name(r, P) and not _is_name(l, P):
            l, r = r, l
        if _is_name(l, P):
            ok, s = sc.try_ev(r)
            if ok and isinstance(s, str):
                if isinstance(op, ast.Eq):
                    return "(.eq %s)" % txt(s)
                if isinstance(op, ast.In):
                    return "(.inStr %s)" % txt(s)
    if _call_name(t) == "startswith" and isinstance(t.func, ast.Attribute) and _is_name(t.func.value, P) \
            and len(t.args) == 1 and not t.keywords:
        return "(.starts %s)" % txt(sc.ev_str(t.args[0], "startswith"))
    raise TranslateError("operand decoder: unsupported test at line %s" % getattr(t, "lineno", "?"))


def _decoder(mod, name):
    sc = mod.fn(name)
    fn = sc.node
    P = _param(sc, 0, name)
    stmts = [s for s in fn.body if not (isinstance(s, ast.Expr) and isinstance(s.value, ast.Constant))]
    rules = []
    while True:
        # hoisted dicts (`d = {...}` bound once, returned in a branch) are plain assignments: skip them here
        while stmts and isinstance(stmts[0], ast.Assign) and len(stmts[0].targets) == 1 \
                and _is_name(stmts[0].targets[0]) and isinstance(stmts[0].value, ast.Dict):
            stmts = stmts[1:]
        if not stmts:
            raise TranslateError("%s: chain does not end in `else: raise`" % name)
        node = stmts[0]
        if isinstance(node, ast.Raise):
            if len(stmts) != 1:
                raise TranslateError("%s: statements after the final raise" % name)
            break
        if not isinstance(node, ast.If):
            raise TranslateError("%s: body is not one if/elif chain" % name)
        t, pol = U.strip_not(node.test)
        if not pol:                  # `if not c: <rest> else: return {...}`
            if not node.orelse:
                raise TranslateError("%s: negated test without else (line %d)" % (name, node.lineno))
            node = ast.copy_location(ast.If(test=t, body=node.orelse, orelse=node.body), node)
        d = sc.deref(node.body[0].value) if len(node.body) == 1 and isinstance(node.body[0], ast.Return) \
            and node.body[0].value is not None else None
        if not isinstance(d, ast.Dict):
            raise TranslateError("%s: branch does not return a dict literal (line %d)" % (name, node.lineno))
        fields = []
        seen = set()
        for k, v in zip(d.keys, d.values):
            if k is None:
                raise TranslateError("%s: ** in a dict literal (line %d)" % (name, node.lineno))
            key = sc.ev_str(k, name + ": dict key")
            if key in seen:
                raise TranslateError("%s: duplicate key %r" % (name, key))
            seen.add(key)
            fields.append("(%s, %s)" % (txt(key), _val(sc, v, P)))
        rules.append("  (%s, [%s])" % (_test(sc, node.test, P), ", ".join(fields)))
        if node.orelse:
            if len(stmts) != 1:
                raise TranslateError("%s: statements after the if/elif chain" % name)
            stmts = node.orelse
        else:
            stmts = stmts[1:]      # the branch returned: what follows is the else part
    return rules


def _isa_dispatch(mod):
    sc = mod.fn("_create_db_operand")
    ISA = _param(sc, 1, "_create_db_operand")
    out = {}
    for n in ast.walk(sc.node):
        if isinstance(n, ast.If):
            v = _eq_const(sc, n.test, ISA)
            if v is not None and isinstance(n.body[0], ast.Return):
                out[v] = _call_name(sc.deref(n.body[0].value))
    if out != {"aarch64": "_create_db_operand_aarch64", "x86": "_create_db_operand_x86"}:
        raise TranslateError("_create_db_operand: isa dispatch changed: %r" % out)


@generator("ImportConsts", [SRC] + SELF)
def gen_importconsts():
    U.reset_cache()
    mod = U.mod_scope(SRC)
    v = _validate(mod)
    ib = _ibench(mod)
    ab = _asmbench(mod)
    _isa_dispatch(mod)
    x86 = _decoder(mod, "_create_db_operand_x86")
    a64 = _decoder(mod, "_create_db_operand_aarch64")
    o = [HEADER, "import OsacaVerif.Model.ImportTypes", "namespace OsacaVerif.Gen.Import", "open OsacaVerif.Import\n"]
    o.append("/-! `_validate_measurement` -/")
    o.append("/-- `math.floor(m) * %s >= m` -/\ndef ltHi : Rat := %s" % (v["lt_hi"], rat(v["lt_hi"])))
    o.append("/-- `math.ceil(m) * %s <= m` -/\ndef ltLo : Rat := %s" % (v["lt_lo"], rat(v["lt_lo"])))
    o.append("/-- `reci * %s <= m` -/\ndef tpLo : Rat := %s" % (v["tp_lo"], rat(v["tp_lo"])))
    o.append("/-- `m <= reci * %s` -/\ndef tpHi : Rat := %s" % (v["tp_hi"], rat(v["tp_hi"])))
    o.append("/-- `range(%d, %d)` -/\ndef reciFrom : Nat := %d\ndef reciTo : Nat := %d" % (v["r_from"], v["r_to"], v["r_from"], v["r_to"]))
    o.append("/-- `round(reci, %d)` -/\ndef roundDigits : Nat := %d\n" % (v["digits"], v["digits"]))
    o.append("/-! `_get_ibench_output` -/")
    o.append("def ibSkip : List Nat := %s  -- %r in line" % (txt(ib["skip"]), ib["skip"]))
    o.append("def ibColon : Nat := %d\ndef ibDash : Nat := %d\ndef ibUnder : Nat := %d" % (ord(ib["colon"]), ord(ib["dash"]), ord(ib["under"])))
    o.append("/-- `instruction.split(dash)[:k]` -/\ndef ibKeyFields : Nat := %d" % ib["nkey"])
    o.append("def ibTpTag : List Nat := %s  -- %r\ndef ibLtTag : List Nat := %s  -- %r" % (txt(ib["tp_tag"]), ib["tp_tag"], txt(ib["lt_tag"]), ib["lt_tag"]))
    o.append("/-- dispatch by `endswith` (true) or by substring `in` (false) -/\ndef ibDispatchSuffix : Bool := %s" % ("true" if ib["suffix"] else "false"))
    o.append("def ibDispatchRstrip : Bool := %s" % ("true" if ib["rstrip"] else "false"))
    o.append("/-- `float(line.split()[k])` -/\ndef ibTok : Nat := %d\n" % ib["tok"])
    o.append("/-! `_get_asmbench_output` -/")
    o.append("def abStep : Nat := %d\ndef abBlank : Nat := %d\ndef abName : Nat := %d\ndef abLat : Nat := %d\ndef abTp : Nat := %d\ndef abTok : Nat := %d"
             % (ab["step"], ab["blank"], ab["name"], ab["lat"], ab["tp"], ab["tok"]))
    o.append("/-- `i + k >= len(input_data) or ...` present in the malformed-block test -/\ndef abGuard : Bool := %s\n" % ("true" if ab["guard"] else "false"))
    o.append("/-! operand decoders: the if/elif chains as data -/")
    o.append("def x86Rules : List Rule := [\n%s\n]\n" % ",\n".join(x86))
    o.append("def a64Rules : List Rule := [\n%s\n]\n" % ",\n".join(a64))
    o.append("end OsacaVerif.Gen.Import\n")
    return "\n".join(o)
