"""Gen/ImportConsts.lean: every literal of the benchmark importer (C20).

From osaca/db_interface.py:
  _validate_measurement   1.05 / 0.95 of the latency branch, 0.95 / 1.05 of the throughput branch,
                          range(1, 11), round(reci, 5)
  _get_ibench_output      "Using frequency", the TP/LT dispatch (tag strings, suffix-vs-substring test,
                          rstrip), the key slice [:2], separators, token index of the measurement
  _get_asmbench_output    block length 4, line offsets of blank / latency / throughput line, presence of
                          the length guard, token index of the measurement
  _create_db_operand_*    the complete if/elif decision tables (tests and dict literals) as data
Shapes are located structurally; an unexpected shape raises TranslateError (= broken tie).
"""
import ast

from translate import TranslateError, generator, parse, find_func, txt, HEADER, rat

SRC = "osaca/db_interface.py"


# --------------------------------------------------------------------------- small AST helpers
def _is_name(n, ident=None):
    return isinstance(n, ast.Name) and (ident is None or n.id == ident)


def _const(n, typ):
    if isinstance(n, ast.Constant) and isinstance(n.value, typ) and not (typ is int and isinstance(n.value, bool)):
        return n.value
    raise TranslateError("expected %s literal at line %s" % (typ.__name__, getattr(n, "lineno", "?")))


def _float_text(n):
    """decimal text of a float/int literal (so that 1.05 is 21/20, as written in the source)"""
    if isinstance(n, ast.Constant) and isinstance(n.value, (int, float)) and not isinstance(n.value, bool):
        return repr(n.value)
    raise TranslateError("expected numeric literal at line %s" % getattr(n, "lineno", "?"))


def _call_name(n):
    if isinstance(n, ast.Call):
        f = n.func
        if isinstance(f, ast.Attribute):
            return f.attr
        if isinstance(f, ast.Name):
            return f.id
    return None


def _mul_const(n, fname):
    """`math.<fname>(x) * C` or `<name> * C` -> C (decimal text)"""
    if not (isinstance(n, ast.BinOp) and isinstance(n.op, ast.Mult)):
        raise TranslateError("expected a product at line %s" % getattr(n, "lineno", "?"))
    l, r = n.left, n.right
    if fname is not None:
        if _call_name(l) != fname:
            raise TranslateError("expected %s(...) * const at line %s" % (fname, n.lineno))
    elif not _is_name(l):
        raise TranslateError("expected name * const at line %s" % n.lineno)
    return _float_text(r)


# --------------------------------------------------------------------------- _validate_measurement
def _validate(tree):
    fn = find_func(tree, "_validate_measurement")
    branches = {}
    for node in ast.walk(fn):
        if isinstance(node, ast.If) and isinstance(node.test, ast.Compare) and len(node.test.ops) == 1 \
                and isinstance(node.test.ops[0], ast.Eq) and isinstance(node.test.comparators[0], ast.Constant) \
                and node.test.comparators[0].value in ("lt", "tp"):
            branches[node.test.comparators[0].value] = node
    if set(branches) != {"lt", "tp"}:
        raise TranslateError("_validate_measurement: mode branches 'lt'/'tp' not found")
    # ---- latency branch:  if floor(m) * A >= m or ceil(m) * B <= m: return float(round(m))
    lt = branches["lt"]
    inner = [n for n in lt.body if isinstance(n, ast.If)]
    if len(inner) != 1 or not isinstance(inner[0].test, ast.BoolOp) or not isinstance(inner[0].test.op, ast.Or) \
            or len(inner[0].test.values) != 2:
        raise TranslateError("_validate_measurement: latency test is not `A or B`")
    c1, c2 = inner[0].test.values
    for c in (c1, c2):
        if not (isinstance(c, ast.Compare) and len(c.ops) == 1 and _is_name(c.comparators[0])):
            raise TranslateError("_validate_measurement: latency comparison shape")
    if not isinstance(c1.ops[0], ast.GtE) or not isinstance(c2.ops[0], ast.LtE):
        raise TranslateError("_validate_measurement: latency comparisons are not `>=` / `<=`")
    lt_hi = _mul_const(c1.left, "floor")
    lt_lo = _mul_const(c2.left, "ceil")
    ret = [n for n in inner[0].body if isinstance(n, ast.Return)]
    if len(ret) != 1 or _call_name(ret[0].value) != "float" or _call_name(ret[0].value.args[0]) != "round" \
            or len(ret[0].value.args[0].args) != 1:
        raise TranslateError("_validate_measurement: latency result is not float(round(m))")
    # ---- throughput branch
    tp = branches["tp"]
    comp = [n for n in ast.walk(tp) if isinstance(n, ast.ListComp)]
    if len(comp) != 1:
        raise TranslateError("_validate_measurement: reciprocal list comprehension not found")
    lc = comp[0]
    if not (isinstance(lc.elt, ast.BinOp) and isinstance(lc.elt.op, ast.Div) and _const(lc.elt.left, int) == 1
            and _is_name(lc.elt.right) and len(lc.generators) == 1 and not lc.generators[0].ifs):
        raise TranslateError("_validate_measurement: reciprocals are not `1 / x for x in range(..)`")
    rg = lc.generators[0].iter
    if _call_name(rg) != "range" or len(rg.args) != 2:
        raise TranslateError("_validate_measurement: range(a, b) expected")
    r_from, r_to = _const(rg.args[0], int), _const(rg.args[1], int)
    if r_from < 1:
        raise TranslateError("_validate_measurement: range starts below 1 (division by zero)")
    fors = [n for n in tp.body if isinstance(n, ast.For)]
    if len(fors) != 1:
        raise TranslateError("_validate_measurement: for loop over reciprocals not found")
    ifs = [n for n in fors[0].body if isinstance(n, ast.If)]
    if len(ifs) != 1 or not isinstance(ifs[0].test, ast.Compare) or len(ifs[0].test.ops) != 2 \
            or not all(isinstance(o, ast.LtE) for o in ifs[0].test.ops) or not _is_name(ifs[0].test.comparators[0]):
        raise TranslateError("_validate_measurement: throughput test is not `reci*a <= m <= reci*b`")
    tp_lo = _mul_const(ifs[0].test.left, None)
    tp_hi = _mul_const(ifs[0].test.comparators[1], None)
    ret = [n for n in ifs[0].body if isinstance(n, ast.Return)]
    if len(ret) != 1 or _call_name(ret[0].value) != "round" or len(ret[0].value.args) != 2:
        raise TranslateError("_validate_measurement: throughput result is not round(reci, d)")
    if not (_is_name(ret[0].value.args[0]) and _is_name(fors[0].target, ret[0].value.args[0].id)
            and _is_name(ifs[0].test.left.left, fors[0].target.id) and _is_name(ifs[0].test.comparators[1].left, fors[0].target.id)
            and (fors[0].iter is lc or (_is_name(fors[0].iter) and any(
                isinstance(s, ast.Assign) and _is_name(s.targets[0], fors[0].iter.id) and s.value is lc for s in tp.body)))):
        raise TranslateError("_validate_measurement: the loop variable is not what is tested and rounded")
    digits = _const(ret[0].value.args[1], int)
    return dict(lt_hi=lt_hi, lt_lo=lt_lo, tp_lo=tp_lo, tp_hi=tp_hi, r_from=r_from, r_to=r_to, digits=digits)


# --------------------------------------------------------------------------- _get_ibench_output
def _dispatch_test(test):
    """`"TP" in instruction`  -> (tag, suffix=False, rstrip=False)
       `instruction[.rstrip()].endswith("-TP")` -> (tag, True, rstrip)"""
    if isinstance(test, ast.Compare) and len(test.ops) == 1 and isinstance(test.ops[0], ast.In) \
            and isinstance(test.left, ast.Constant) and isinstance(test.left.value, str) \
            and _is_name(test.comparators[0], "instruction"):
        return test.left.value, False, False
    if _call_name(test) == "endswith" and len(test.args) == 1 and isinstance(test.args[0], ast.Constant) \
            and isinstance(test.args[0].value, str):
        recv = test.func.value
        if _is_name(recv, "instruction"):
            return test.args[0].value, True, False
        if _call_name(recv) == "rstrip" and not recv.args and _is_name(recv.func.value, "instruction"):
            return test.args[0].value, True, True
    raise TranslateError("_get_ibench_output: unknown TP/LT dispatch test at line %s" % getattr(test, "lineno", "?"))


def _ibench(tree):
    fn = find_func(tree, "_get_ibench_output")
    loop = [n for n in fn.body if isinstance(n, ast.For)]
    if len(loop) != 1:
        raise TranslateError("_get_ibench_output: loop not found")
    body = loop[0].body
    # skip test: `"<text>" in line or len(line) == 0`
    skip = None
    if isinstance(body[0], ast.If) and isinstance(body[0].test, ast.BoolOp) and isinstance(body[0].test.op, ast.Or):
        for v in body[0].test.values:
            if isinstance(v, ast.Compare) and isinstance(v.ops[0], ast.In) and isinstance(v.left, ast.Constant):
                skip = v.left.value
        if not (len(body[0].body) == 1 and isinstance(body[0].body[0], ast.Continue)):
            skip = None
    if not isinstance(skip, str):
        raise TranslateError("_get_ibench_output: skip test not found")
    # instruction = line.split(":")[0];  key = "-".join(instruction.split("-")[:2])
    colon = dash = nkey = None
    for st in body:
        if isinstance(st, ast.Assign) and _is_name(st.targets[0], "instruction"):
            v = st.value
            if isinstance(v, ast.Subscript) and _call_name(v.value) == "split" and _const(v.slice, int) == 0:
                colon = _const(v.value.args[0], str)
        if isinstance(st, ast.Assign) and _is_name(st.targets[0], "key"):
            v = st.value
            if _call_name(v) == "join" and isinstance(v.args[0], ast.Subscript) and isinstance(v.args[0].slice, ast.Slice):
                sl = v.args[0].slice
                if sl.lower is None and sl.step is None:
                    nkey = _const(sl.upper, int)
                dash = _const(v.func.value, str)
                if _const(v.args[0].value.args[0], str) != dash:
                    raise TranslateError("_get_ibench_output: key split/join separators differ")
    if colon is None or dash is None or nkey is None or len(colon) != 1 or len(dash) != 1:
        raise TranslateError("_get_ibench_output: instruction/key computation not found")
    # operand separator: instruction.split("-")[1].split("_")
    under = None
    for n in ast.walk(fn):
        if _call_name(n) == "split" and n.args and isinstance(n.func.value, ast.Subscript) \
                and _call_name(n.func.value.value) == "split":
            if _const(n.func.value.slice, int) != 1:
                raise TranslateError("_get_ibench_output: operands are not field 1")
            under = _const(n.args[0], str)
    if under is None or len(under) != 1:
        raise TranslateError("_get_ibench_output: operand separator not found")
    # dispatch: if <tp test>: ... elif <lt test>: ...
    disp = None
    for st in body:
        if isinstance(st, ast.If) and st.orelse and len(st.orelse) == 1 and isinstance(st.orelse[0], ast.If):
            try:
                a = _dispatch_test(st.test)
                b = _dispatch_test(st.orelse[0].test)
            except TranslateError:
                continue
            # which attribute is assigned, with which mode
            def assigned(block):
                for s in block:
                    if isinstance(s, ast.Assign) and isinstance(s.targets[0], ast.Attribute) \
                            and _call_name(s.value) == "_validate_measurement":
                        tok = s.value.args[0]
                        if not (_call_name(tok) == "float" and isinstance(tok.args[0], ast.Subscript)
                                and _call_name(tok.args[0].value) == "split" and not tok.args[0].value.args):
                            raise TranslateError("_get_ibench_output: measurement is not float(line.split()[k])")
                        return s.targets[0].attr, _const(s.value.args[1], str), _const(tok.args[0].slice, int)
                raise TranslateError("_get_ibench_output: no assignment in dispatch branch")
            a_attr, a_mode, a_tok = assigned(st.body)
            b_attr, b_mode, b_tok = assigned(st.orelse[0].body)
            if (a_attr, a_mode, b_attr, b_mode) != ("throughput", "tp", "latency", "lt") or a_tok != b_tok:
                raise TranslateError("_get_ibench_output: dispatch branches do not set throughput/tp then latency/lt")
            if st.orelse[0].orelse:
                raise TranslateError("_get_ibench_output: unexpected else branch in dispatch")
            if a[1:] != b[1:]:
                raise TranslateError("_get_ibench_output: TP and LT tests have different shapes")
            disp = dict(tp_tag=a[0], lt_tag=b[0], suffix=a[1], rstrip=a[2], tok=a_tok)
    if disp is None:
        raise TranslateError("_get_ibench_output: TP/LT dispatch not found")
    disp.update(skip=skip, colon=colon, dash=dash, under=under, nkey=nkey)
    return disp


# --------------------------------------------------------------------------- _get_asmbench_output
def _asmbench(tree):
    fn = find_func(tree, "_get_asmbench_output")
    loop = [n for n in fn.body if isinstance(n, ast.For)]
    if len(loop) != 1 or _call_name(loop[0].iter) != "range" or len(loop[0].iter.args) != 3:
        raise TranslateError("_get_asmbench_output: for i in range(0, len, step) not found")
    if _const(loop[0].iter.args[0], int) != 0:
        raise TranslateError("_get_asmbench_output: range does not start at 0")
    step = _const(loop[0].iter.args[2], int)
    iff = loop[0].body[0]
    if not isinstance(iff, ast.If) or not any(isinstance(s, ast.Break) for s in iff.body):
        raise TranslateError("_get_asmbench_output: malformed-block test not found")

    def offset(sub):
        """input_data[i + k] -> k ; input_data[i] -> 0"""
        if not (isinstance(sub, ast.Subscript) and _is_name(sub.value, "input_data")):
            return None
        s = sub.slice
        if _is_name(s, "i"):
            return 0
        if isinstance(s, ast.BinOp) and isinstance(s.op, ast.Add) and _is_name(s.left, "i"):
            return _const(s.right, int)
        return None

    def blank_test(t):
        # input_data[i + k].strip() != ""
        if isinstance(t, ast.Compare) and len(t.ops) == 1 and isinstance(t.ops[0], ast.NotEq) \
                and _call_name(t.left) == "strip" and _const(t.comparators[0], str) == "":
            return offset(t.left.func.value)
        return None

    guard, blank = False, None
    t = iff.test
    if isinstance(t, ast.BoolOp) and isinstance(t.op, ast.Or) and len(t.values) == 2:
        g, t2 = t.values
        blank = blank_test(t2)
        # i + k >= len(input_data)
        if isinstance(g, ast.Compare) and len(g.ops) == 1 and isinstance(g.ops[0], ast.GtE) \
                and isinstance(g.left, ast.BinOp) and isinstance(g.left.op, ast.Add) and _is_name(g.left.left, "i") \
                and _call_name(g.comparators[0]) == "len" and blank is not None \
                and _const(g.left.right, int) == blank:
            guard = True
        else:
            raise TranslateError("_get_asmbench_output: unknown guard in the malformed-block test")
    else:
        blank = blank_test(t)
    if blank is None:
        raise TranslateError("_get_asmbench_output: blank-line test not found")
    offs = {}
    name_off = None
    for n in ast.walk(ast.Module(body=iff.orelse, type_ignores=[])):
        if isinstance(n, ast.keyword) and n.arg in ("throughput", "latency") and _call_name(n.value) == "_validate_measurement":
            tok = n.value.args[0]
            if not (_call_name(tok) == "float" and isinstance(tok.args[0], ast.Subscript)
                    and _call_name(tok.args[0].value) == "split" and not tok.args[0].value.args):
                raise TranslateError("_get_asmbench_output: measurement is not float(line.split()[k])")
            o = offset(tok.args[0].value.func.value)
            mode = _const(n.value.args[1], str)
            if o is None or mode != {"throughput": "tp", "latency": "lt"}[n.arg]:
                raise TranslateError("_get_asmbench_output: measurement line / mode not recognised")
            offs[n.arg] = (o, _const(tok.args[0].slice, int))
        if isinstance(n, ast.Assign) and _is_name(n.targets[0], "i_form"):
            if _call_name(n.value) == "strip":
                name_off = offset(n.value.func.value)
    if set(offs) != {"throughput", "latency"} or name_off is None:
        raise TranslateError("_get_asmbench_output: entry construction not found")
    if offs["throughput"][1] != offs["latency"][1]:
        raise TranslateError("_get_asmbench_output: token indices differ")
    return dict(step=step, blank=blank, guard=guard, name=name_off, lat=offs["latency"][0],
                tp=offs["throughput"][0], tok=offs["latency"][1])


# --------------------------------------------------------------------------- operand decoders
def _val(n):
    """Lean term (constructor of Import.VExpr) for a dict value expression."""
    if isinstance(n, ast.Constant):
        v = n.value
        if v is None:
            return "(.lit .none)"
        if isinstance(v, bool):
            return "(.lit (.b %s))" % ("true" if v else "false")
        if isinstance(v, int):
            if v < 0:
                raise TranslateError("negative literal")
            return "(.lit (.n %d))" % v
        if isinstance(v, str):
            return "(.lit (.s %s))" % txt(v)
        raise TranslateError("unsupported literal %r" % (v,))
    if _is_name(n, "operand"):
        return ".operand"
    if isinstance(n, ast.BinOp) and isinstance(n.op, ast.Add) and _is_name(n.left, "operand") \
            and isinstance(n.right, ast.Constant) and isinstance(n.right.value, str):
        return "(.operandPlus %s)" % txt(n.right.value)
    if isinstance(n, ast.IfExp):
        t = n.test
        # "c" in operand
        if isinstance(t, ast.Compare) and len(t.ops) == 1 and isinstance(t.ops[0], ast.In) \
                and isinstance(t.left, ast.Constant) and isinstance(t.left.value, str) and _is_name(t.comparators[0], "operand"):
            return "(.ifHas %s %s %s)" % (txt(t.left.value), _val(n.body), _val(n.orelse))
        # operand[a:b] if operand[a:b] != "" else "d"
        if isinstance(t, ast.Compare) and len(t.ops) == 1 and isinstance(t.ops[0], ast.NotEq) \
                and isinstance(t.left, ast.Subscript) and _const(t.comparators[0], str) == "" \
                and ast.dump(t.left) == ast.dump(n.body) and isinstance(n.orelse, ast.Constant):
            sl = t.left.slice
            if isinstance(sl, ast.Slice) and sl.step is None and _is_name(t.left.value, "operand"):
                return "(.sliceOr %d %d %s)" % (_const(sl.lower, int), _const(sl.upper, int), txt(_const(n.orelse, str)))
    raise TranslateError("operand decoder: unsupported value expression at line %s" % getattr(n, "lineno", "?"))


def _test(t):
    if isinstance(t, ast.Compare) and len(t.ops) == 1 and _is_name(t.left, "operand") \
            and isinstance(t.comparators[0], ast.Constant) and isinstance(t.comparators[0].value, str):
        if isinstance(t.ops[0], ast.Eq):
            return "(.eq %s)" % txt(t.comparators[0].value)
        if isinstance(t.ops[0], ast.In):
            return "(.inStr %s)" % txt(t.comparators[0].value)
    if _call_name(t) == "startswith" and _is_name(t.func.value, "operand") and len(t.args) == 1:
        return "(.starts %s)" % txt(_const(t.args[0], str))
    raise TranslateError("operand decoder: unsupported test at line %s" % getattr(t, "lineno", "?"))


def _decoder(tree, name):
    fn = find_func(tree, name)
    stmts = [s for s in fn.body if not (isinstance(s, ast.Expr) and isinstance(s.value, ast.Constant))]
    if len(stmts) != 1 or not isinstance(stmts[0], ast.If):
        raise TranslateError("%s: body is not one if/elif chain" % name)
    rules = []
    node = stmts[0]
    while True:
        if len(node.body) != 1 or not isinstance(node.body[0], ast.Return) or not isinstance(node.body[0].value, ast.Dict):
            raise TranslateError("%s: branch does not return a dict literal (line %d)" % (name, node.lineno))
        d = node.body[0].value
        fields = []
        for k, v in zip(d.keys, d.values):
            fields.append("(%s, %s)" % (txt(_const(k, str)), _val(v)))
        rules.append("  (%s, [%s])" % (_test(node.test), ", ".join(fields)))
        if len(node.orelse) == 1 and isinstance(node.orelse[0], ast.If):
            node = node.orelse[0]
            continue
        if len(node.orelse) == 1 and isinstance(node.orelse[0], ast.Raise):
            break
        raise TranslateError("%s: chain does not end in `else: raise`" % name)
    return rules


def _isa_dispatch(tree):
    fn = find_func(tree, "_create_db_operand")
    out = {}
    for n in ast.walk(fn):
        if isinstance(n, ast.If) and isinstance(n.test, ast.Compare) and _is_name(n.test.left, "isa") \
                and isinstance(n.test.ops[0], ast.Eq) and isinstance(n.body[0], ast.Return):
            out[_const(n.test.comparators[0], str)] = _call_name(n.body[0].value)
    if out != {"aarch64": "_create_db_operand_aarch64", "x86": "_create_db_operand_x86"}:
        raise TranslateError("_create_db_operand: isa dispatch changed: %r" % out)


@generator("ImportConsts", [SRC])
def gen_importconsts():
    tree = parse(SRC)
    v = _validate(tree)
    ib = _ibench(tree)
    ab = _asmbench(tree)
    _isa_dispatch(tree)
    x86 = _decoder(tree, "_create_db_operand_x86")
    a64 = _decoder(tree, "_create_db_operand_aarch64")
    o = [HEADER, "import OsacaVerif.Model.ImportTypes", "namespace OsacaVerif.Gen.Import", "open OsacaVerif.Import\n"]
    o.append("/-! `_validate_measurement` -/")
    o.append("/-- `math.floor(m) * %s >= m` -/\ndef ltHi : Rat := %s" % (v["lt_hi"], rat(v["lt_hi"])))
    o.append("/-- `math.ceil(m) * %s <= m` -/\ndef ltLo : Rat := %s" % (v["lt_lo"], rat(v["lt_lo"])))
    o.append("/-- `reci * %s <= m` -/\ndef tpLo : Rat := %s" % (v["tp_lo"], rat(v["tp_lo"])))
    o.append("/-- `m <= reci * %s` -/\ndef tpHi : Rat := %s" % (v["tp_hi"], rat(v["tp_hi"])))
    o.append("/-- `range(%d, %d)` -/\ndef reciFrom : Nat := %d\ndef reciTo : Nat := %d" % (v["r_from"], v["r_to"], v["r_from"], v["r_to"]))
    o.append("/-- `round(reci, %d)` -/\ndef roundDigits : Nat := %d\n" % (v["digits"], v["digits"]))
    o.append("/-! `_get_ibench_output` -/")
    o.append("def ibSkip : List Nat := %s  -- %r in line" % (txt(ib["skip"]), ib["skip"]))
    o.append("def ibColon : Nat := %d\ndef ibDash : Nat := %d\ndef ibUnder : Nat := %d" % (ord(ib["colon"]), ord(ib["dash"]), ord(ib["under"])))
    o.append("/-- `instruction.split(dash)[:k]` -/\ndef ibKeyFields : Nat := %d" % ib["nkey"])
    o.append("def ibTpTag : List Nat := %s  -- %r\ndef ibLtTag : List Nat := %s  -- %r" % (txt(ib["tp_tag"]), ib["tp_tag"], txt(ib["lt_tag"]), ib["lt_tag"]))
    o.append("/-- dispatch by `endswith` (true) or by substring `in` (false) -/\ndef ibDispatchSuffix : Bool := %s" % ("true" if ib["suffix"] else "false"))
    o.append("def ibDispatchRstrip : Bool := %s" % ("true" if ib["rstrip"] else "false"))
    o.append("/-- `float(line.split()[k])` -/\ndef ibTok : Nat := %d\n" % ib["tok"])
    o.append("/-! `_get_asmbench_output` -/")
    o.append("def abStep : Nat := %d\ndef abBlank : Nat := %d\ndef abName : Nat := %d\ndef abLat : Nat := %d\ndef abTp : Nat := %d\ndef abTok : Nat := %d"
             % (ab["step"], ab["blank"], ab["name"], ab["lat"], ab["tp"], ab["tok"]))
    o.append("/-- `i + k >= len(input_data) or ...` present in the malformed-block test -/\ndef abGuard : Bool := %s\n" % ("true" if ab["guard"] else "false"))
    o.append("/-! operand decoders: the if/elif chains as data -/")
    o.append("def x86Rules : List Rule := [\n%s\n]\n" % ",\n".join(x86))
    o.append("def a64Rules : List Rule := [\n%s\n]\n" % ",\n".join(a64))
    o.append("end OsacaVerif.Gen.Import\n")
    return "\n".join(o)
