"""Gen/WorkersConsts.lean: constants and expressions of the multi-process LCD search (C16, C19).

Everything is located by *role* inside `KernelDG.check_for_loopcarried_dep` (helpers: astutil_G1.py); local
variable names and the spelling of constants do not matter (parameter names `kernel`, `timeout` are API):

  * klen / num_cores: whatever is bound to `len(kernel)` / `cpu_count()` (or these calls written inline);
  * threshold: the `if` that compares klen with a constant integer expression (`self.X`, `KernelDG.X`, a
    module constant, `5 * 10`, ...), either operand order, the parallel part in the `if` or in the `else`
    branch (`if klen < T: sequential else: parallel` reads as `klen >= T`), `not` resolved;
  * slices: the list with one `kernel[start(tid):end(tid)]` per `tid in range(num_cores)`, read as a STREAM over
    tid (astutil_G5.Streams) whatever its spelling: `[kernel[s:e] for s, e in zip(A, B)]` with A, B built by
    comprehensions or append loops, one comprehension / generator over `range(num_cores)` with the bounds inline,
    an append loop with the bounds hoisted into locals, a list of `(start, end)` pairs, `enumerate(A)` with
    `B[i]`, `A[tid]` / `B[tid]`, `list(zip(..))`, `range(0, num_cores)`, a hoisted range;  a filter, a step, another
    range or a swapped bound changes or breaks the reading;
  * workload: the one hoisted arithmetic local that the two element expressions use; locals it is built from
    are inlined (`n = klen - 1; workload = int(n / num_cores) + 1`);
  * arithmetic is compiled to Lean `Nat` expressions: `int(a / b)` and `a // b` are Nat division (exact for the
    non-negative operands below 2^53 that occur), `a - b` truncated subtraction (exact whenever the Python
    value is non-negative -- the correspondence compares the slices handed to the workers with the model's
    for every run); the operands of the commutative `+`, `*`, `min`, `max` are put in one canonical order
    (compound, variable, literal; then by text), so `1 + x` and `x + 1` give the same text;
  * the poll loop: `while <now> - <start> <op> timeout` (or mirrored `timeout >= ...`; or `while True:` whose
    first statement is the guard `if <now> - <start> > timeout: <terminate>; break`), the constant of the one
    `sleep(...)`, body `if alive: sleep else: join...; break` or the guard form `if not alive: ...; break` +
    `sleep`, a `while ... else`, the constant compared with `timeout` that switches the timeout off, and
    where `self.timed_out = True` stands (directly in the loop's `else`, or under `if p.is_alive()` with the kill).

Insisted on: exactly one threshold test, one list of kernel slices indexed by `range(num_cores)`, one
hoisted workload, one `while`, one sleep, one timed_out flag; a shape outside these raises (= failed generator).
No module of the analysed tree is imported or executed.
"""
import ast
import os
import sys

sys.path.insert(0, os.path.dirname(os.path.abspath(__file__)))
import astutil_G1 as U  # noqa: E402
import astutil_G5 as G5  # noqa: E402

# the plug-in and its helpers are inputs too: a change of either regenerates the file
SELF = ["../verif-self:tools/gen/workers.py", "../verif-self:tools/gen/astutil_G1.py",
        "../verif-self:tools/gen/astutil_G5.py"]

from translate import TranslateError, generator, rat, HEADER  # noqa: E402

SRC = "osaca/semantics/kernel_dg.py"
CLS = "KernelDG"
FN = "check_for_loopcarried_dep"

LEAN_VAR = {"klen": "klen", "num_cores": "numCores", "workload": "workload", "tid": "tid"}
MIRROR = {ast.Lt: ast.Gt, ast.Gt: ast.Lt, ast.LtE: ast.GtE, ast.GtE: ast.LtE, ast.Eq: ast.Eq, ast.NotEq: ast.NotEq}
NEGATE = {ast.Lt: ast.GtE, ast.GtE: ast.Lt, ast.Gt: ast.LtE, ast.LtE: ast.Gt, ast.Eq: ast.NotEq, ast.NotEq: ast.Eq}


# --------------------------------------------------------------------------- roles
class Roles:
    def __init__(self, sc):
        self.sc = sc
        if not sc.is_param("kernel") or not sc.is_param("timeout"):
            raise TranslateError("%s: parameters `kernel` / `timeout` not found" % FN)

    def _plain_call(self, n, name, nargs):
        return (isinstance(n, ast.Call) and U.call_name(n) == name and len(n.args) == nargs and not n.keywords)

    def is_kernel(self, n):
        return isinstance(n, ast.Name) and n.id == "kernel"

    def is_klen(self, n):
        n = self.sc.deref(n)
        return self._plain_call(n, "len", 1) and isinstance(n.func, ast.Name) and self.is_kernel(n.args[0])

    def is_cores(self, n):
        n = self.sc.deref(n)
        return self._plain_call(n, "cpu_count", 0) and (
            isinstance(n.func, ast.Name) or (isinstance(n.func.value, ast.Name) and n.func.value.id == "multiprocessing"))

    def is_timeout(self, n):
        return isinstance(n, ast.Name) and n.id == "timeout"


# --------------------------------------------------------------------------- Nat expressions
COMM = ("+", "*", "min", "max")


def _rank(ir):
    return {"lit": 2, "var": 1}.get(ir[0], 0)


def lean(ir):
    k = ir[0]
    if k == "lit":
        return str(ir[1])
    if k == "var":
        return LEAN_VAR[ir[1]]
    if k == "bin":
        return "(%s %s %s)" % (lean(ir[2]), ir[1], lean(ir[3]))
    if k == "div":
        return "(%s / %s)" % (lean(ir[1]), lean(ir[2]))
    if k in ("min", "max"):
        return "(%s %s %s)" % (k, lean(ir[1]), lean(ir[2]))
    raise AssertionError(ir)


def _canon(op, a, b):
    if op in COMM:
        ka, kb = (_rank(a), lean(a)), (_rank(b), lean(b))
        if kb < ka:
            a, b = b, a
    return a, b


def py(ir):
    """the same expression as canonical Python text (for the doc comments)"""
    k = ir[0]
    if k == "lit":
        return ast.Constant(value=ir[1])
    if k == "var":
        return ast.Name(id=ir[1], ctx=ast.Load())
    if k == "bin":
        op = {"+": ast.Add, "-": ast.Sub, "*": ast.Mult, "%": ast.Mod}[ir[1]]()
        return ast.BinOp(left=py(ir[2]), op=op, right=py(ir[3]))
    if k == "div":
        return ast.Call(func=ast.Name(id="int", ctx=ast.Load()),
                        args=[ast.BinOp(left=py(ir[1]), op=ast.Div(), right=py(ir[2]))], keywords=[])
    if k in ("min", "max"):
        return ast.Call(func=ast.Name(id=k, ctx=ast.Load()), args=[py(ir[1]), py(ir[2])], keywords=[])
    raise AssertionError(ir)


def py_text(ir):
    return ast.unparse(ast.fix_missing_locations(ast.Expression(body=py(ir))))


class NatCompiler:
    """Python integer expression -> IR.  `hoisted` collects the local bindings that are referred to as a
    variable (mode 'var'); in mode 'inline' they are expanded in place."""

    def __init__(self, roles, loopvar=None, mode="var"):
        self.r, self.sc, self.loopvar, self.mode = roles, roles.sc, loopvar, mode
        self.hoisted = []

    def go(self, e, depth=0):
        if depth > 30:
            raise TranslateError("scheduling expression too deep")
        d = depth + 1
        if isinstance(e, ast.Name) and e.id == self.loopvar:
            return ("var", "tid")
        if self.r.is_klen(e):
            return ("var", "klen")
        if self.r.is_cores(e):
            return ("var", "num_cores")
        ok, v = self.sc.try_ev(e)
        if ok:
            if isinstance(v, bool) or not isinstance(v, int) or v < 0:
                raise TranslateError("scheduling expression: constant %r is not a natural number (line %s)"
                                     % (v, getattr(e, "lineno", "?")))
            return ("lit", v)
        if isinstance(e, ast.Name):
            r = self.sc.lookup(e.id)
            if r is None or not isinstance(r[0], ast.AST) or r[1] is not self.sc:
                raise TranslateError("scheduling expression uses unknown name %r (line %s)" % (e.id, getattr(e, "lineno", "?")))
            if self.mode == "inline":
                return self.go(r[0], d)
            if not any(h is r[0] for h in self.hoisted):
                self.hoisted.append(r[0])
            return ("var", "workload")
        if isinstance(e, ast.BinOp):
            ops = {ast.Add: "+", ast.Sub: "-", ast.Mult: "*", ast.Mod: "%"}
            if isinstance(e.op, ast.FloorDiv):
                return ("div", self.go(e.left, d), self.go(e.right, d))
            for k, v in ops.items():
                if isinstance(e.op, k):
                    a, b = _canon(v, self.go(e.left, d), self.go(e.right, d))
                    return ("bin", v, a, b)
            raise TranslateError("scheduling expression: unsupported operator at line %s" % getattr(e, "lineno", "?"))
        if isinstance(e, ast.Call) and isinstance(e.func, ast.Name) and not e.keywords \
                and self.sc.lookup(e.func.id) is None:
            if e.func.id == "int" and len(e.args) == 1:
                a = self.sc.deref(e.args[0])
                if isinstance(a, ast.BinOp) and isinstance(a.op, ast.Div):
                    return ("div", self.go(a.left, d), self.go(a.right, d))
                return self.go(a, d)
            if e.func.id in ("min", "max") and len(e.args) == 2:
                a, b = _canon(e.func.id, self.go(e.args[0], d), self.go(e.args[1], d))
                return (e.func.id, a, b)
        raise TranslateError("scheduling expression: unsupported form at line %d" % getattr(e, "lineno", -1))


def _find_slices(fn, roles):
    """The list of kernel slices handed to the workers, in any spelling (G5.Streams): one element per
    `tid in range(num_cores)`, element `kernel[<start(tid)>:<end(tid)>]`.
    -> (defining comprehension / loop node, start expression, end expression) over Name(G5.TID)"""
    sc = roles.sc

    def single(name):
        try:
            v = sc.single(name)
        except U.NotConst:
            return None
        return v

    def const0(node):
        ok, v = sc.try_ev(node)
        return ok and v == 0 and not isinstance(v, (bool, float))

    st = G5.Streams(fn, single, roles.is_cores, const0)

    def is_slice(e):
        return isinstance(e, ast.Subscript) and roles.is_kernel(e.value) and isinstance(e.slice, ast.Slice)

    cands = []      # (node to resolve, direct element expression)
    for n in U.walk_scope(fn):
        if isinstance(n, (ast.ListComp, ast.GeneratorExp)):
            cands.append((n, n.elt))
        elif isinstance(n, ast.Call) and isinstance(n.func, ast.Attribute) and n.func.attr == "append" \
                and isinstance(n.func.value, ast.Name) and len(n.args) == 1:
            cands.append((ast.Name(id=n.func.value.id, ctx=ast.Load()), sc.deref(n.args[0])))
    hits = []
    for node, direct in cands:
        if not is_slice(direct):
            continue
        e = st.elem(node)
        if e is None or not is_slice(e) or e.slice.step is not None or e.slice.lower is None or e.slice.upper is None:
            raise TranslateError("slices of the kernel are not one `kernel[start(tid):end(tid)]` per tid in "
                                 "range(num_cores) (line %d)" % getattr(direct, "lineno", 0))
        where = st.origin[id(e)]
        if not any(h[0] is where for h in hits):
            hits.append((where, e.slice.lower, e.slice.upper))
    if len(hits) != 1:
        raise TranslateError("expected one list of kernel slices `kernel[start(tid):end(tid)]`, found %d" % len(hits))
    return hits[0]


# --------------------------------------------------------------------------- the generator
@generator("WorkersConsts", [SRC] + SELF)
def gen_workers():
    U.reset_cache()
    cls = U.mod_scope(SRC).cls(CLS)
    sc = cls.fn(FN)
    fn = sc.node
    roles = Roles(sc)

    slices, s_elt, e_elt = _find_slices(fn, roles)

    # ---- threshold: the `if` comparing klen with a constant; which branch is the parallel one
    cands = []
    for node in ast.walk(fn):
        if not isinstance(node, ast.If):
            continue
        t, pol = U.strip_not(node.test)
        if not (isinstance(t, ast.Compare) and len(t.ops) == 1 and type(t.ops[0]) in MIRROR):
            continue
        left, right, op = t.left, t.comparators[0], type(t.ops[0])
        if roles.is_klen(right) and not roles.is_klen(left):
            left, right, op = right, left, MIRROR[op]
        if not roles.is_klen(left):
            continue
        ok, v = sc.try_ev(right)
        if not ok:
            continue
        if not pol:
            op = NEGATE[op]
        cands.append((node, op, right, v))
    if len(cands) != 1:
        raise TranslateError("expected exactly one `if len(kernel) <op> <constant>` test, found %d" % len(cands))
    thr_if, op, thr_node, thr = cands[0]
    if isinstance(thr, bool) or not isinstance(thr, int) or thr < 0:
        raise TranslateError("threshold %r is not a natural number" % (thr,))
    if any(U.contains(s, slices) for s in thr_if.body):
        pass
    elif any(U.contains(s, slices) for s in thr_if.orelse):
        op = NEGATE[op]
    else:
        raise TranslateError("the worker slices are not computed under the threshold test")
    cmpop = {ast.GtE: "≥", ast.Gt: ">"}.get(op)
    if cmpop is None:
        raise TranslateError("threshold comparison is neither >= nor >")
    if isinstance(thr_node, ast.Attribute) and isinstance(thr_node.value, ast.Name) \
            and thr_node.value.id in ("self", "cls", CLS):
        thr_doc, thr_use = "%s.%s" % (CLS, thr_node.attr), "self.%s" % thr_node.attr
    else:
        thr_doc = thr_use = ast.unparse(thr_node)

    # ---- scheduling expressions
    cs = NatCompiler(roles, G5.TID)
    start = cs.go(s_elt)
    ce = NatCompiler(roles, G5.TID)
    end = ce.go(e_elt)
    hoisted = list(cs.hoisted)
    for h in ce.hoisted:
        if not any(h is x for x in hoisted):
            hoisted.append(h)
    if len(hoisted) != 1:
        raise TranslateError("expected the slice bounds to use exactly one hoisted local (workload), found %d"
                             % len(hoisted))
    workload = NatCompiler(roles, None, "inline").go(hoisted[0])

    # ---- poll loop
    loops = [n for n in ast.walk(fn) if isinstance(n, ast.While)]
    if len(loops) != 1:
        raise TranslateError("expected exactly one while loop, found %d" % len(loops))
    loop = loops[0]
    loop_test, loop_body, loop_else = loop.test, list(loop.body), list(loop.orelse)
    ok, always = sc.try_ev(loop_test)
    if ok and always is True and not loop_else and loop_body and isinstance(loop_body[0], ast.If) \
            and not loop_body[0].orelse and loop_body[0].body and isinstance(loop_body[0].body[-1], ast.Break):
        # `while True: if <timed out>: <terminate>; break; <poll>`  ==  `while not <timed out>: <poll>  else: <terminate>`
        guard = loop_body[0]
        loop_test = ast.UnaryOp(op=ast.Not(), operand=guard.test)
        loop_else = list(guard.body[:-1]) or [ast.Pass()]
        loop_body = loop_body[1:]
    t, pol = U.strip_not(loop_test)
    if not (isinstance(t, ast.Compare) and len(t.ops) == 1 and type(t.ops[0]) in MIRROR):
        raise TranslateError("while condition is not `<now> - <start> <op> timeout`")
    left, right, wop = t.left, t.comparators[0], type(t.ops[0])
    if roles.is_timeout(left):
        left, right, wop = right, left, MIRROR[wop]
    if not pol:
        wop = NEGATE[wop]
    if not (roles.is_timeout(right) and isinstance(left, ast.BinOp) and isinstance(left.op, ast.Sub)):
        raise TranslateError("while condition is not `<now> - <start> <op> timeout`")
    loop_le = {ast.LtE: True, ast.Lt: False}.get(wop)
    if loop_le is None:
        raise TranslateError("while condition operator is neither <= nor <")
    sleeps = [n for n in ast.walk(loop) if U.call_name(n) == "sleep"]
    if len(sleeps) != 1 or len(sleeps[0].args) != 1 or sleeps[0].keywords:
        raise TranslateError("expected one sleep(<constant>) in the poll loop")
    interval = sc.ev_num(sleeps[0].args[0], "sleep interval")
    # the loop body: `if any(p.is_alive() ...): sleep else: join...; break` (or the guard-clause form)
    dec = U.split_if_else(loop_body)
    if dec is None:
        raise TranslateError("poll loop body is not a single if/else")
    test, then, other = dec
    in_then = any(U.contains(s, sleeps[0]) for s in then)
    in_other = any(U.contains(s, sleeps[0]) for s in other)
    brk_then = any(isinstance(s, ast.Break) for s in then)
    brk_other = any(isinstance(s, ast.Break) for s in other)
    if not ((in_then and brk_other and not brk_then) or (in_other and brk_then and not brk_other)):
        raise TranslateError("poll loop: expected `if alive: sleep else: ... break`")
    tt, tpol = U.strip_not(test)
    if not any(U.call_name(n) == "is_alive" for n in ast.walk(tt)):
        raise TranslateError("poll loop: the decision does not test is_alive()")
    if tpol != in_then:
        raise TranslateError("poll loop: sleeps when no worker is alive")
    if not loop_else:
        raise TranslateError("poll loop has no else branch")

    # placement of `self.timed_out = True`
    def is_flag(n):
        if not (isinstance(n, ast.Assign) and len(n.targets) == 1 and isinstance(n.targets[0], ast.Attribute)
                and n.targets[0].attr == "timed_out"):
            return False
        ok, v = sc.try_ev(n.value)
        return ok and v is True

    flags = [n for n in ast.walk(fn) if is_flag(n)]
    if len(flags) != 1:
        raise TranslateError("expected exactly one `self.timed_out = True`, found %d" % len(flags))
    if any(n is flags[0] for n in loop_else):
        only_if_alive = False
    else:
        only_if_alive = None
        for n in ast.walk(ast.Module(body=loop_else, type_ignores=[])):
            if isinstance(n, ast.If) and any(m is flags[0] for m in n.body):
                if any(pl and U.call_name(a) == "is_alive" for a, pl in U.atoms(n.test, True)):
                    # the same `if` must also do the kill
                    kills = [m for m in ast.walk(n) if U.call_name(m) in ("kill", "terminate")]
                    if kills:
                        only_if_alive = True
        if only_if_alive is None:
            raise TranslateError("`self.timed_out = True` is neither in the loop's else nor under `if p.is_alive()` next to the kill")
    # the constant that switches the timeout off: `timeout == <const>` around the joins
    offs = set()
    for n in ast.walk(fn):
        if isinstance(n, ast.Compare) and len(n.ops) == 1 and isinstance(n.ops[0], (ast.Eq, ast.NotEq)):
            l, r = n.left, n.comparators[0]
            if roles.is_timeout(r):
                l, r = r, l
            if roles.is_timeout(l):
                v = sc.ev_num(r, "timeout switch")
                if isinstance(v, float):
                    if v != int(v):
                        raise TranslateError("timeout switch %r is not an integer" % v)
                    v = int(v)
                offs.add(v)
    if len(offs) != 1:
        raise TranslateError("`if timeout == <constant>` not found (or several different ones)")
    off = offs.pop()

    # ---- _extend_path: one extend per root, target = root + offset
    fe = cls.fn("_extend_path").node
    fors = [n for n in fe.body if isinstance(n, ast.For)]
    if len(fors) != 1 or not (isinstance(fors[0].iter, ast.Name) and fors[0].iter.id == "kernel"):
        raise TranslateError("_extend_path: expected one `for instr in kernel` loop")
    ext = [n for n in ast.walk(fors[0]) if isinstance(n, ast.Call) and isinstance(n.func, ast.Attribute) and n.func.attr == "extend"]
    if len(ext) != 1:
        raise TranslateError("_extend_path: expected one extend() per root")

    sig = "(klen numCores workload tid : Nat)"
    out = [HEADER, "set_option linter.unusedVariables false\n", "namespace OsacaVerif.Gen\n"]
    out.append("/-- `%s` -/" % thr_doc)
    out.append("def instructionThreshold : Nat := %d\n" % thr)
    out.append("/-- `klen %s %s`: the multi-process search is used -/" % (cmpop, thr_use))
    out.append("def useParallel (klen : Nat) : Bool := decide (klen %s instructionThreshold)\n" % cmpop)
    out.append("/-- `workload = %s` -/" % py_text(workload))
    out.append("def workloadExpr %s : Nat := %s\n" % (sig, lean(workload)))
    out.append("/-- element of `starts`: `%s` -/" % py_text(start))
    out.append("def startExpr %s : Nat := %s\n" % (sig, lean(start)))
    out.append("/-- element of `ends`: `%s` -/" % py_text(end))
    out.append("def endExpr %s : Nat := %s\n" % (sig, lean(end)))
    out.append("/-- `time.sleep(%s)` of the poll loop -/" % U.dec_text(interval))
    out.append("def pollInterval : Rat := %s\n" % rat(U.dec_text(interval)))
    out.append("/-- the poll loop runs while `now - start <= timeout` (true) or `<` (false) -/")
    out.append("def loopCondLe : Bool := %s\n" % ("true" if loop_le else "false"))
    out.append("/-- `timeout == %s` switches the timeout off (plain joins) -/" % off)
    out.append("def noTimeoutValue : Int := %s\n" % (str(off) if off >= 0 else "(%d)" % off))
    out.append("/-- `self.timed_out = True` only next to the kill of a worker that is still alive (D8 repaired) -/")
    out.append("def flagOnlyIfAlive : Bool := %s\n" % ("true" if only_if_alive else "false"))
    out.append("end OsacaVerif.Gen\n")
    return "\n".join(out)
