"""Gen/WorkersConsts.lean: constants and expressions of the multi-process LCD search (C16, C19).

Everything is located by *shape* inside `KernelDG.check_for_loopcarried_dep`:
  * the class attribute compared with `len(kernel)` (threshold) and the comparison operator,
  * the three scheduling expressions (`workload`, the element expressions of the `starts` and
    `ends` comprehensions over `range(num_cores)`), the slice comprehension `kernel[s:e]`,
  * the poll loop: `while time.time() - start <= timeout` (operator), the `sleep` literal,
    the literal that switches the timeout off, and where `self.timed_out = True` stands
    (directly in the loop's `else`, or guarded by `p.is_alive()`).
Arithmetic is compiled to Lean `Nat` expressions (`int(a / b)` and `a // b` become Nat division:
exact for the non-negative operands below 2^53 that occur; `a - b` is truncated subtraction, exact
whenever the Python value is non-negative -- the correspondence compares the slices actually
handed to the workers with the model's for every run).
"""
import ast
from fractions import Fraction

from translate import TranslateError, generator, parse, find_func, HEADER

SRC = "osaca/semantics/kernel_dg.py"

VARS = {"klen": "klen", "num_cores": "numCores", "workload": "workload", "tid": "tid"}


def compile_nat(e, names):
    """Python integer expression -> Lean Nat expression text."""
    if isinstance(e, ast.Constant) and isinstance(e.value, int) and not isinstance(e.value, bool) and e.value >= 0:
        return str(e.value)
    if isinstance(e, ast.Name):
        if e.id in names:
            return names[e.id]
        raise TranslateError("scheduling expression uses unknown name %r (line %d)" % (e.id, e.lineno))
    if isinstance(e, ast.BinOp):
        ops = {ast.Add: "+", ast.Sub: "-", ast.Mult: "*", ast.FloorDiv: "/", ast.Mod: "%"}
        for k, v in ops.items():
            if isinstance(e.op, k):
                return "(%s %s %s)" % (compile_nat(e.left, names), v, compile_nat(e.right, names))
        raise TranslateError("scheduling expression: unsupported operator at line %d" % e.lineno)
    if isinstance(e, ast.Call) and isinstance(e.func, ast.Name) and not e.keywords:
        if e.func.id == "int" and len(e.args) == 1:
            a = e.args[0]
            if isinstance(a, ast.BinOp) and isinstance(a.op, ast.Div):
                return "(%s / %s)" % (compile_nat(a.left, names), compile_nat(a.right, names))
            return compile_nat(a, names)
        if e.func.id in ("min", "max") and len(e.args) == 2:
            return "(%s %s %s)" % (e.func.id, compile_nat(e.args[0], names), compile_nat(e.args[1], names))
    raise TranslateError("scheduling expression: unsupported form at line %d" % getattr(e, "lineno", -1))


def _assign_to(fn, name):
    hits = [n for n in ast.walk(fn) if isinstance(n, ast.Assign) and len(n.targets) == 1
            and isinstance(n.targets[0], ast.Name) and n.targets[0].id == name]
    if len(hits) != 1:
        raise TranslateError("expected exactly one assignment to %r, found %d" % (name, len(hits)))
    return hits[0].value


def _range_comp(value, what):
    """[<elt> for tid in range(num_cores)] -> (elt, loop variable name)"""
    if not (isinstance(value, ast.ListComp) and len(value.generators) == 1):
        raise TranslateError("%s: not a single list comprehension" % what)
    g = value.generators[0]
    if g.ifs or not isinstance(g.target, ast.Name):
        raise TranslateError("%s: comprehension has a filter or a tuple target" % what)
    it = g.iter
    if not (isinstance(it, ast.Call) and isinstance(it.func, ast.Name) and it.func.id == "range"
            and len(it.args) == 1 and isinstance(it.args[0], ast.Name) and it.args[0].id == "num_cores"):
        raise TranslateError("%s: does not iterate over range(num_cores)" % what)
    return value.elt, g.target.id


def rat(fr):
    fr = Fraction(fr)
    if fr.denominator == 1:
        return "(%d : Rat)" % fr.numerator
    return "((%d : Rat) / %d)" % (fr.numerator, fr.denominator)


@generator("WorkersConsts", [SRC])
def gen_workers():
    tree = parse(SRC)
    cls = [n for n in ast.walk(tree) if isinstance(n, ast.ClassDef) and n.name == "KernelDG"]
    if not cls:
        raise TranslateError("class KernelDG not found")
    cls = cls[0]
    fn = find_func(tree, "check_for_loopcarried_dep", "KernelDG")

    # ---- threshold: `if klen <op> self.<ATTR>` whose body calls cpu_count()
    thr_if = None
    for node in ast.walk(fn):
        if isinstance(node, ast.If) and isinstance(node.test, ast.Compare) and len(node.test.ops) == 1:
            t = node.test
            r = t.comparators[0]
            if (isinstance(t.left, ast.Name) and t.left.id == "klen" and isinstance(r, ast.Attribute)
                    and isinstance(r.value, ast.Name) and r.value.id == "self"):
                thr_if = node
    if thr_if is None:
        raise TranslateError("`if klen <op> self.<THRESHOLD>` not found")
    attr = thr_if.test.comparators[0].attr
    cmpop = {ast.GtE: "≥", ast.Gt: ">"}.get(type(thr_if.test.ops[0]))
    if cmpop is None:
        raise TranslateError("threshold comparison is neither >= nor >")
    thr = None
    for node in cls.body:
        if (isinstance(node, ast.Assign) and len(node.targets) == 1 and isinstance(node.targets[0], ast.Name)
                and node.targets[0].id == attr and isinstance(node.value, ast.Constant)
                and isinstance(node.value.value, int)):
            thr = node.value.value
    if thr is None:
        raise TranslateError("class attribute %s is not an integer literal" % attr)
    klen_v = _assign_to(fn, "klen")
    if not (isinstance(klen_v, ast.Call) and isinstance(klen_v.func, ast.Name) and klen_v.func.id == "len"
            and len(klen_v.args) == 1 and isinstance(klen_v.args[0], ast.Name) and klen_v.args[0].id == "kernel"):
        raise TranslateError("klen is not len(kernel)")
    nc = _assign_to(fn, "num_cores")
    if not (isinstance(nc, ast.Call) and isinstance(nc.func, ast.Name) and nc.func.id == "cpu_count" and not nc.args):
        raise TranslateError("num_cores is not cpu_count()")

    # ---- scheduling expressions
    names = {"klen": "klen", "num_cores": "numCores"}
    workload = compile_nat(_assign_to(fn, "workload"), names)
    s_elt, s_var = _range_comp(_assign_to(fn, "starts"), "starts")
    e_elt, e_var = _range_comp(_assign_to(fn, "ends"), "ends")
    start = compile_nat(s_elt, dict(names, workload="workload", **{s_var: "tid"}))
    end = compile_nat(e_elt, dict(names, workload="workload", **{e_var: "tid"}))
    instrs = _assign_to(fn, "instrs")
    ok = False
    if isinstance(instrs, ast.ListComp) and len(instrs.generators) == 1 and not instrs.generators[0].ifs:
        g = instrs.generators[0]
        it = g.iter
        if (isinstance(it, ast.Call) and isinstance(it.func, ast.Name) and it.func.id == "zip"
                and [getattr(a, "id", None) for a in it.args] == ["starts", "ends"]
                and isinstance(g.target, ast.Tuple) and len(g.target.elts) == 2):
            a, b = [x.id for x in g.target.elts]
            el = instrs.elt
            if (isinstance(el, ast.Subscript) and isinstance(el.value, ast.Name) and el.value.id == "kernel"
                    and isinstance(el.slice, ast.Slice) and el.slice.step is None
                    and isinstance(el.slice.lower, ast.Name) and el.slice.lower.id == a
                    and isinstance(el.slice.upper, ast.Name) and el.slice.upper.id == b):
                ok = True
    if not ok:
        raise TranslateError("instrs is not [kernel[s:e] for s, e in zip(starts, ends)]")

    # ---- poll loop
    loops = [n for n in ast.walk(fn) if isinstance(n, ast.While)]
    if len(loops) != 1:
        raise TranslateError("expected exactly one while loop, found %d" % len(loops))
    loop = loops[0]
    t = loop.test
    if not (isinstance(t, ast.Compare) and len(t.ops) == 1 and isinstance(t.comparators[0], ast.Name)
            and t.comparators[0].id == "timeout" and isinstance(t.left, ast.BinOp) and isinstance(t.left.op, ast.Sub)):
        raise TranslateError("while condition is not `<now> - <start> <op> timeout`")
    loop_le = {ast.LtE: True, ast.Lt: False}.get(type(t.ops[0]))
    if loop_le is None:
        raise TranslateError("while condition operator is neither <= nor <")
    sleeps = [n for n in ast.walk(loop) if isinstance(n, ast.Call) and isinstance(n.func, ast.Attribute)
              and n.func.attr == "sleep"]
    if len(sleeps) != 1 or not (sleeps[0].args and isinstance(sleeps[0].args[0], ast.Constant)):
        raise TranslateError("expected one sleep(<literal>) in the poll loop")
    interval = Fraction(repr(sleeps[0].args[0].value))
    # the loop body: `if any(p.is_alive() ...): sleep else: join...; break`
    body_if = [n for n in loop.body if isinstance(n, ast.If)]
    if len(loop.body) != 1 or len(body_if) != 1:
        raise TranslateError("poll loop body is not a single if/else")
    bi = body_if[0]
    if not (any(n is sleeps[0] for n in ast.walk(ast.Module(body=bi.body, type_ignores=[])))
            and any(isinstance(n, ast.Break) for n in bi.orelse)):
        raise TranslateError("poll loop: expected `if alive: sleep else: ... break`")
    if not loop.orelse:
        raise TranslateError("poll loop has no else branch")
    # placement of `self.timed_out = True`
    def is_flag(n):
        return (isinstance(n, ast.Assign) and len(n.targets) == 1 and isinstance(n.targets[0], ast.Attribute)
                and n.targets[0].attr == "timed_out" and isinstance(n.value, ast.Constant) and n.value.value is True)

    flags = [n for n in ast.walk(fn) if is_flag(n)]
    if len(flags) != 1:
        raise TranslateError("expected exactly one `self.timed_out = True`, found %d" % len(flags))
    if any(n is flags[0] for n in loop.orelse):
        only_if_alive = False
    else:
        only_if_alive = None
        for n in ast.walk(ast.Module(body=loop.orelse, type_ignores=[])):
            if isinstance(n, ast.If) and any(m is flags[0] for m in n.body):
                c = n.test
                if (isinstance(c, ast.Call) and isinstance(c.func, ast.Attribute) and c.func.attr == "is_alive"):
                    # the same `if` must also do the kill
                    kills = [m for m in ast.walk(n) if isinstance(m, ast.Call) and isinstance(m.func, ast.Attribute)
                             and m.func.attr in ("kill", "terminate")]
                    if kills:
                        only_if_alive = True
        if only_if_alive is None:
            raise TranslateError("`self.timed_out = True` is neither in the loop's else nor under `if p.is_alive()` next to the kill")
    # the literal that switches the timeout off: `if timeout == <lit>` around the joins
    off = None
    for n in ast.walk(fn):
        if (isinstance(n, ast.If) and isinstance(n.test, ast.Compare) and len(n.test.ops) == 1
                and isinstance(n.test.ops[0], ast.Eq) and isinstance(n.test.left, ast.Name) and n.test.left.id == "timeout"):
            c = n.test.comparators[0]
            if isinstance(c, ast.UnaryOp) and isinstance(c.op, ast.USub) and isinstance(c.operand, ast.Constant):
                off = -c.operand.value
            elif isinstance(c, ast.Constant):
                off = c.value
    if off is None:
        raise TranslateError("`if timeout == <literal>` not found")

    # ---- _extend_path: one extend per root, target = root + offset
    fe = find_func(tree, "_extend_path", "KernelDG")
    fors = [n for n in fe.body if isinstance(n, ast.For)]
    if len(fors) != 1 or not (isinstance(fors[0].iter, ast.Name) and fors[0].iter.id == "kernel"):
        raise TranslateError("_extend_path: expected one `for instr in kernel` loop")
    ext = [n for n in ast.walk(fors[0]) if isinstance(n, ast.Call) and isinstance(n.func, ast.Attribute) and n.func.attr == "extend"]
    if len(ext) != 1:
        raise TranslateError("_extend_path: expected one extend() per root")

    sig = "(klen numCores workload tid : Nat)"
    out = [HEADER, "set_option linter.unusedVariables false\n", "namespace OsacaVerif.Gen\n"]
    out.append("/-- `KernelDG.%s` -/" % attr)
    out.append("def instructionThreshold : Nat := %d\n" % thr)
    out.append("/-- `klen %s self.%s`: the multi-process search is used -/" % (cmpop, attr))
    out.append("def useParallel (klen : Nat) : Bool := decide (klen %s instructionThreshold)\n" % cmpop)
    out.append("/-- `workload = %s` -/" % ast.unparse(_assign_to(fn, "workload")))
    out.append("def workloadExpr %s : Nat := %s\n" % (sig, workload))
    out.append("/-- element of `starts`: `%s` -/" % ast.unparse(s_elt))
    out.append("def startExpr %s : Nat := %s\n" % (sig, start))
    out.append("/-- element of `ends`: `%s` -/" % ast.unparse(e_elt))
    out.append("def endExpr %s : Nat := %s\n" % (sig, end))
    out.append("/-- `time.sleep(%s)` of the poll loop -/" % ast.unparse(sleeps[0].args[0]))
    out.append("def pollInterval : Rat := %s\n" % rat(interval))
    out.append("/-- the poll loop runs while `now - start <= timeout` (true) or `<` (false) -/")
    out.append("def loopCondLe : Bool := %s\n" % ("true" if loop_le else "false"))
    out.append("/-- `timeout == %s` switches the timeout off (plain joins) -/" % off)
    out.append("def noTimeoutValue : Int := %s\n" % (str(off) if off >= 0 else "(%d)" % off))
    out.append("/-- `self.timed_out = True` only next to the kill of a worker that is still alive (D8 repaired) -/")
    out.append("def flagOnlyIfAlive : Bool := %s\n" % ("true" if only_if_alive else "false"))
    out.append("end OsacaVerif.Gen\n")
    return "\n".join(out)
