"""Gen/ReportConsts.lean: every literal of the report generator the C13 model and theorems use.

Sources: osaca/frontend.py (titles, warning texts, format strings and their widths, flag symbols,
symbol map), osaca/osaca.py (DEFAULT_ARCHS, the length-warning threshold and the shape of the two
warning flags), osaca/semantics/isa_semantics.py (INSTR_FLAGS values).

The source is read by MEANING (helpers in astutil_G3.py):

* numbers and texts are constant EXPRESSIONS (`2 * 6`, `2 + 2`, adjacent / concatenated strings,
  locals of any name bound once, class attributes, module constants), evaluated by `const_eval`;
* `%`-format, `str.format`, f-strings, `+` and `str(x)` are brought to one template form
  (`Templates`, `skeleton`); constant fields are folded into the text, so `"{}{:^6}{}".format(col_sep,
  "CP", col_sep)`, its f-string and the literal `"|  CP  |"` are the same thing, and the cell widths
  and titles are recovered from the resulting text;
* locals are found by what they are used for (the accumulator that is returned, the argument of
  `_get_separator_list`, the argument of the centring format, the variable `_get_max_port_len` is
  assigned to), not by their names; arithmetic is compared in linear normal form
  (`port_len[i] - left_len - 1` = `port_len[i] - (left_len + 1)`); tests in negation normal form
  (`if not a and b: X else: Y` = `if a or not b: Y else: X` = guard clause with early return);
  the running maximum may be an `if`, a conditional expression or `max(...)`;
* order-free tables are emitted in one canonical order: `DEFAULT_ARCHS` (only ever subscripted)
  by key, the symbol texts (iterated through `sorted(...)`) in the order of the flag symbols.

DYNAMIC reading.  Five small helpers of `Frontend` are pure text builders of their arguments:
`_user_warnings_header`, `_user_warnings_footer`, `_missing_instruction_error`, `_get_flag_symbols`
and `_symbol_map`.  They are compiled ALONE from their AST in an empty name space (white-listed
builtins, constants of the module, an `INSTR_FLAGS` stand-in, a stub `self` carrying only the class
constants and, for `_symbol_map`, the isolated `_get_flag_symbols`) and CALLED on probe arguments; the
constants are recovered from the results and the recovered form is checked against further probes
(so any behaviour-preserving rewrite is accepted and any rewrite that leaves the modelled form is a
TranslateError).  The same is done, as before, for the statements that build the first `separator`
of `combined_view`.  `_get_max_port_len` is read statically first (initial list, probe format,
running maximum as `if` / conditional expression / `max`); only if its statements have another shape
(e.g. comprehensions instead of loops) it is called in isolation with a stub machine model on probe
kernels and must be  width[i] = max(m, max len('%.<d>f' % pressure[i]))  on all of them.
The `Warnings` entry of `full_analysis_dict` is read the same way: the statements that can influence it
(backward slice, astutil_G5.backward_slice; private helpers substituted first) are compiled alone as a function
of (kernel, arch_warning, length_warning, lcd_warning) and run on all combinations with probe kernels; the list must
be  [arch][length][lcd][unknown-instruction]  for four fixed names, the last one iff the unknown-throughput flag
occurs in some instruction's flags.  The two warning switches of `inspect` are read STATICALLY as decision trees
(astutil_G5.ite_value: the value the local has where full_analysis is called, as a tree over the tests of the
enclosing ifs) and compared with  not args.arch  /  not args.lines and len(kernel) == len(parsed_code) and
len(kernel) > N  on every truth assignment of the atoms; N is recovered from `>`, `>=`, `<`, `<=` in either
operand order.
Nothing is imported from the analysed tree; a helper that is no longer pure (uses
`self._machine_model`, a non-white-listed builtin, ...) fails loudly.

Still required (TranslateError otherwise = broken tie, the check then searches): the functions
exist under their names; each format has the field structure the model implements (only numbers and
texts vary); parameter names of the public report functions (`ignore_unknown`, `arch_warning`, ...)
and `args.arch` / `args.lines` in `inspect`.
"""
import ast
import os
import re
import sys



def _load_helpers():
    """astutil_G3.py from this directory, without putting the directory on sys.path"""
    import importlib.util

    if "astutil_G3" not in sys.modules:
        path = os.path.join(os.path.dirname(os.path.abspath(__file__)), "astutil_G3.py")
        spec = importlib.util.spec_from_file_location("astutil_G3", path)
        mod = importlib.util.module_from_spec(spec)
        sys.modules["astutil_G3"] = mod
        try:
            spec.loader.exec_module(mod)
        except BaseException:
            del sys.modules["astutil_G3"]
            raise
    return sys.modules["astutil_G3"]


def _load_g5():
    import importlib.util

    if "astutil_G5" not in sys.modules:
        path = os.path.join(os.path.dirname(os.path.abspath(__file__)), "astutil_G5.py")
        spec = importlib.util.spec_from_file_location("astutil_G5", path)
        mod = importlib.util.module_from_spec(spec)
        sys.modules["astutil_G5"] = mod
        try:
            spec.loader.exec_module(mod)
        except BaseException:
            del sys.modules["astutil_G5"]
            raise
    return sys.modules["astutil_G5"]


A = _load_helpers()
G5 = _load_g5()
from translate import TranslateError, generator, parse, find_func, txt, HEADER  # noqa: E402

FRONT = "osaca/frontend.py"
MAIN = "osaca/osaca.py"
ISA = "osaca/semantics/isa_semantics.py"


def esc(s):
    """literal text as it appears in a skeleton"""
    return s.replace("{", "{{").replace("}", "}}")


def unesc(s):
    return s.replace("{{", "{").replace("}}", "}")


def instr_flags():
    t = parse(ISA)
    cls = A.find_class(t, "INSTR_FLAGS")
    sc = A.Scope(t, cls)
    out = {}
    for st in cls.body:
        if isinstance(st, (ast.Assign, ast.AnnAssign)):
            tgts = st.targets if isinstance(st, ast.Assign) else [st.target]
            if len(tgts) == 1 and isinstance(tgts[0], ast.Name) and st.value is not None:
                try:
                    v = A.const_eval(st.value, sc)
                except A.NotConst:
                    continue
                if isinstance(v, str):
                    out[tgts[0].id] = v
    if not out:
        raise TranslateError("class INSTR_FLAGS has no string constants")
    return out


class Fn:
    """one function of the source with its scope and its templates"""

    def __init__(self, base, cls, name, inline_private=False):
        self.name = (cls.name + "." if cls is not None else "") + name
        self.node = A.find_method(cls, name) if cls is not None else find_func(base.module, name)
        if inline_private:
            # calls of private helpers (underscore names, static methods) are replaced by the helper's
            # statements: an "extract function" refactoring does not show (astutil_G5.inline_helpers)
            if cls is not None:
                res = G5.class_resolver([cls], self.node, only=G5.is_private_helper)
            else:
                res = G5.module_resolver(base.module, self.node,
                                         only=lambda n, f: n.startswith("_") and not n.startswith("__"))
            new, used = G5.inline_helpers(self.node, res, depth=2)
            if used:
                self.node = new
        self.sc = base.at(cls=cls, fn=self.node)
        self.T = A.Templates(self.sc)
        self._roots = None
        self.parents = {}
        for n in ast.walk(self.node):
            for c in ast.iter_child_nodes(n):
                self.parents[id(c)] = n

    def fail(self, msg):
        raise TranslateError("%s: %s" % (self.name, msg))

    @property
    def roots(self):
        if self._roots is None:
            self._roots = [(n, t, A.skeleton(t)) for n, t in self.T.roots(self.node)]
        return self._roots

    def skel_matches(self, pattern):
        return [(n, t, m) for n, t, s in self.roots for m in [re.fullmatch(pattern, s, re.S)] if m]

    def one_skel(self, pattern, what, at_least=1):
        """the template(s) whose skeleton fullmatches pattern; all must have the same skeleton"""
        hits = self.skel_matches(pattern)
        if len(hits) < at_least:
            self.fail("%s: no format of the expected shape %r" % (what, pattern))
        if len({m.group(0) for _, _, m in hits}) != 1:
            self.fail("%s: several different formats match %r" % (what, pattern))
        return hits[0]

    def const(self, node, what, types=None, env=None):
        return A.const_or_fail(node, self.sc, "%s: %s" % (self.name, what), types, env)

    def char(self, node, what):
        v = self.const(node, what, str)
        if len(v) != 1:
            self.fail("%s is not one character: %r" % (what, v))
        return v

    def returned_name(self):
        names = set()
        for n in A.walk_scope(self.node):
            if isinstance(n, ast.Return):
                if not isinstance(n.value, ast.Name):
                    self.fail("returns something else than its accumulator")
                names.add(n.value.id)
        if len(names) != 1:
            self.fail("expected one returned accumulator, got %r" % sorted(names))
        return names.pop()

    def title(self):
        """constant initial value of the accumulator the function returns"""
        name = self.returned_name()
        v = self.sc.accumulator_init(self.node, name)
        if v is None:
            self.fail("accumulator `%s` is not `x = <title>` followed by `x += ...`" % name)
        return self.const(v, "title", str)

    def default_of_last_param(self, what):
        if len(self.node.args.defaults) < 1:
            self.fail("%s: default not found" % what)
        return self.char(self.node.args.defaults[-1], what)

    def calls(self, method):
        return [n for n in A.walk_in_order(self.node) if isinstance(n, ast.Call) and isinstance(n.func, ast.Attribute)
                and n.func.attr == method]

    def self_calls(self, method):
        return [n for n in self.calls(method) if isinstance(n.func.value, ast.Name) and n.func.value.id in ("self", "cls")]

    def rd(self, node):
        return A.rdump(node, self.sc)


def natural(fn, text, what):
    if not re.fullmatch(r"\d+", text or ""):
        fn.fail("%s is not a natural number: %r" % (what, text))
    return int(text)


# --------------------------------------------------------------------------- frontend pieces
def max_port_len(f, C):
    ret = f.returned_name()
    init = f.sc.single(f.node, ret)
    if init is None:
        f.fail("initial width list not found")
    v = None
    if isinstance(init, ast.ListComp) and len(init.generators) == 1:
        try:
            v = A.const_eval(init.elt, f.sc)  # must not depend on the loop variable
        except A.NotConst:
            v = None
    elif isinstance(init, ast.BinOp) and isinstance(init.op, ast.Mult):
        for side in (init.left, init.right):
            if isinstance(side, ast.List) and len(side.elts) == 1:
                try:
                    v = A.const_eval(side.elts[0], f.sc)
                except A.NotConst:
                    v = None
    if not isinstance(v, int) or isinstance(v, bool):
        f.fail("initial width list not found")
    C["minPortLen"] = v
    _, _, m = f.one_skel(r"\{:\.(\d+)f\}", "width probe format")
    C["portLenDecimals"] = int(m.group(1))
    fmt_nodes = [n for n, _, _ in f.skel_matches(r"\{:\.(\d+)f\}")]

    def is_probe(node):  # len(<that format>) possibly through a local
        d, _ = f.sc.deref(node)
        return (isinstance(d, ast.Call) and isinstance(d.func, ast.Name) and d.func.id == "len" and len(d.args) == 1
                and f.sc.deref(d.args[0])[0] in fmt_nodes)

    # running maximum: cell = max(cell, probe), in one of its spellings
    updates = 0
    for n in A.walk_in_order(f.node):
        if isinstance(n, ast.If) and not n.orelse and len(n.body) == 1 and isinstance(n.body[0], ast.Assign):
            kind, lits = A.bool_lits(n.test, f.sc)
            if len(lits) == 1 and lits[0].cmp:
                op, big, small = A.norm_compare(lits[0].cmp)
                st = n.body[0]
                if len(st.targets) == 1 and isinstance(st.targets[0], ast.Subscript):
                    if (op in (ast.Gt, ast.GtE) and f.rd(st.targets[0]) == f.rd(small) and f.rd(st.value) == f.rd(big)
                            and is_probe(big)):
                        updates += 1
                        continue
                    f.fail("width update is not a running maximum")
        if isinstance(n, ast.Assign) and len(n.targets) == 1 and isinstance(n.targets[0], ast.Subscript):
            tgt, val = n.targets[0], f.sc.deref(n.value)[0]
            if isinstance(f.parents.get(id(n)), ast.If) and not f.parents[id(n)].orelse:
                continue  # judged above
            if isinstance(val, ast.Call) and isinstance(val.func, ast.Name) and val.func.id == "max" and len(val.args) == 2 \
                    and not val.keywords:
                a, b = val.args
                if (f.rd(a) == f.rd(tgt) and is_probe(b)) or (f.rd(b) == f.rd(tgt) and is_probe(a)):
                    updates += 1
                    continue
            if isinstance(val, ast.IfExp):
                kind, lits = A.bool_lits(val.test, f.sc)
                if len(lits) == 1 and lits[0].cmp:
                    op, big, small = A.norm_compare(lits[0].cmp)
                    if op in (ast.Gt, ast.GtE) and {f.rd(big), f.rd(small)} == {f.rd(val.body), f.rd(val.orelse)} \
                            and f.rd(val.body) == f.rd(big) and (is_probe(big) or is_probe(small)) \
                            and f.rd(tgt) in (f.rd(big), f.rd(small)):
                        updates += 1
                        continue
            f.fail("width update is not a running maximum")
    if updates != 1:
        f.fail("expected one running-maximum update of the width list, found %d" % updates)


def max_port_len_probe(base, cls, flags, C, static_error):
    """fall-back when the statements of `_get_max_port_len` are not of a shape read statically (e.g. the
    loops became comprehensions): the method is pure apart from `self._machine_model.get_ports()`, so it
    is called in isolation on probe kernels and must BE  width[i] = max(m, max over the kernel of
    len('%.<d>f' % pressure[i]))  for the m and d it shows on two probes."""
    import itertools

    class _Model:
        def get_ports(self):
            return ["0", "1", "2DV"]

    class _Form:
        def __init__(self, pp):
            self.port_pressure = pp

    call = sandboxed(base, cls, "_get_max_port_len", flags, _machine_model=_Model())
    why = "Frontend._get_max_port_len: not read statically (%s) and, called in isolation, " % static_error
    r0 = call([])
    if not (isinstance(r0, list) and len(r0) == 3 and len(set(r0)) == 1 and isinstance(r0[0], int)
            and not isinstance(r0[0], bool) and 0 <= r0[0] < 13):
        raise TranslateError(why + "an empty kernel does not give one small width per port: %r" % (r0,))
    m = r0[0]
    big = call([_Form([123456789012.0, 0.0, 0.0])])
    if not (isinstance(big, list) and len(big) == 3 and isinstance(big[0], int) and 12 <= big[0] <= 40 and big[1:] == [m, m]):
        raise TranslateError(why + "a wide value does not widen exactly its own column: %r" % (big,))
    d = max(big[0] - 13, 0)
    values = [0.0, 0.5, 9.999, 99.995, 2.675, 1234.5, 123456.789, 1e7 + 0.125, 5, 0.004, 99999.9996]
    kernels = [[]]
    for a, b, c in itertools.islice(itertools.permutations(values, 3), 0, None, 37):
        kernels.append([_Form([a, b, c])])
    for k in range(0, len(values) - 3):
        kernels.append([_Form(list(values[k:k + 3])), _Form(list(values[k + 1:k + 4][::-1])), _Form([0.0, 0.0, 0.0])])
    for kern in kernels:
        want = [max([m] + [len("%.*f" % (d, fm.port_pressure[i])) for fm in kern]) for i in range(3)]
        got = call(kern)
        if got != want:
            raise TranslateError(why + "it is not the running maximum of len('%%.%df' %% pressure) above %d: %r instead of %r"
                                 % (d, m, got, want))
    C["minPortLen"], C["portLenDecimals"] = m, d


def port_pressure(f, C):
    _, _, m = f.one_skel(r"\{:\.(\d+)f\}\{\} ", "fallback format")
    C["fallbackDecimals"] = int(m.group(1))
    sk = [s for _, _, s in f.roots]
    builder = [s for s in sk if s in ("{{:{}.{}f}}", "{{:{:d}.{:d}f}}", "{:{}.{}f}")]
    if len(builder) != 1:
        f.fail("cell format `{:<left>.<prec>f}` not found: %r" % sk)
    if sk.count("{} ") < 1 or sk.count("{} {} ") < 2:
        f.fail("cell format pieces changed: %r" % sk)
    odd = [s for s in sk if s not in ("{} ", "{} {} ", builder[0]) and not re.fullmatch(r"\{:\.(\d+)f\}\{\} ", s)
           and "{" in s]
    if odd:
        f.fail("unexpected format pieces: %r" % odd)
    # max(port_len[i] - left_len - K, 0)
    ks = []
    for n in A.walk_in_order(f.node):
        if isinstance(n, ast.Call) and isinstance(n.func, ast.Name) and n.func.id == "max" and len(n.args) == 2 \
                and not n.keywords:
            for a, b in (n.args, n.args[::-1]):
                try:
                    zero = A.const_eval(b, f.sc)
                except A.NotConst:
                    continue
                if zero != 0 or isinstance(zero, bool):
                    continue
                terms, c = A.linear(a, f.sc)
                coeffs = sorted(k for k, _ in terms.values())
                plus = [nd for k, nd in terms.values() if k == 1]
                if coeffs == [-1, 1] and isinstance(plus[0], ast.Subscript):
                    ks.append(-c)
    if len(ks) != 1:
        f.fail("precision expression max(port_len[i] - left_len - K, 0) not found")
    C["cellReserve"] = ks[0]
    sl = [n for n in ast.walk(f.node) if isinstance(n, ast.Subscript) and isinstance(n.slice, ast.Slice)]
    if len(sl) != 1 or sl[0].slice.lower is not None or sl[0].slice.step is not None or sl[0].slice.upper is None \
            or f.const(sl[0].slice.upper, "result slice") != -1:
        f.fail("result slice [:-1] not found")


def separator_list(f, C):
    C["groupSep"] = ord(f.default_of_last_param("default of separator_2"))
    uses = A.regex_uses(f.node, f.sc)
    want = A.regex_tree(r"\d+")
    if not uses or any(m != "search" or A.regex_tree(p) != want or fl is not None for m, p, fl, _ in uses):
        f.fail("regex: expected re.search(r'\\d+', ...) only")


def port_number_line(f, C):
    hs = f.self_calls("_get_separator_list")
    if len(hs) != 1:
        f.fail("call of _get_separator_list(sep, x) not found")
    call = hs[0]
    arg = call.args[1] if len(call.args) == 2 else None
    for k in call.keywords:
        if k.arg == "separator_2" and len(call.args) == 1:
            arg = k.value
    if arg is None:
        f.fail("call of _get_separator_list(sep, x) not found")
    C["headerGroupSep"] = ord(f.char(arg, "group separator of the header"))
    widths = []
    for n, t, s in f.roots:
        if s in ("{{:^{}s}}", "{{:^{:d}s}}"):
            widths.append(A.fields_of(t)[0].expr)
        else:
            for fld in A.fields_of(t):
                sp = fld.spec
                if len(sp) == 3 and sp[0] == "^" and isinstance(sp[1], A.Field) and sp[2] == "s":
                    widths.append(sp[1].expr)
    if len(widths) != 1:
        f.fail("centred width `length + K` not found")
    terms, k = A.linear(widths[0], f.sc)
    if sorted(c for c, _ in terms.values()) != [1]:
        f.fail("centred width `length + K` not found")
    C["headerPad"] = k


def lcd_cp_ports(f, C):
    _, _, m = f.one_skel(r"\{\} \{:>(\d+)\} \{\} \{:>(\d+)\} \{\}", "CP/LCD cell format")
    if m.group(1) != m.group(2):
        f.fail("CP and LCD widths differ")
    C["cellWidth"] = int(m.group(1))
    return f.default_of_last_param("separator default")


def combined_view(f, C, flags, lcdcp_sep):
    C["combinedTitle"] = f.title()
    # column separator: what _get_separator_list is called with
    sl = f.self_calls("_get_separator_list")
    if len(sl) != 1 or len(sl[0].args) != 1 or sl[0].keywords:
        f.fail("call of _get_separator_list(col_sep) not found")
    col_sep = f.char(sl[0].args[0], "col_sep")
    if lcdcp_sep != col_sep:
        f.fail("col_sep must equal the CP/LCD separator")
    C["colSep"] = ord(col_sep)

    # header line of the table: <filler> + port numbers + |  CP  | LCD  |
    pn = f.self_calls("_get_port_number_line")
    if len(pn) != 1:
        f.fail("call of _get_port_number_line not found")
    owners = [(n, t) for n, t, _ in f.roots if any(x is pn[0] for x in ast.walk(n))]
    if len(owners) != 1:
        f.fail("port line expression not found")
    t = owners[0][1]
    idx = [i for i, p in enumerate(t) if isinstance(p, A.Field) and p.expr is pn[0]]
    if len(idx) != 1 or not p_plain(t[idx[0]]):
        f.fail("port line expression not found")
    i = idx[0]
    before, after = t[:i], t[i + 1:]
    if len(before) > 1 or (before and not isinstance(before[0], str)) or len(after) != 1 or not isinstance(after[0], str):
        f.fail("port line is not <filler> + port numbers + <CP/LCD titles>")
    filler = before[0] if before else ""
    C["linenoFiller"] = filler
    cells = after[0].split(col_sep)
    if len(cells) != 4 or cells[0] != "" or cells[3] != "" or len(cells[1]) != len(cells[2]):
        f.fail("CP/LCD title cells: expected %r<CP>%r<LCD>%r with equal widths, got %r" % (col_sep, col_sep, col_sep, after[0]))
    w = len(cells[1])
    titles = [c.strip() for c in cells[1:3]]
    if any(format(tt, "^%d" % w) != c or not tt for tt, c in zip(titles, cells[1:3])):
        f.fail("CP/LCD titles are not centred in their cells: %r" % cells[1:3])
    C["cpTitleWidth"], C["cpTitle"], C["lcdTitle"] = w, titles[0], titles[1]

    # headline, centred over the first separator
    head = None  # (headline text, node of the width expression)
    for n, t, s in f.roots:
        if s == "{{:^{}}}":  # two-step: fmt = "{{:^{}}}".format(width); fmt.format(headline)
            users = [c for c in f.calls("format") if f.sc.deref(c.func.value)[0] is n]
            if len(users) != 1 or len(users[0].args) != 1 or users[0].keywords:
                f.fail("headline centring format is not applied once")
            head = (users[0].args[0], A.fields_of(t)[0].expr, users[0])
        for fld in A.fields_of(t):
            if len(fld.spec) == 2 and fld.spec[0] == "^" and isinstance(fld.spec[1], A.Field) and fld.conv is None:
                head = (fld.expr, fld.spec[1].expr, n)
    for c in f.calls("center"):
        if len(c.args) == 1 and not c.keywords:
            head = (c.func.value, c.args[0], c)
    if head is None:
        f.fail("headline centring format not found")
    C["headline"] = f.const(head[0], "headline", str)
    wd, _ = f.sc.deref(head[1])
    if not (isinstance(wd, ast.Call) and isinstance(wd.func, ast.Name) and wd.func.id == "len" and len(wd.args) == 1
            and isinstance(wd.args[0], ast.Name)):
        f.fail("headline is not centred over len(<separator>)")
    sep_name = wd.args[0].id
    # the statements that build that separator: top-level statements on it before the width is taken
    stop = wd
    while id(stop) in f.parents and f.parents[id(stop)] is not f.node:
        stop = f.parents[id(stop)]
    stmts = []
    for st in f.node.body:
        if st is stop:
            break
        tgt = None
        if isinstance(st, ast.Assign) and len(st.targets) == 1 and isinstance(st.targets[0], ast.Name):
            tgt = st.targets[0].id
        elif isinstance(st, ast.AugAssign) and isinstance(st.target, ast.Name):
            tgt = st.target.id
        if tgt == sep_name:
            stmts.append(st)
    if not stmts:
        f.fail("statements building the first separator not found")
    mp = f.self_calls("_get_max_port_len")
    if len(mp) != 1 or len(mp[0].args) != 1 or not isinstance(mp[0].args[0], ast.Name) \
            or not isinstance(f.parents.get(id(mp[0])), ast.Assign) \
            or not isinstance(f.parents[id(mp[0])].targets[0], ast.Name):
        f.fail("`port_len = self._get_max_port_len(kernel)` not found")
    pl_name, k_name = f.parents[id(mp[0])].targets[0].id, mp[0].args[0].id
    consts = {}
    for name, b in f.sc.binds(f.node).items():
        if len(b) == 1 and b[0][0] == "assign" and name not in (sep_name, pl_name, k_name):
            try:
                consts[name] = A.const_eval(b[0][1], f.sc)
            except A.NotConst:
                pass

    class _K:  # stand-in for an instruction form
        def __init__(self, n):
            self.line_number = n

    def sep_len(port_len, last):
        loc = dict(consts)
        loc.update({pl_name: port_len, k_name: [_K(last)]})
        g = {"__builtins__": dict(A.SAFE_BUILTINS)}
        g.update(A.module_constants(f.sc))
        try:
            exec(compile(ast.Module(body=stmts, type_ignores=[]), "<gen>", "exec"), g, loc)
        except Exception as ex:  # noqa
            f.fail("separator statements not executable: %s" % ex)
        if not isinstance(loc.get(sep_name), str) or set(loc[sep_name]) - {"-"}:
            f.fail("separator is not made of dashes")
        return len(loc[sep_name])

    k0 = sep_len([], 7) - 1
    for pl, last in (([4, 5, 7], 123), ([4], 9), ([6, 6], 10000)):
        if sep_len(pl, last) != sum(x + 3 for x in pl) + len(str(last)) + k0:
            f.fail("separator length is not Σ(len+3) + digits + K")
    C["sepTail"] = k0

    # rows and totals
    _, _, m = f.one_skel(r"\{:(\d+)d\} \{\}\{\} \{\} \{\}\n", "row format")
    C["rowNumWidth"] = int(m.group(1))
    _, _, m = f.one_skel(r"(.*)\{\} \{:>(\d+)\}  \{:>(\d+)\}  \n", "totals format")
    if m.group(2) != m.group(3):
        f.fail("CP and LCD total widths differ")
    if m.group(1) != esc(filler):
        f.fail("totals line does not start with the line-number filler")
    C["sumWidth"] = int(m.group(2))
    totals_node = f.skel_matches(r"(.*)\{\} \{:>(\d+)\}  \{:>(\d+)\}  \n")[0][0]

    # `if not ignore_unknown and TP_UNKWN in flags: missing-instruction error  else: totals`
    me = f.self_calls("_missing_instruction_error")
    if len(me) != 1:
        f.fail("call of _missing_instruction_error not found")
    unk = None
    for n in A.walk_in_order(f.node):
        if not isinstance(n, ast.If):
            continue
        kind, lits = A.bool_lits(n.test, f.sc)
        if len(lits) != 2:
            continue
        flagl = [l for l in lits if l.cmp and l.cmp[0] in (ast.In, ast.NotIn)]
        optl = [l for l in lits if not l.cmp and isinstance(l.expr, ast.Name) and l.expr.id == "ignore_unknown"]
        if len(flagl) != 1 or len(optl) != 1:
            continue
        fl, opt = flagl[0], optl[0]
        present = fl.cmp[0] is ast.In
        then_has = any(x is me[0] for st in n.body for x in ast.walk(st))
        else_has = any(x is me[0] for st in n.orelse for x in ast.walk(st))
        # condition of the error branch must be: (not ignore_unknown) and (flag present)
        if kind == "and" and not opt.pos and present and then_has and not else_has:
            ok_else = n.orelse
        elif kind == "or" and opt.pos and not present and else_has and not then_has:
            ok_else = n.body
        else:
            f.fail("`not ignore_unknown and TP_UNKWN in flags` does not select the missing-instruction error")
        # the totals are produced only when the error is not: in the other branch, or after an
        # error branch that returns
        in_other = any(x is totals_node for st in ok_else for x in ast.walk(st))
        err_branch = n.body if ok_else is n.orelse else n.orelse
        returns = bool(err_branch) and isinstance(err_branch[-1], ast.Return)
        after = False
        par = f.parents.get(id(n))
        body = getattr(par, "body", [])
        if n in body:
            after = any(x is totals_node for st in body[body.index(n) + 1:] for x in ast.walk(st))
        if not (in_other or (returns and after and not ok_else)):
            f.fail("totals line is not the alternative of the missing-instruction error")
        unk = const_flag(f, fl.cmp[1], flags)
    if unk is None:
        f.fail("`not ignore_unknown and TP_UNKWN in flags` test not found")
    C["unknownFlag"] = unk


def p_plain(fld):
    return fld.conv is None and not fld.spec


def const_flag(f, node, flags):
    v = f.const(node, "flag", str)
    if v not in flags.values():
        f.fail("expected an INSTR_FLAGS value at line %s, got %r" % (getattr(node, "lineno", "?"), v))
    return v


# --------------------------------------------------------------------------- executed helpers
class _Flags:
    pass


def sandboxed(base, cls, name, flags, **self_attrs):
    """the method `name` compiled alone, as a callable of its arguments WITHOUT self (a stub `self`
    is supplied unless the method is a staticmethod)"""
    fn = A.find_method(cls, name)
    what = "%s.%s" % (cls.name, name)
    ns = _Flags()
    ns.__dict__.update(flags)
    f = A.sandbox_function(fn, base.at(cls=cls, fn=fn), {"INSTR_FLAGS": ns})
    stub = A.Stub(**A.class_constants(base, cls))
    stub.__dict__.update(self_attrs)
    static = any(isinstance(d, ast.Name) and d.id == "staticmethod" for d in fn.decorator_list)

    def call(*args):
        return A.call_pure(what, f, *(args if static else (stub,) + args))

    return call


def missing_error(base, cls, flags, C):
    what = "Frontend._missing_instruction_error"
    call = sandboxed(base, cls, "_missing_instruction_error", flags)
    r1, r2, r5 = call(7), call(42), call(97531)
    if not all(isinstance(r, str) for r in (r1, r2, r5)) or "97531" not in r5:
        raise TranslateError("%s: result is not a text with the amount in it" % what)
    pre = r5[: r5.index("97531")]
    if not (r1.startswith(pre + "7") and r2.startswith(pre + "42")):
        raise TranslateError("%s: text before the amount varies" % what)
    rest1, rest2 = r1[len(pre) + 1:], r2[len(pre) + 2:]
    k = 0
    while k < min(len(rest1), len(rest2)) and rest1[-1 - k] == rest2[-1 - k]:
        k += 1
    post = rest1[len(rest1) - k:].lstrip("-")
    mid = rest1[: len(rest1) - len(post) - 1]
    for a in (7, 42, 97531, 100, 0, 123456789012):
        if call(a) != pre + str(a) + mid + "-" * len(str(a)) + post:
            raise TranslateError("%s: not of the form <pre>{amount}<mid>{'-' * len(str(amount))}<post>" % what)
    C["missingPre"], C["missingMid"], C["missingPost"] = pre, mid, post


def user_warnings(base, cls, flags, C):
    what = "Frontend._user_warnings_header"
    fn = sandboxed(base, cls, "_user_warnings_header", flags)
    r = {(a, l): fn(a, l) for a in (False, True) for l in (False, True)}
    if not all(isinstance(x, str) for x in r.values()) or r[False, False] != "\n":
        raise TranslateError("%s: without warnings the result is not one newline" % what)
    arch, length = r[True, False][:-1], r[False, True][:-1]
    if r[True, False] != arch + "\n" or r[False, True] != length + "\n" or r[True, True] != arch + length + "\n" \
            or not arch or not length:
        raise TranslateError("%s: not of the form [arch text][length text]\\n" % what)
    C["archWarning"], C["lengthWarning"] = arch, length
    what = "Frontend._user_warnings_footer"
    fn = sandboxed(base, cls, "_user_warnings_footer", flags)
    off, on = fn(False), fn(True)
    if off != "\n\n" or not isinstance(on, str) or len(on) < 3 or on[0] != "\n" or on[-1] != "\n":
        raise TranslateError("%s: not of the form \\n[lcd text]\\n" % what)
    C["lcdWarning"] = on[1:-1]


def flag_symbols(base, cls, flags, C):
    import itertools

    what = "Frontend._get_flag_symbols"
    fn = sandboxed(base, cls, "_get_flag_symbols", flags)
    call = lambda fl: fn(list(fl))  # noqa: E731
    if call([]) != " ":
        raise TranslateError("%s: no flag does not give one blank" % what)
    vals = list(dict.fromkeys(flags.values()))
    sym = {}
    for v in vals:
        s = call([v])
        if s == " ":
            continue
        if not isinstance(s, str) or len(s) != 1:
            raise TranslateError("%s: symbol of %s is not one character: %r" % (what, v, s))
        sym[v] = s
    if not sym or len(set(sym.values())) != len(sym):
        raise TranslateError("%s: symbols not found or not distinct: %r" % (what, sym))
    everything = call(vals)
    if sorted(everything) != sorted(sym.values()):
        raise TranslateError("%s: symbols of all flags together are not the single symbols: %r" % (what, everything))
    order = sorted(sym, key=lambda v: everything.index(sym[v]))
    if len(order) <= 8:
        for k in range(len(order) + 1):
            for sub in itertools.combinations(order, k):
                for probe in (list(sub), list(reversed(sub))):
                    if call(probe) != ("".join(sym[v] for v in order if v in sub) or " "):
                        raise TranslateError("%s: result is not the symbols of the present flags in a fixed order" % what)
    C["flagSymbols"] = [(ord(sym[v]), v) for v in order]
    return fn


def symbol_map(base, cls, flags, C, flag_fn):
    what = "Frontend._symbol_map"
    text = sandboxed(base, cls, "_symbol_map", flags, _get_flag_symbols=flag_fn)()
    if not isinstance(text, str) or not text.endswith("\n"):
        raise TranslateError("%s: result is not a sequence of lines" % what)
    by_sym = {chr(c): v for c, v in C["flagSymbols"]}
    entries = []
    for line in text[:-1].split("\n"):
        m = re.fullmatch(r" (.) - (.*)", line)
        if not m or m.group(1) not in by_sym:
            raise TranslateError("%s: line is not ` <symbol> - <text>`: %r" % (what, line))
        entries.append((by_sym[m.group(1)], m.group(2)))
    keys = [k for k, _ in entries]
    if keys != sorted(keys) or len(set(keys)) != len(keys) or not entries:
        raise TranslateError("%s: lines are not in the order of the sorted flags" % what)
    C["symbolTexts"] = A.canon_order(entries, [v for _, v in C["flagSymbols"]], key=lambda e: e[0])


# --------------------------------------------------------------------------- more static pieces
def lcd_list(f, C):
    C["lcdTitle2"] = f.title()
    _, _, m = f.one_skel(r"\{:(\d+)d\} \{\} \{:(\d+)\.(\d+)f\} \{\} \{:(\d+)\}\{\} \{\}\n", "LCD list line format")
    C["lcdNumWidth"], C["lcdLatWidth"], C["lcdLatDecimals"], C["lcdRootWidth"] = [int(g) for g in m.groups()]
    if f.default_of_last_param("separator default") != chr(C["colSep"]):
        f.fail("separator default differs from col_sep")


def header_report(f, C):
    joined = "".join(s for _, _, s in f.roots)
    m = re.match(r"((?:[^{}\n]|\{\{|\}\})* - )\{\}\n" + r"((?:[^{}\n]|\{\{|\}\})+)\{\}\n" * 3, joined)
    if not m:
        f.fail("title line and three labelled lines expected, got %r" % joined)
    C["headerTitle"] = unesc(m.group(1))
    cells = [unesc(g) for g in m.groups()[1:]]
    if len({len(c) for c in cells}) != 1:
        f.fail("labels are not padded to one width: %r" % cells)
    C["headerAdjust"] = len(cells[0])
    C["headerLabels"] = [c.rstrip(" ") for c in cells]
    if any(not l for l in C["headerLabels"]):
        f.fail("empty label")


def _dict_entry(f, node, key):
    """the expression stored under the constant `key` of a dict display / `dict(...)` call, else None"""
    node = f.sc.deref(node)[0]
    if isinstance(node, ast.Dict):
        for k, v in zip(node.keys, node.values):
            if k is not None and A.is_const(k, f.sc) and A.const_eval(k, f.sc) == key:
                return v
    if isinstance(node, ast.Call) and isinstance(node.func, ast.Name) and node.func.id == "dict":
        for k in node.keywords:
            if k.arg == key:
                return k.value
        for a in node.args:
            v = _dict_entry(f, a, key)
            if v is not None:
                return v
    return None


def dict_warnings(f, C, flags):
    """`full_analysis_dict`: the list under "Warnings" as a FUNCTION of the three warning parameters and the
    kernel's flags.  The statements that can influence that list (backward slice, astutil_G5) are compiled
    alone and run on every combination of the parameters with probe kernels; the result must be
        [arch name if arch_warning] + [length name if length_warning] + [lcd name if lcd_warning]
        + [unknown name if <unknown flag> in some instruction's flags]
    for four fixed names.  How the list is built (if/append chain, filtering comprehension over a table,
    `+=`, conditional expressions, a dict built incrementally) does not matter; a list that depends on anything
    else (the graph, the machine model) cannot be run in isolation and fails loudly."""
    top = G5.body_without_docstring(f.node)
    # the expression stored under "Warnings" and the statements before it
    target = None
    for i, st in enumerate(top):
        if isinstance(st, ast.Return) and st.value is not None:
            v = _dict_entry(f, st.value, "Warnings")
            if v is not None:
                target = (v, top[:i])
                # a dict bound to a local first: the entry is evaluated where the dict is built
                if isinstance(st.value, ast.Name):
                    for j, s2 in enumerate(top[:i]):
                        if isinstance(s2, ast.Assign) and any(isinstance(t, ast.Name) and t.id == st.value.id for t in s2.targets):
                            target = (v, top[:j])
        elif isinstance(st, ast.Assign) and len(st.targets) == 1 and isinstance(st.targets[0], ast.Subscript) \
                and isinstance(st.targets[0].value, ast.Name) and A.is_const(st.targets[0].slice, f.sc) \
                and A.const_eval(st.targets[0].slice, f.sc) == "Warnings":
            if target is not None:
                f.fail("the key 'Warnings' is stored twice")
            target = (st.value, top[:i])
    if target is None:
        f.fail("the entry 'Warnings' of the returned dict not found at the top level of the function")
    expr, before = target
    params = [a.arg for a in f.node.args.args]
    need = ["kernel", "arch_warning", "length_warning", "lcd_warning"]
    if any(p not in params for p in need):
        f.fail("parameters %r expected" % need)
    sl, relevant = G5.backward_slice(before, {n.id for n in ast.walk(expr) if isinstance(n, ast.Name)})
    import copy as _copy
    body = [_copy.deepcopy(s) for s in sl] + [ast.Return(value=_copy.deepcopy(expr))]
    fn = _copy.deepcopy(f.node)
    fn.name, fn.body, fn.decorator_list, fn.returns = "__warnings__", body, [], None
    ns = _Flags()
    ns.__dict__.update(flags)
    call = A.sandbox_function(fn, f.sc, {"INSTR_FLAGS": ns})
    stub = A.Stub()
    extra = {p: None for p in params[1:] if p not in need}

    class _Form:
        def __init__(self, fl):
            self.flags = list(fl)

    def run(arch, length, lcd, kernel_flags):
        kw = dict(extra)
        kw.update(kernel=[_Form(x) for x in kernel_flags], arch_warning=arch, length_warning=length, lcd_warning=lcd)
        r = A.call_pure("%s (statements that build the warning list)" % f.name, call, stub, **kw)
        if not isinstance(r, list) or not all(isinstance(x, str) for x in r):
            f.fail("the warning list is not a list of names: %r" % (r,))
        return r

    unk = C["unknownFlag"]
    others = [v for v in dict.fromkeys(flags.values()) if v != unk]
    plain = [[], [others[0]] if others else []]
    if run(False, False, False, plain) != []:
        f.fail("warning list is not empty without any warning")
    singles = [run(True, False, False, plain), run(False, True, False, plain), run(False, False, True, plain),
               run(False, False, False, [[], [unk]])]
    if any(len(x) != 1 for x in singles) or len({x[0] for x in singles}) != 4:
        f.fail("one distinct warning name per condition expected, got %r" % singles)
    names = [x[0] for x in singles]
    kernels = [[], [[]], plain, [[unk]], [[], [unk]], [[unk], []], [others, others], [others + [unk]], [[unk, unk]]]
    for arch in (False, True):
        for length in (False, True):
            for lcd in (False, True):
                for k in kernels:
                    want = [n for n, on in zip(names, (arch, length, lcd, any(unk in fl for fl in k))) if on]
                    got = run(arch, length, lcd, k)
                    if got != want:
                        f.fail("warning list for arch=%s length=%s lcd=%s flags=%r is %r, the model has %r"
                               % (arch, length, lcd, k, got, want))
    C["dictWarnings"] = names


# --------------------------------------------------------------------------- osaca.py
def default_archs(tm, C):
    sc = A.Scope(tm)
    v = sc.single(tm, "DEFAULT_ARCHS")
    if v is None:
        raise TranslateError("DEFAULT_ARCHS is not bound once at module level")
    da = A.const_or_fail(v, sc, "DEFAULT_ARCHS", dict)
    if not da or not all(isinstance(k, str) and isinstance(x, str) for k, x in da.items()):
        raise TranslateError("DEFAULT_ARCHS dict not found")
    # order-free if the name is only ever subscripted / .get()-ed
    par = {}
    for n in ast.walk(tm):
        for c in ast.iter_child_nodes(n):
            par[id(c)] = n
    free = True
    for n in ast.walk(tm):
        if isinstance(n, ast.Name) and n.id == "DEFAULT_ARCHS" and isinstance(n.ctx, ast.Load):
            p = par.get(id(n))
            if isinstance(p, ast.Subscript) and p.value is n and isinstance(p.ctx, ast.Load):
                continue
            if isinstance(p, ast.Attribute) and p.attr == "get":
                continue
            if isinstance(p, ast.Compare) and all(isinstance(o, (ast.In, ast.NotIn)) for o in p.ops) and p.left is not n:
                continue
            free = False
    C["defaultArchs"] = sorted(da.items()) if free else list(da.items())


def inspect_flags(tm, C):
    f = Fn(A.Scope(tm), None, "inspect", inline_private=True)
    sc = f.sc

    def is_args(node, attr):
        return (isinstance(node, ast.Attribute) and node.attr == attr and isinstance(node.value, ast.Name)
                and node.value.id == "args")

    # kernel / parsed code: kernel = reduce_to_section(parsed_code, isa)
    red = [n for n in A.walk_in_order(f.node) if isinstance(n, ast.Call) and isinstance(n.func, ast.Name)
           and n.func.id == "reduce_to_section"]
    if len(red) != 1 or not red[0].args or not isinstance(red[0].args[0], ast.Name) \
            or not isinstance(f.parents.get(id(red[0])), ast.Assign) \
            or not isinstance(f.parents[id(red[0])].targets[0], ast.Name):
        f.fail("`kernel = reduce_to_section(parsed_code, isa)` not found")
    kname, pname = f.parents[id(red[0])].targets[0].id, red[0].args[0].id

    def len_of(node):
        d, _ = sc.deref(node)
        if isinstance(d, ast.Call) and isinstance(d.func, ast.Name) and d.func.id == "len" and len(d.args) == 1 \
                and isinstance(d.args[0], ast.Name):
            return d.args[0].id
        return None

    # ---- the two flags as DECISION TREES over the tests of the enclosing ifs (astutil_G5.ite_value): the value
    # the local has where full_analysis is called.  `x = True if T else False`, `if T: x = True else: x = False`,
    # `x = False; if T: x = True`, `x = T`, `x = not (not T)`, nested ifs instead of `and` are the same function.
    body = G5.body_without_docstring(f.node)

    def tree_of(arg, call):
        if not isinstance(arg, ast.Name):
            return ("leaf", arg)
        stop = call
        while id(stop) in f.parents and f.parents[id(stop)] is not f.node:
            stop = f.parents[id(stop)]
        return G5.ite_value(body, arg.id, stop=stop)

    calls = [c for c in f.calls("full_analysis") if any(k.arg in ("arch_warning", "length_warning") for k in c.keywords)]
    if len(calls) != 1:
        f.fail("full_analysis(arch_warning=..., length_warning=...) not found")
    kws = {k.arg: k.value for k in calls[0].keywords}
    thresholds = set()

    def atom(world):
        def decide(node):
            d, _ = sc.deref(node) if isinstance(node, ast.Name) else (node, None)
            if d is not node and not isinstance(d, ast.Constant):
                return G5.bool_eval(d, decide)       # a hoisted test
            if isinstance(node, ast.Name) and d is not node:
                return bool(d.value)
            if is_args(node, "lines"):
                return world["lines"]
            if is_args(node, "arch"):
                return world["arch"]
            if isinstance(node, ast.Compare) and len(node.ops) == 1:
                op, a, b = type(node.ops[0]), node.left, node.comparators[0]
                if op in (ast.Eq, ast.NotEq) and {len_of(a), len_of(b)} == {kname, pname}:
                    return world["same"] == (op is ast.Eq)
                if op in (ast.Gt, ast.GtE, ast.Lt, ast.LtE):
                    if len_of(b) == kname and len_of(a) != kname:
                        a, b, op = b, a, {ast.Gt: ast.Lt, ast.Lt: ast.Gt, ast.GtE: ast.LtE, ast.LtE: ast.GtE}[op]
                    if len_of(a) == kname:
                        t = A.const_or_fail(b, sc, "inspect: length threshold", int)
                        if isinstance(t, bool):
                            f.fail("length threshold is not a number")
                        # as `len(kernel) > thr`
                        thr, pos = {ast.Gt: (t, True), ast.GtE: (t - 1, True), ast.LtE: (t, False), ast.Lt: (t - 1, False)}[op]
                        thresholds.add(thr)
                        return world["long"] == pos
            return None
        return decide

    def value(tree, world, what):
        leaf = G5.eval_tree(tree, lambda test: G5.bool_eval(test, atom(world)))
        if leaf[0] != "leaf":
            f.fail("%s has no value on the path %r" % (what, world))
        return G5.bool_eval(leaf[1], atom(world))

    import itertools
    if set(kws) < {"arch_warning", "length_warning"}:
        f.fail("full_analysis(arch_warning=..., length_warning=...) not found")
    try:
        t_arch = tree_of(kws["arch_warning"], calls[0])
        for arch in (False, True):
            if value(t_arch, {"arch": arch, "lines": False, "same": False, "long": False}, "print_arch_warning") != (not arch):
                f.fail("print_arch_warning is not `False if args.arch else True`")
    except TranslateError as ex:
        if "print_arch_warning is not" in str(ex):
            raise
        f.fail("print_arch_warning is not `False if args.arch else True` (%s)" % ex)
    try:
        t_len = tree_of(kws["length_warning"], calls[0])
        for lines, same, long_ in itertools.product((False, True), repeat=3):
            for arch in (False, True):
                w = {"arch": arch, "lines": lines, "same": same, "long": long_}
                if value(t_len, w, "print_length_warning") != ((not lines) and same and long_):
                    f.fail("print_length_warning is not `not args.lines and len(kernel) == len(parsed_code) and "
                           "len(kernel) > N` (differs for %r)" % w)
    except TranslateError as ex:
        if "print_length_warning is not" in str(ex):
            raise
        f.fail("print_length_warning: expected False under --lines and `len(kernel) == len(parsed_code) and "
               "len(kernel) > N` otherwise (%s)" % ex)
    if len(thresholds) != 1:
        f.fail("length-warning threshold not found (or several: %r)" % sorted(thresholds))
    C["lengthThreshold"] = thresholds.pop()


# --------------------------------------------------------------------------- the generator
@generator("ReportConsts", [FRONT, MAIN, ISA, "../verif-self:tools/gen/reportconsts.py",
                            "../verif-self:tools/gen/astutil_G3.py", "../verif-self:tools/gen/astutil_G5.py"])
def gen_reportconsts():
    tf = parse(FRONT)
    flags = instr_flags()
    cls = A.find_class(tf, "Frontend")
    base = A.Scope(tf, ext={"INSTR_FLAGS": flags})
    C = {}

    try:
        max_port_len(Fn(base, cls, "_get_max_port_len"), C)
    except TranslateError as ex:
        max_port_len_probe(base, cls, flags, C, ex)
    port_pressure(Fn(base, cls, "_get_port_pressure"), C)
    separator_list(Fn(base, cls, "_get_separator_list"), C)
    port_number_line(Fn(base, cls, "_get_port_number_line"), C)
    lcdcp_sep = lcd_cp_ports(Fn(base, cls, "_get_lcd_cp_ports"), C)
    combined_view(Fn(base, cls, "combined_view"), C, flags, lcdcp_sep)
    missing_error(base, cls, flags, C)
    user_warnings(base, cls, flags, C)
    flag_fn = flag_symbols(base, cls, flags, C)
    symbol_map(base, cls, flags, C, flag_fn)
    lcd_list(Fn(base, cls, "loopcarried_dependencies"), C)
    header_report(Fn(base, cls, "_header_report"), C)
    dict_warnings(Fn(base, cls, "full_analysis_dict", inline_private=True), C, flags)

    tm = parse(MAIN)
    default_archs(tm, C)
    inspect_flags(tm, C)

    # ---- emit
    nat_keys = ["minPortLen", "portLenDecimals", "fallbackDecimals", "cellReserve", "colSep", "groupSep",
                "headerGroupSep", "headerPad", "cpTitleWidth", "sepTail", "rowNumWidth", "cellWidth", "sumWidth",
                "lcdNumWidth", "lcdLatWidth", "lcdLatDecimals", "lcdRootWidth", "lengthThreshold", "headerAdjust"]
    txt_keys = ["combinedTitle", "linenoFiller", "headline", "cpTitle", "lcdTitle", "missingPre", "missingMid",
                "missingPost", "archWarning", "lengthWarning", "lcdWarning", "unknownFlag", "lcdTitle2", "headerTitle"]
    out = [HEADER, "namespace OsacaVerif.Gen.Report\n"]
    for k in nat_keys:
        if not isinstance(C[k], int) or isinstance(C[k], bool) or C[k] < 0:
            raise TranslateError("%s is not a natural number: %r" % (k, C[k]))
        out.append("def %s : Nat := %d" % (k, C[k]))
    out.append("")
    for k in txt_keys:
        v = C[k]
        if not isinstance(v, str) or not v.isascii():
            raise TranslateError("%s is not ASCII text" % k)
        out.append("/-- %s -/" % repr(v).replace("-/", "- /"))
        out.append("def %s : List Nat := %s" % (k, txt(v)))
    for k in ("headerLabels", "dictWarnings"):
        if not all(isinstance(x, str) and x.isascii() for x in C[k]):
            raise TranslateError("%s is not ASCII text" % k)
    out.append("")
    out.append("/-- `_get_flag_symbols`: (symbol, flag) in the order the symbols are appended -/")
    out.append("def flagSymbols : List (Nat × List Nat) := [%s]" % ", ".join("(%d, %s)" % (c, txt(f)) for c, f in C["flagSymbols"]))
    out.append("/-- `_symbol_map`: flag ↦ explanation, in source order -/")
    out.append("def symbolTexts : List (List Nat × List Nat) := [%s]" % ",\n  ".join("(%s, %s)" % (txt(f), txt(t)) for f, t in C["symbolTexts"]))
    out.append("/-- `DEFAULT_ARCHS` -/")
    out.append("def defaultArchs : List (List Nat × List Nat) := [%s]" % ", ".join("(%s, %s)" % (txt(k), txt(v)) for k, v in C["defaultArchs"]))
    out.append("def headerLabels : List (List Nat) := [%s]" % ", ".join(txt(l) for l in C["headerLabels"]))
    out.append("/-- `Warnings` entries of full_analysis_dict: arch, length, LCD, unknown instruction -/")
    out.append("def dictWarnings : List (List Nat) := [%s]" % ", ".join(txt(l) for l in C["dictWarnings"]))
    out.append("\nend OsacaVerif.Gen.Report\n")
    return "\n".join(out)
