"""Gen/ReportConsts.lean: every literal of the report generator the C13 model and theorems use.

Sources: osaca/frontend.py (titles, warning texts, format strings and their widths, flag symbols,
symbol map), osaca/osaca.py (DEFAULT_ARCHS, the length-warning threshold and the shape of the two
warning flags), osaca/semantics/isa_semantics.py (INSTR_FLAGS values).

Literals are located by structure (the function they live in, the shape of the expression), format
strings are matched against the shape the model implements and only their numbers are taken; a
format string of a different shape is a TranslateError (= broken tie, the check then searches).
Constant string expressions (`"a" "b" + dashed_line`, `"-" * (2 * 6 + len(col_sep))`) are evaluated
with the function's own earlier constant assignments as environment.
"""
import ast
import re

from translate import TranslateError, generator, parse, find_func, txt, HEADER

FRONT = "osaca/frontend.py"
MAIN = "osaca/osaca.py"
ISA = "osaca/semantics/isa_semantics.py"

SAFE = {"len": len, "str": str, "max": max, "min": min, "sum": sum, "int": int}


def ceval(node, env):
    """evaluate a constant expression; TranslateError if it is not one"""
    try:
        code = compile(ast.Expression(body=node), "<gen>", "eval")
        e = dict(SAFE)
        e.update(env)
        return eval(code, {"__builtins__": {}}, e)
    except Exception as ex:  # noqa
        raise TranslateError("not a constant expression at line %s: %s" % (getattr(node, "lineno", "?"), ex))


def local_consts(fn, extra=None):
    """names assigned (top level of the function body, in order) to constant str/int expressions"""
    env = dict(extra or {})
    for st in fn.body:
        if isinstance(st, ast.Assign) and len(st.targets) == 1 and isinstance(st.targets[0], ast.Name):
            try:
                v = ceval(st.value, env)
            except TranslateError:
                continue
            if isinstance(v, (str, int)):
                env[st.targets[0].id] = v
    return env


def str_consts(fn):
    return [n.value for n in ast.walk(fn) if isinstance(n, ast.Constant) and isinstance(n.value, str)]


def one_match(fn, pattern, what):
    """the unique string literal of fn that fullmatches pattern"""
    hits = []
    for s in str_consts(fn):
        m = re.fullmatch(pattern, s, re.S)
        if m:
            hits.append(m)
    if not hits:
        raise TranslateError("%s: no literal of the expected shape %r" % (what, pattern))
    if len({h.group(0) for h in hits}) != 1:
        raise TranslateError("%s: several different literals match %r" % (what, pattern))
    return hits[0]


def instr_flags():
    t = parse(ISA)
    for node in ast.walk(t):
        if isinstance(node, ast.ClassDef) and node.name == "INSTR_FLAGS":
            out = {}
            for st in node.body:
                if isinstance(st, ast.Assign) and isinstance(st.value, ast.Constant) and isinstance(st.value.value, str):
                    out[st.targets[0].id] = st.value.value
            return out
    raise TranslateError("class INSTR_FLAGS not found")


def flag_attr(node, flags):
    if isinstance(node, ast.Attribute) and isinstance(node.value, ast.Name) and node.value.id == "INSTR_FLAGS":
        if node.attr in flags:
            return flags[node.attr]
    raise TranslateError("expected INSTR_FLAGS.<NAME> at line %s" % getattr(node, "lineno", "?"))


@generator("ReportConsts", [FRONT, MAIN, ISA])
def gen_reportconsts():
    tf = parse(FRONT)
    flags = instr_flags()
    C = {}

    # ---- _get_max_port_len: [4 for x in ports], "{:.2f}"
    fn = find_func(tf, "_get_max_port_len", "Frontend")
    mins = [n.elt.value for n in ast.walk(fn) if isinstance(n, ast.ListComp) and isinstance(n.elt, ast.Constant)
            and isinstance(n.elt.value, int)]
    if len(mins) != 1:
        raise TranslateError("_get_max_port_len: initial width list not found")
    C["minPortLen"] = mins[0]
    C["portLenDecimals"] = int(one_match(fn, r"\{:\.(\d+)f\}", "_get_max_port_len").group(1))
    n_fmt = sum(1 for s in str_consts(fn) if re.fullmatch(r"\{:\.(\d+)f\}", s))
    if n_fmt != 2:
        raise TranslateError("_get_max_port_len: expected the format literal twice (test and assignment)")
    cmp_ok = [n for n in ast.walk(fn) if isinstance(n, ast.Compare) and len(n.ops) == 1 and isinstance(n.ops[0], ast.Gt)]
    if len(cmp_ok) != 1:
        raise TranslateError("_get_max_port_len: expected one `>` comparison (running maximum)")

    # ---- _get_port_pressure
    fn = find_func(tf, "_get_port_pressure", "Frontend")
    C["fallbackDecimals"] = int(one_match(fn, r"\{:\.(\d+)f\}\{\} ", "_get_port_pressure fallback").group(1))
    sc = str_consts(fn)
    if sc.count(" {} ") != 2 or sc.count("{} ") != 1 or "{:" not in sc or "f}" not in sc or "." not in sc:
        raise TranslateError("_get_port_pressure: cell format pieces changed: %r" % sc)
    # max(port_len[i] - left_len - K, 0)
    ks = []
    for n in ast.walk(fn):
        if isinstance(n, ast.Call) and isinstance(n.func, ast.Name) and n.func.id == "max" and len(n.args) == 2:
            a, b = n.args
            if (isinstance(a, ast.BinOp) and isinstance(a.op, ast.Sub) and isinstance(a.right, ast.Constant)
                    and isinstance(a.left, ast.BinOp) and isinstance(a.left.op, ast.Sub)
                    and isinstance(a.left.right, ast.Name) and isinstance(a.left.left, ast.Subscript)
                    and isinstance(b, ast.Constant) and b.value == 0):
                ks.append(a.right.value)
    if len(ks) != 1:
        raise TranslateError("_get_port_pressure: precision expression max(port_len[i] - left_len - K, 0) not found")
    C["cellReserve"] = ks[0]
    # the zero test and the slice [:-1]
    sl = [n for n in ast.walk(fn) if isinstance(n, ast.Subscript) and isinstance(n.slice, ast.Slice)]
    if len(sl) != 1 or sl[0].slice.lower is not None or ceval(sl[0].slice.upper, {}) != -1:
        raise TranslateError("_get_port_pressure: result slice [:-1] not found")

    # ---- _get_separator_list / _get_port_number_line
    fn = find_func(tf, "_get_separator_list", "Frontend")
    if len(fn.args.defaults) != 1:
        raise TranslateError("_get_separator_list: default of separator_2 not found")
    C["groupSep"] = ord(ceval(fn.args.defaults[0], {}))
    one_match(fn, r"\\d\+", "_get_separator_list regex")
    fn = find_func(tf, "_get_port_number_line", "Frontend")
    hs = [n for n in ast.walk(fn) if isinstance(n, ast.Call) and isinstance(n.func, ast.Attribute)
          and n.func.attr == "_get_separator_list" and len(n.args) == 2]
    if len(hs) != 1:
        raise TranslateError("_get_port_number_line: call of _get_separator_list(sep, x) not found")
    C["headerGroupSep"] = ord(ceval(hs[0].args[1], {}))
    pads = [n.right.value for n in ast.walk(fn) if isinstance(n, ast.BinOp) and isinstance(n.op, ast.Add)
            and isinstance(n.left, ast.Name) and n.left.id == "length" and isinstance(n.right, ast.Constant)]
    if len(pads) != 1 or "{:^" not in str_consts(fn) or "s}" not in str_consts(fn):
        raise TranslateError("_get_port_number_line: centred width `length + K` not found")
    C["headerPad"] = pads[0]

    # ---- _get_lcd_cp_ports
    fn = find_func(tf, "_get_lcd_cp_ports", "Frontend")
    m = one_match(fn, r"\{\} \{:>(\d+)\} \{\} \{:>(\d+)\} \{\}", "_get_lcd_cp_ports")
    if m.group(1) != m.group(2):
        raise TranslateError("_get_lcd_cp_ports: CP and LCD widths differ")
    C["cellWidth"] = int(m.group(1))
    if len(fn.args.defaults) != 1:
        raise TranslateError("_get_lcd_cp_ports: separator default")
    lcdcp_sep = ceval(fn.args.defaults[0], {})

    # ---- combined_view
    fn = find_func(tf, "combined_view", "Frontend")
    env = local_consts(fn)
    for k in ("s", "lineno_filler", "col_sep", "headline"):
        if not isinstance(env.get(k), str):
            raise TranslateError("combined_view: constant `%s` not found" % k)
    if len(env["col_sep"]) != 1 or lcdcp_sep != env["col_sep"]:
        raise TranslateError("combined_view: col_sep must be one character and equal the CP/LCD separator")
    C["combinedTitle"] = env["s"]
    C["linenoFiller"] = env["lineno_filler"]
    C["colSep"] = ord(env["col_sep"])
    C["headline"] = env["headline"]
    # width of the first `separator` (used to centre the headline): statements on `separator`
    # before `headline_str` are executed for two layouts; it must be  Σ(len+3) + digits(last line) + K
    stmts = []
    for st in fn.body:
        tgt = None
        if isinstance(st, ast.Assign) and isinstance(st.targets[0], ast.Name):
            tgt = st.targets[0].id
        elif isinstance(st, ast.AugAssign) and isinstance(st.target, ast.Name):
            tgt = st.target.id
        if tgt == "headline_str":
            break
        if tgt in ("separator", "col_sep"):
            stmts.append(st)

    class _K:  # stand-in for an instruction form
        def __init__(self, n):
            self.line_number = n

    def sep_len(port_len, last):
        loc = {"port_len": port_len, "kernel": [_K(last)]}
        try:
            exec(compile(ast.Module(body=stmts, type_ignores=[]), "<gen>", "exec"), {"__builtins__": {}, **SAFE}, loc)
        except Exception as ex:  # noqa
            raise TranslateError("combined_view: separator statements not executable: %s" % ex)
        if set(loc["separator"]) - {"-"}:
            raise TranslateError("combined_view: separator is not made of dashes")
        return len(loc["separator"])

    k0 = sep_len([], 7) - 1
    for pl, last in (([4, 5, 7], 123), ([4], 9), ([6, 6], 10000)):
        if sep_len(pl, last) != sum(x + 3 for x in pl) + len(str(last)) + k0:
            raise TranslateError("combined_view: separator length is not Σ(len+3) + digits + K")
    C["sepTail"] = k0
    hl = [n for n in ast.walk(fn) if isinstance(n, ast.Constant) and n.value == "{{:^{}}}"]
    if len(hl) != 1:
        raise TranslateError("combined_view: headline centring format not found")
    # CP/LCD titles
    m = None
    for n in ast.walk(fn):
        if (isinstance(n, ast.Call) and isinstance(n.func, ast.Attribute) and n.func.attr == "format"
                and isinstance(n.func.value, ast.Constant) and isinstance(n.func.value.value, str)):
            mm = re.fullmatch(r"\{\}\{:\^(\d+)\}\{\}\{:\^(\d+)\}\{\}", n.func.value.value)
            if mm:
                if mm.group(1) != mm.group(2) or len(n.args) != 5:
                    raise TranslateError("combined_view: CP/LCD title format")
                m = (int(mm.group(1)), ceval(n.args[1], env), ceval(n.args[3], env))
    if m is None:
        raise TranslateError("combined_view: CP/LCD title format not found")
    C["cpTitleWidth"], C["cpTitle"], C["lcdTitle"] = m
    C["rowNumWidth"] = int(one_match(fn, r"\{:(\d+)d\} \{\}\{\} \{\} \{\}\n", "combined_view row format").group(1))
    m = one_match(fn, r" \{:>(\d+)\}  \{:>(\d+)\}  \n", "combined_view totals format")
    if m.group(1) != m.group(2):
        raise TranslateError("combined_view: CP and LCD total widths differ")
    C["sumWidth"] = int(m.group(1))
    # ignore_unknown test: `if not ignore_unknown and INSTR_FLAGS.TP_UNKWN in [...]`
    unk = None
    for n in ast.walk(fn):
        if isinstance(n, ast.If) and isinstance(n.test, ast.BoolOp) and isinstance(n.test.op, ast.And):
            a, b = n.test.values[0], n.test.values[-1]
            if (isinstance(a, ast.UnaryOp) and isinstance(a.op, ast.Not) and isinstance(a.operand, ast.Name)
                    and a.operand.id == "ignore_unknown" and isinstance(b, ast.Compare)
                    and isinstance(b.ops[0], ast.In) and len(n.test.values) == 2):
                unk = flag_attr(b.left, flags)
    if unk is None:
        raise TranslateError("combined_view: `not ignore_unknown and TP_UNKWN in flags` test not found")
    C["unknownFlag"] = unk

    # ---- _missing_instruction_error
    fn = find_func(tf, "_missing_instruction_error", "Frontend")
    tmpl = None
    for n in ast.walk(fn):
        if isinstance(n, ast.Call) and isinstance(n.func, ast.Attribute) and n.func.attr == "format":
            tmpl = ceval(n.func.value, {})
            args = n.args
    if tmpl is None or tmpl.count("{}") != 2 or len(args) != 2 or not isinstance(args[0], ast.Name):
        raise TranslateError("_missing_instruction_error: template with two {} not found")
    probe = ceval(args[1], {args[0].id: 12345})
    if probe != "-----":
        raise TranslateError("_missing_instruction_error: second argument is not '-' * len(str(amount))")
    C["missingPre"], C["missingMid"], C["missingPost"] = tmpl.split("{}")

    # ---- warnings
    fn = find_func(tf, "_user_warnings_header", "Frontend")
    env = local_consts(fn)
    if not isinstance(env.get("arch_text"), str) or not isinstance(env.get("length_text"), str):
        raise TranslateError("_user_warnings_header: arch_text / length_text not found")
    C["archWarning"], C["lengthWarning"] = env["arch_text"], env["length_text"]
    if env.get("warnings") != "":
        raise TranslateError("_user_warnings_header: warnings does not start empty")
    fn = find_func(tf, "_user_warnings_footer", "Frontend")
    env = local_consts(fn)
    if not isinstance(env.get("lcd_text"), str) or env.get("warnings") != "\n":
        raise TranslateError("_user_warnings_footer: lcd_text not found")
    C["lcdWarning"] = env["lcd_text"]

    # ---- flag symbols (order of the statements) and the symbol map
    fn = find_func(tf, "_get_flag_symbols", "Frontend")
    syms = []
    blank = None
    for st in fn.body:
        if isinstance(st, ast.AugAssign) and isinstance(st.value, ast.IfExp):
            ie = st.value
            if isinstance(ie.test, ast.Compare) and isinstance(ie.test.ops[0], ast.In):
                if ceval(ie.orelse, {}) != "":
                    raise TranslateError("_get_flag_symbols: else branch not empty")
                sym = ceval(ie.body, {})
                if len(sym) != 1:
                    raise TranslateError("_get_flag_symbols: symbol is not one character")
                syms.append((ord(sym), flag_attr(ie.test.left, flags)))
            else:
                blank = ceval(ie.body, {})
    if not syms or blank != " ":
        raise TranslateError("_get_flag_symbols: symbol statements not found")
    C["flagSymbols"] = syms
    fn = find_func(tf, "_symbol_map", "Frontend")
    smap = None
    for n in ast.walk(fn):
        if isinstance(n, ast.Dict) and n.keys:
            smap = [(flag_attr(k, flags), ceval(v, {})) for k, v in zip(n.keys, n.values)]
    if smap is None:
        raise TranslateError("_symbol_map: dict literal not found")
    one_match(fn, r" \{\} - \{\}\n", "_symbol_map line format")
    C["symbolTexts"] = smap

    # ---- LCD list
    fn = find_func(tf, "loopcarried_dependencies", "Frontend")
    env = local_consts(fn)
    if not isinstance(env.get("s"), str):
        raise TranslateError("loopcarried_dependencies: title not found")
    C["lcdTitle2"] = env["s"]
    m = one_match(fn, r"\{:(\d+)d\} \{\} \{:(\d+)\.(\d+)f\} \{\} \{:(\d+)\}\{\} \{\}\n", "LCD list line format")
    C["lcdNumWidth"], C["lcdLatWidth"], C["lcdLatDecimals"], C["lcdRootWidth"] = [int(g) for g in m.groups()]
    if len(fn.args.defaults) != 1 or ceval(fn.args.defaults[0], {}) != chr(C["colSep"]):
        raise TranslateError("loopcarried_dependencies: separator default differs from col_sep")

    # ---- header
    fn = find_func(tf, "_header_report", "Frontend")
    env = local_consts(fn)
    C["headerAdjust"] = env.get("adjust")
    title = one_match(fn, r"(.*) - \{\}\n", "_header_report title").group(0)
    C["headerTitle"] = title[:-3]
    labels = []
    for n in ast.walk(fn):
        if (isinstance(n, ast.Call) and isinstance(n.func, ast.Attribute) and n.func.attr == "ljust"
                and isinstance(n.func.value, ast.Constant)):
            labels.append((n.lineno, n.func.value.value))
    labels = [l for _, l in sorted(labels)]
    if len(labels) != 3 or not isinstance(C["headerAdjust"], int):
        raise TranslateError("_header_report: three ljust labels expected")
    C["headerLabels"] = labels

    # ---- dict warnings
    fn = find_func(tf, "full_analysis_dict", "Frontend")
    dw = []
    for n in ast.walk(fn):
        if (isinstance(n, ast.Call) and isinstance(n.func, ast.Attribute) and n.func.attr == "append"
                and isinstance(n.func.value, ast.Name) and n.func.value.id == "warnings"):
            dw.append((n.lineno, ceval(n.args[0], {})))
    dw = [w for _, w in sorted(dw)]
    if len(dw) != 4:
        raise TranslateError("full_analysis_dict: four warnings.append expected")
    C["dictWarnings"] = dw

    # ---- osaca.py
    tm = parse(MAIN)
    da = None
    for st in tm.body:
        if isinstance(st, ast.Assign) and isinstance(st.targets[0], ast.Name) and st.targets[0].id == "DEFAULT_ARCHS":
            da = ceval(st.value, {})
    if not isinstance(da, dict) or not all(isinstance(k, str) and isinstance(v, str) for k, v in da.items()):
        raise TranslateError("DEFAULT_ARCHS dict not found")
    C["defaultArchs"] = list(da.items())
    fn = find_func(tm, "inspect")
    thr = None
    archw = None
    for st in ast.walk(fn):
        if isinstance(st, ast.Assign) and isinstance(st.targets[0], ast.Name):
            name = st.targets[0].id
            v = st.value
            if name == "print_length_warning" and isinstance(v, ast.IfExp):
                if ceval(v.body, {}) is not True or ceval(v.orelse, {}) is not False:
                    raise TranslateError("inspect: print_length_warning is not `True if … else False`")
                t = v.test
                if not (isinstance(t, ast.BoolOp) and isinstance(t.op, ast.And) and len(t.values) == 2):
                    raise TranslateError("inspect: length-warning test is not `A and B`")
                a, b = t.values
                d = ast.dump
                if not (isinstance(a, ast.Compare) and isinstance(a.ops[0], ast.Eq)
                        and {d(a.left), d(a.comparators[0])} == {d(ast.parse("len(kernel)", mode="eval").body),
                                                                 d(ast.parse("len(parsed_code)", mode="eval").body)}):
                    raise TranslateError("inspect: length-warning test lacks len(kernel) == len(parsed_code)")
                if not (isinstance(b, ast.Compare) and isinstance(b.ops[0], ast.Gt)
                        and d(b.left) == d(ast.parse("len(kernel)", mode="eval").body)
                        and isinstance(b.comparators[0], ast.Constant)):
                    raise TranslateError("inspect: length-warning test lacks len(kernel) > N")
                thr = b.comparators[0].value
            if name == "print_arch_warning" and isinstance(v, ast.IfExp):
                if (ceval(v.body, {}) is False and ceval(v.orelse, {}) is True
                        and ast.dump(v.test) == ast.dump(ast.parse("args.arch", mode="eval").body)):
                    archw = True
    if thr is None or not isinstance(thr, int):
        raise TranslateError("inspect: length-warning threshold not found")
    if not archw:
        raise TranslateError("inspect: print_arch_warning is not `False if args.arch else True`")
    # with --lines the warning is off
    lines_off = False
    for n in ast.walk(fn):
        if isinstance(n, ast.If) and ast.dump(n.test) == ast.dump(ast.parse("args.lines", mode="eval").body):
            for st in n.body:
                if (isinstance(st, ast.Assign) and st.targets[0].id == "print_length_warning"
                        and ceval(st.value, {}) is False):
                    lines_off = True
    if not lines_off:
        raise TranslateError("inspect: `print_length_warning = False` under `if args.lines` not found")
    C["lengthThreshold"] = thr

    # ---- emit
    nat_keys = ["minPortLen", "portLenDecimals", "fallbackDecimals", "cellReserve", "colSep", "groupSep",
                "headerGroupSep", "headerPad", "cpTitleWidth", "sepTail", "rowNumWidth", "cellWidth", "sumWidth",
                "lcdNumWidth", "lcdLatWidth", "lcdLatDecimals", "lcdRootWidth", "lengthThreshold", "headerAdjust"]
    txt_keys = ["combinedTitle", "linenoFiller", "headline", "cpTitle", "lcdTitle", "missingPre", "missingMid",
                "missingPost", "archWarning", "lengthWarning", "lcdWarning", "unknownFlag", "lcdTitle2", "headerTitle"]
    out = [HEADER, "namespace OsacaVerif.Gen.Report\n"]
    for k in nat_keys:
        if not isinstance(C[k], int) or C[k] < 0:
            raise TranslateError("%s is not a natural number: %r" % (k, C[k]))
        out.append("def %s : Nat := %d" % (k, C[k]))
    out.append("")
    for k in txt_keys:
        v = C[k]
        if not v.isascii():
            raise TranslateError("%s is not ASCII" % k)
        out.append("/-- %s -/" % repr(v).replace("-/", "- /"))
        out.append("def %s : List Nat := %s" % (k, txt(v)))
    out.append("")
    out.append("/-- `_get_flag_symbols`: (symbol, flag) in the order the symbols are appended -/")
    out.append("def flagSymbols : List (Nat × List Nat) := [%s]" % ", ".join("(%d, %s)" % (c, txt(f)) for c, f in C["flagSymbols"]))
    out.append("/-- `_symbol_map`: flag ↦ explanation, in source order -/")
    out.append("def symbolTexts : List (List Nat × List Nat) := [%s]" % ",\n  ".join("(%s, %s)" % (txt(f), txt(t)) for f, t in C["symbolTexts"]))
    out.append("/-- `DEFAULT_ARCHS` -/")
    out.append("def defaultArchs : List (List Nat × List Nat) := [%s]" % ", ".join("(%s, %s)" % (txt(k), txt(v)) for k, v in C["defaultArchs"]))
    out.append("def headerLabels : List (List Nat) := [%s]" % ", ".join(txt(l) for l in C["headerLabels"]))
    out.append("/-- `Warnings` entries of full_analysis_dict: arch, length, LCD, unknown instruction -/")
    out.append("def dictWarnings : List (List Nat) := [%s]" % ", ".join(txt(l) for l in C["dictWarnings"]))
    out.append("\nend OsacaVerif.Gen.Report\n")
    return "\n".join(out)
