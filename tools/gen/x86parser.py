"""Gen/X86Parser.lean: literals and constants of the x86 AT&T parser the C09 model depends on.

Two sources, both of the *working tree*:
  * the Python AST of osaca/parser/parser_x86att.py and base_parser.py (literals of the grammar
    construction, of parse_line / parse_instruction / process_* and of parse_file);
  * the constructed pyparsing grammar objects themselves (ParserX86ATT().comment/label/directive/
    instruction_parser), dumped structurally and hashed per component -- the hand-written Lean
    model was written for exactly this grammar; a digest that differs breaks `grammar_unchanged`.
"""
import ast
import hashlib
import os
import subprocess
import sys

import translate as T
from translate import TranslateError, generator, parse, find_func, txt, txt_list, HEADER

SRC = "osaca/parser/parser_x86att.py"
BASE = "osaca/parser/base_parser.py"

PP_CLASSES = {"alphas", "alphanums", "nums", "hexnums", "printables"}


def _assignments(fn):
    """name -> value node for `x = ...` and `self.x = ...` directly in the function body."""
    out = {}
    for node in fn.body:
        if isinstance(node, ast.Assign) and len(node.targets) == 1:
            t = node.targets[0]
            if isinstance(t, ast.Name):
                out[t.id] = node.value
            elif isinstance(t, ast.Attribute) and isinstance(t.value, ast.Name) and t.value.id == "self":
                out["self." + t.attr] = node.value
    return out


def _is_pp_call(node, name):
    return (
        isinstance(node, ast.Call)
        and isinstance(node.func, ast.Attribute)
        and node.func.attr == name
        and isinstance(node.func.value, ast.Name)
        and node.func.value.id == "pp"
    )


def _calls(node, name):
    """pp.<name>(...) calls below node, in source order."""
    found = [n for n in ast.walk(node) if _is_pp_call(n, name)]
    found.sort(key=lambda n: (n.lineno, n.col_offset))
    return found


def _str_arg(call, env, what):
    if not call.args:
        raise TranslateError("%s: call without argument" % what)
    a = call.args[0]
    if isinstance(a, ast.Constant) and isinstance(a.value, str):
        return a.value
    if isinstance(a, ast.Name) and a.id in env and isinstance(env[a.id], ast.Constant) and isinstance(env[a.id].value, str):
        return env[a.id].value
    raise TranslateError("%s: argument is not a string literal (line %d)" % (what, call.lineno))


def _class_expr(node, what):
    """pp.alphas + "-_."  ->  ("alphas", "-_.");  pp.nums -> ("nums", "");  "1248" -> ("", "1248")"""
    if isinstance(node, ast.Constant) and isinstance(node.value, str):
        return ("", node.value)
    if isinstance(node, ast.Attribute) and isinstance(node.value, ast.Name) and node.value.id == "pp" and node.attr in PP_CLASSES:
        return (node.attr, "")
    if isinstance(node, ast.BinOp) and isinstance(node.op, ast.Add):
        l = _class_expr(node.left, what)
        r = _class_expr(node.right, what)
        if r[0]:
            raise TranslateError("%s: unexpected character class expression" % what)
        return (l[0], l[1] + r[1])
    raise TranslateError("%s: unexpected character class expression (line %d)" % (what, getattr(node, "lineno", 0)))


def _word_class(call, what):
    base, extra = _class_expr(call.args[0], what)
    excl = ""
    exact = 0
    for kw in call.keywords:
        if kw.arg in ("excludeChars", "exclude_chars") and isinstance(kw.value, ast.Constant):
            excl = kw.value.value
        elif kw.arg == "exact" and isinstance(kw.value, ast.Constant):
            exact = kw.value.value
        else:
            raise TranslateError("%s: unexpected Word keyword %s" % (what, kw.arg))
    if len(call.args) != 1:
        raise TranslateError("%s: Word with body characters is not modelled" % what)
    return base, extra, excl, exact


def _need(env, name):
    if name not in env:
        raise TranslateError("construct_parser: no assignment to %s" % name)
    return env[name]


def _grammar_digests():
    """Structural dump of the constructed grammar, hashed per component (subprocess: fresh import)."""
    code = r'''
import sys, hashlib, json
sys.path.insert(0, sys.argv[1])
import warnings; warnings.simplefilter("ignore")
import pyparsing as pp
from osaca.parser import ParserX86ATT
p = ParserX86ATT()
def attrs(e):
    a = [type(e).__name__.lstrip("_")]
    if type(e).__name__ == "_SingleCharLiteral": a[0] = "Literal"
    if e.resultsName: a.append("name=%s" % e.resultsName)
    if not e.skipWhitespace: a.append("nows")
    if "".join(sorted(e.whiteChars)) != "\t\n\r ": a.append("white=%r" % "".join(sorted(e.whiteChars)))
    if isinstance(e, pp.Literal): a.append("match=%r" % e.match)
    if isinstance(e, pp.Word): a.append("init=%r body=%r min=%d max=%d" % ("".join(sorted(e.initChars)), "".join(sorted(e.bodyChars)), e.minLen, min(e.maxLen, 10**9)))
    if isinstance(e, pp.Regex): a.append("pat=%r flags=%r" % (e.pattern, int(e.flags)))
    if isinstance(e, pp.Combine): a.append("join=%r adj=%r" % (e.joinString, e.adjacent))
    if e.parseAction: a.append("actions=%d" % len(e.parseAction))
    return " ".join(a)
def kids(e):
    if hasattr(e, "exprs"):
        out = []
        for s in e.exprs:
            # nested And/Or/MatchFirst of the same kind without a results name: same language
            if type(s) is type(e) and isinstance(e, (pp.And, pp.Or, pp.MatchFirst)) and not s.resultsName and s.skipWhitespace == e.skipWhitespace:
                out += kids(s)
            else:
                out.append(s)
        return out
    if getattr(e, "expr", None) is not None:
        return [e.expr]
    return []
def dump(e, depth, out):
    out.append("  " * depth + attrs(e))
    for s in kids(e):
        dump(s, depth + 1, out)
res = {}
for name in ("comment", "label", "directive", "register", "instruction_parser"):
    out = []
    dump(getattr(p, name), 0, out)
    res[name] = out
res["whitespace"] = [repr(pp.ParserElement.DEFAULT_WHITE_CHARS), "packrat=%r" % bool(pp.ParserElement._packratEnabled)]
print(json.dumps(res))
'''
    import json

    env = dict(os.environ)
    env.pop("PYTHONPATH", None)
    p = subprocess.run([sys.executable, "-W", "ignore", "-c", code, T.REPO], stdout=subprocess.PIPE,
                       stderr=subprocess.PIPE, text=True, env=env, timeout=120)
    if p.returncode != 0:
        raise TranslateError("constructing ParserX86ATT failed: " + p.stderr.strip().split("\n")[-1][:300])
    res = json.loads(p.stdout.strip().split("\n")[-1])
    return res


def grammar_dump_text():
    res = _grammar_digests()
    lines = []
    for k in sorted(res):
        lines.append("== " + k)
        lines += res[k]
    return "\n".join(lines) + "\n"


@generator("X86Parser", [SRC, BASE])
def gen_x86parser():
    tree = parse(SRC)
    cp = find_func(tree, "construct_parser", "ParserX86ATT")
    env = _assignments(cp)

    # ---- numbers
    dec = _need(env, "decimal_number")
    hexn = _need(env, "hex_number")
    dec_lits = [_str_arg(c, env, "decimal_number") for c in _calls(dec, "Literal")]
    hex_lits = [_str_arg(c, env, "hex_number") for c in _calls(hexn, "Literal")]
    dec_words = [_word_class(c, "decimal_number") for c in _calls(dec, "Word")]
    hex_words = [_word_class(c, "hex_number") for c in _calls(hexn, "Word")]
    if len(dec_lits) != 1 or len(dec_words) != 1 or len(hex_lits) != 2 or len(hex_words) != 1:
        raise TranslateError("decimal_number/hex_number: unexpected shape")
    if not (_calls(dec, "Combine") and _calls(hexn, "Combine")):
        raise TranslateError("decimal_number/hex_number: not a Combine")
    # ---- comment
    comment = _need(env, "self.comment")
    comment_syms = [_str_arg(c, env, "comment") for c in _calls(comment, "Literal")]
    comment_words = [_word_class(c, "comment") for c in _calls(comment, "Word")]
    if len(comment_words) != 1 or not comment_syms:
        raise TranslateError("comment: unexpected shape")
    # ---- identifiers
    first = _word_class(_calls(_need(env, "first"), "Word")[0], "first")
    rest = _word_class(_calls(_need(env, "rest"), "Word")[0], "rest")
    label_rest = _word_class(_calls(_need(env, "label_rest"), "Word")[0], "label_rest")
    reloc = _need(env, "relocation")
    reloc_sym = [_str_arg(c, env, "relocation") for c in _calls(reloc, "Literal")]
    reloc_word = [_word_class(c, "relocation") for c in _calls(reloc, "Word")]
    id_off = _need(env, "id_offset")
    id_off_sym = [_str_arg(c, env, "id_offset") for c in _calls(id_off, "Literal")]
    ident = _need(env, "identifier")
    delims = []
    for c in _calls(ident, "delimitedList") + _calls(ident, "DelimitedList"):
        for kw in c.keywords:
            if kw.arg == "delim" and isinstance(kw.value, ast.Constant):
                delims.append(kw.value.value)
    if len(delims) != 1 or len(reloc_sym) != 1 or len(reloc_word) != 1 or len(id_off_sym) != 1:
        raise TranslateError("identifier: unexpected shape")
    num_ident = _need(env, "numeric_identifier")
    suffixes = []
    for c in _calls(num_ident, "oneOf") + _calls(num_ident, "one_of"):
        suffixes = _str_arg(c, env, "numeric_identifier").split()
        caseless = any(kw.arg == "caseless" and isinstance(kw.value, ast.Constant) and kw.value.value for kw in c.keywords)
    if not suffixes:
        raise TranslateError("numeric_identifier: no suffix list")
    # ---- register
    reg = _need(env, "self.register")
    reg_lits = [_str_arg(c, env, "register") for c in _calls(reg, "Literal")]
    reg_words = [_word_class(c, "register") for c in _calls(reg, "Word")]
    if not reg_lits or len(reg_words) != 3:
        raise TranslateError("register: unexpected shape")
    # ---- immediate
    imm = _need(env, "immediate")
    imm_lits = [_str_arg(c, env, "immediate") for c in _calls(imm, "Literal")]
    if len(imm_lits) != 1:
        raise TranslateError("immediate: unexpected shape")
    # ---- scale
    scale = _word_class(_calls(_need(env, "scale"), "Word")[0], "scale")
    # ---- memory: literals in order
    mem = _need(env, "memory")
    mem_lits = [_str_arg(c, env, "memory") for c in _calls(mem, "Literal")]
    # ---- directive
    dirv = _need(env, "self.directive")
    dir_lits = [_str_arg(c, env, "directive") for c in _calls(dirv, "Literal")]
    dir_words = [_word_class(c, "directive") for c in _calls(dirv, "Word")]
    dparam = _need(env, "directive_parameter")
    dparam_words = [_word_class(c, "directive_parameter") for c in _calls(dparam, "Word")]
    dparam_lits = [_str_arg(c, env, "directive_parameter") for c in _calls(dparam, "Literal")]
    if len(dir_lits) != 1 or len(dir_words) != 1 or len(dparam_words) != 1:
        raise TranslateError("directive: unexpected shape")
    # ---- mnemonic
    mn = _need(env, "mnemonic")
    mn_prefixes = [_str_arg(c, env, "mnemonic") for c in _calls(mn, "Literal")]
    mn_word = [_word_class(c, "mnemonic") for c in _calls(mn, "Word")]
    if len(mn_word) != 1:
        raise TranslateError("mnemonic: unexpected shape")
    # ---- instruction: operand result names and separators
    ins = _need(env, "self.instruction_parser")
    op_names = []
    for c in ast.walk(ins):
        if isinstance(c, ast.Call) and isinstance(c.func, ast.Attribute) and c.func.attr in ("setResultsName", "set_results_name"):
            if c.args and isinstance(c.args[0], ast.Constant):
                op_names.append((c.lineno, c.col_offset, c.args[0].value))
    op_names = [n for _, _, n in sorted(op_names)]
    ins_seps = [_str_arg(c, env, "instruction_parser") for c in _calls(ins, "Literal")]

    # ---- parse_instruction: result["mnemonic"].split(",")[0]; operands appended in which order
    pi = find_func(tree, "parse_instruction", "ParserX86ATT")
    split = None
    for n in ast.walk(pi):
        if (isinstance(n, ast.Subscript) and isinstance(n.value, ast.Call) and isinstance(n.value.func, ast.Attribute)
                and n.value.func.attr == "split" and n.value.args and isinstance(n.value.args[0], ast.Constant)
                and isinstance(n.slice, ast.Constant)):
            split = (n.value.args[0].value, n.slice.value)
    if split is None:
        raise TranslateError("parse_instruction: mnemonic split(...)[k] not found")
    appended = []
    for n in ast.walk(pi):
        if isinstance(n, ast.If) and isinstance(n.test, ast.Compare) and isinstance(n.test.left, ast.Constant) \
                and isinstance(n.test.ops[0], ast.In) and isinstance(n.test.left.value, str):
            used = [s.slice.value for s in ast.walk(n) if isinstance(s, ast.Subscript) and isinstance(s.slice, ast.Constant)
                    and isinstance(s.slice.value, str)]
            appended.append((n.lineno, n.test.left.value, used))
    appended.sort()
    for _, tested, used in appended:
        if used != [tested]:
            raise TranslateError("parse_instruction: `if %r in result` appends %r" % (tested, used))
    appended = [t for _, t, _ in appended]

    # ---- parse_line: order of the four stages, parseAll
    pl = find_func(tree, "parse_line", "ParserX86ATT")
    stages = []
    for n in ast.walk(pl):
        if isinstance(n, ast.Call) and isinstance(n.func, ast.Attribute):
            f = n.func
            if f.attr in ("parseString", "parse_string") and isinstance(f.value, ast.Attribute):
                pa = [kw for kw in n.keywords if kw.arg in ("parseAll", "parse_all")]
                ok = pa and isinstance(pa[0].value, ast.Constant) and pa[0].value.value is True
                stages.append((n.lineno, f.value.attr + ("" if ok else "!noParseAll")))
            elif f.attr == "parse_instruction":
                stages.append((n.lineno, "instruction"))
    stages = [s for _, s in sorted(stages)]
    pall = [kw for n in ast.walk(pi) if isinstance(n, ast.Call) and isinstance(n.func, ast.Attribute)
            and n.func.attr in ("parseString", "parse_string") for kw in n.keywords if kw.arg in ("parseAll", "parse_all")]
    if not (pall and isinstance(pall[0].value, ast.Constant) and pall[0].value.value is True):
        stages = [s + ("!noParseAll" if s == "instruction" else "") for s in stages]

    # ---- process_memory_address / process_immediate: int(x, base) and the scale default
    bases = []
    for fname in ("process_memory_address", "process_immediate"):
        fn = find_func(tree, fname, "ParserX86ATT")
        for n in sorted((n for n in ast.walk(fn) if isinstance(n, ast.Call) and isinstance(n.func, ast.Name) and n.func.id == "int"),
                        key=lambda n: (n.lineno, n.col_offset)):
            if len(n.args) == 2 and isinstance(n.args[1], ast.Constant):
                bases.append(n.args[1].value)
            elif len(n.args) == 1:
                bases.append(10)
            else:
                raise TranslateError("%s: unexpected int() call" % fname)
    pm = find_func(tree, "process_memory_address", "ParserX86ATT")
    scale_default = None
    for n in ast.walk(pm):
        if isinstance(n, ast.Assign) and isinstance(n.targets[0], ast.Name) and n.targets[0].id == "scale" and isinstance(n.value, ast.IfExp):
            ie = n.value
            # `D if "scale" not in m else int(...)`  or  `int(...) if "scale" in m else D`
            t = ie.test
            if isinstance(t, ast.Compare) and isinstance(t.left, ast.Constant) and t.left.value == "scale":
                if isinstance(t.ops[0], ast.NotIn) and isinstance(ie.body, ast.Constant):
                    scale_default = ie.body.value
                elif isinstance(t.ops[0], ast.In) and isinstance(ie.orelse, ast.Constant):
                    scale_default = ie.orelse.value
    if not isinstance(scale_default, int):
        raise TranslateError("process_memory_address: scale default not found")
    # which parse-result keys feed offset/base/index
    mem_keys = []
    for n in ast.walk(pm):
        if isinstance(n, ast.Assign) and isinstance(n.targets[0], ast.Name) and isinstance(n.value, ast.Call) \
                and isinstance(n.value.func, ast.Attribute) and n.value.func.attr == "get" and n.value.args \
                and isinstance(n.value.args[0], ast.Constant):
            mem_keys.append((n.lineno, n.targets[0].id + "=" + n.value.args[0].value))
    mem_keys = [k for _, k in sorted(mem_keys)]
    # MemoryOperand(offset=offset, base=baseOp, index=indexOp, scale=scale)
    mem_ctor = []
    for n in ast.walk(pm):
        if isinstance(n, ast.Call) and isinstance(n.func, ast.Name) and n.func.id == "MemoryOperand":
            mem_ctor = sorted(kw.arg + "=" + (kw.value.id if isinstance(kw.value, ast.Name) else "?") for kw in n.keywords)
    # RegisterOperand(name=base["name"] ...) for base / index
    reg_ctor = []
    for n in ast.walk(pm):
        if isinstance(n, ast.Assign) and isinstance(n.value, ast.Call) and isinstance(n.value.func, ast.Name) \
                and n.value.func.id == "RegisterOperand" and isinstance(n.targets[0], ast.Name):
            for kw in n.value.keywords:
                if kw.arg == "name" and isinstance(kw.value, ast.Subscript) and isinstance(kw.value.value, ast.Name) \
                        and isinstance(kw.value.slice, ast.Constant):
                    reg_ctor.append((n.lineno, "%s=%s[%s]" % (n.targets[0].id, kw.value.value.id, kw.value.slice.value)))
    reg_ctor = [k for _, k in sorted(reg_ctor)]

    # ---- parse_file
    tb = parse(BASE)
    pf = find_func(tb, "parse_file", "BaseParser")
    sep = None
    for n in ast.walk(pf):
        if isinstance(n, ast.Call) and isinstance(n.func, ast.Attribute) and n.func.attr == "split" and n.args \
                and isinstance(n.args[0], ast.Constant):
            sep = n.args[0].value
    if sep is None:
        raise TranslateError("parse_file: split(<literal>) not found")
    enum_start = None
    for n in ast.walk(pf):
        if isinstance(n, ast.Call) and isinstance(n.func, ast.Name) and n.func.id == "enumerate":
            enum_start = 0
            if len(n.args) > 1 and isinstance(n.args[1], ast.Constant):
                enum_start = n.args[1].value
            for kw in n.keywords:
                if kw.arg == "start" and isinstance(kw.value, ast.Constant):
                    enum_start = kw.value.value
    if enum_start is None:
        raise TranslateError("parse_file: enumerate(...) not found")
    # line-number expression: sum of the loop index, start_line and integer literals
    lineno_const = None
    lineno_terms = None
    for n in ast.walk(pf):
        if isinstance(n, ast.Call) and isinstance(n.func, ast.Attribute) and n.func.attr == "parse_line" and len(n.args) == 2:
            terms, const = [], 0

            def walk_sum(e, sign=1):
                nonlocal const
                if isinstance(e, ast.BinOp) and isinstance(e.op, ast.Add):
                    walk_sum(e.left, sign)
                    walk_sum(e.right, sign)
                elif isinstance(e, ast.BinOp) and isinstance(e.op, ast.Sub):
                    walk_sum(e.left, sign)
                    walk_sum(e.right, -sign)
                elif isinstance(e, ast.Constant) and isinstance(e.value, int):
                    const += sign * e.value
                elif isinstance(e, ast.Name) and sign == 1:
                    terms.append(e.id)
                else:
                    raise TranslateError("parse_file: unexpected line-number expression")

            walk_sum(n.args[1])
            lineno_const, lineno_terms = const, sorted(terms)
            first_arg = n.args[0].id if isinstance(n.args[0], ast.Name) else "?"
    if lineno_const is None or lineno_const < 0:
        raise TranslateError("parse_file: parse_line(line, <number>) not found")
    # blank test: `<x>.strip() == ""` followed by continue
    blank = None
    for n in ast.walk(pf):
        if isinstance(n, ast.If) and isinstance(n.test, ast.Compare) and len(n.test.ops) == 1 \
                and isinstance(n.test.ops[0], ast.Eq) and isinstance(n.test.comparators[0], ast.Constant) \
                and n.test.comparators[0].value == "" and isinstance(n.test.left, ast.Call) \
                and isinstance(n.test.left.func, ast.Attribute) and n.test.left.func.attr in ("strip", "lstrip", "rstrip") \
                and not n.test.left.args and any(isinstance(b, ast.Continue) for b in n.body):
            blank = n.test.left.func.attr
    if blank is None:
        raise TranslateError("parse_file: blank-line test not found")

    # ---- grammar digests
    dump = _grammar_digests()
    digests = []
    for k in sorted(dump):
        h = hashlib.sha256("\n".join(dump[k]).encode()).hexdigest()[:15]
        digests.append((k, int(h, 16), len(dump[k])))
    dump_path = os.path.join(T.OUT, "X86Grammar.txt")
    try:
        with open(dump_path, "w", encoding="utf-8") as f:
            f.write(grammar_dump_text_from(dump))
    except OSError:
        pass

    def cls(c):
        base, extra, excl, exact = c
        return "(%s, %s, %s, %d)" % (txt(base), txt(extra), txt(excl), exact)

    o = [HEADER, "namespace OsacaVerif.Gen.X86Parser\n"]
    o.append("/-- a pyparsing `Word(...)` character class as written in the source:\n"
             "    (name of the `pp.` constant, extra characters, excludeChars, exact) -/")
    o.append("abbrev WordClass := List Nat × List Nat × List Nat × Nat\n")
    o.append("/-- `decimal_number`: sign literal, digit class -/")
    o.append("def decimalSign : List Nat := %s" % txt(dec_lits[0]))
    o.append("def decimalDigits : WordClass := %s" % cls(dec_words[0]))
    o.append("/-- `hex_number`: sign literal, prefix literal, digit class -/")
    o.append("def hexSign : List Nat := %s" % txt(hex_lits[0]))
    o.append("def hexPrefix : List Nat := %s" % txt(hex_lits[1]))
    o.append("def hexDigits : WordClass := %s\n" % cls(hex_words[0]))
    o.append("/-- comment symbols (`pp.Literal`s of `self.comment`, in order) and the word class of its body -/")
    o.append("def commentSymbols : List (List Nat) := %s" % txt_list(comment_syms))
    o.append("def commentWord : WordClass := %s\n" % cls(comment_words[0]))
    o.append("/-- identifier: first character, rest, label rest, `::` delimiter, relocation, id_offset `+` -/")
    o.append("def identFirst : WordClass := %s" % cls(first))
    o.append("def identRest : WordClass := %s" % cls(rest))
    o.append("def labelRest : WordClass := %s" % cls(label_rest))
    o.append("def nameDelim : List Nat := %s" % txt(delims[0]))
    o.append("def relocationSymbol : List Nat := %s" % txt(reloc_sym[0]))
    o.append("def relocationWord : WordClass := %s" % cls(reloc_word[0]))
    o.append("def idOffsetPlus : List Nat := %s" % txt(id_off_sym[0]))
    o.append("def numericSuffixes : List (List Nat) := %s" % txt_list(suffixes))
    o.append("def numericSuffixCaseless : Bool := %s\n" % ("true" if caseless else "false"))
    o.append("/-- register: literals in source order (`%`, `(`, `)`, `{`, `%`, `}`, `{`, `z`, `}`), name/index/mask classes -/")
    o.append("def registerLiterals : List (List Nat) := %s" % txt_list(reg_lits))
    o.append("def registerWords : List WordClass := [%s]\n" % ", ".join(cls(w) for w in reg_words))
    o.append("def immediateSymbol : List Nat := %s" % txt(imm_lits[0]))
    o.append("def scaleWord : WordClass := %s" % cls(scale))
    o.append("/-- literals of the `memory` expression in source order -/")
    o.append("def memoryLiterals : List (List Nat) := %s\n" % txt_list(mem_lits))
    o.append("def directiveSymbol : List Nat := %s" % txt(dir_lits[0]))
    o.append("def directiveName : WordClass := %s" % cls(dir_words[0]))
    o.append("def directiveParam : WordClass := %s" % cls(dparam_words[0]))
    o.append("def directiveParamSeps : List (List Nat) := %s\n" % txt_list(dparam_lits))
    o.append("def mnemonicPrefixes : List (List Nat) := %s" % txt_list(mn_prefixes))
    o.append("def mnemonicWord : WordClass := %s" % cls(mn_word[0]))
    o.append("/-- `result[\"mnemonic\"].split(sep)[k]` -/")
    o.append("def mnemonicSplit : List Nat × Nat := (%s, %d)" % (txt(split[0]), split[1]))
    o.append("/-- results names set inside `instruction_parser`, its separator literals, and the keys\n"
             "    `parse_instruction` appends in order -/")
    o.append("def instructionResultNames : List (List Nat) := %s" % txt_list(op_names))
    o.append("def instructionSeparators : List (List Nat) := %s" % txt_list(ins_seps))
    o.append("def operandsAppended : List (List Nat) := %s\n" % txt_list(appended))
    o.append("/-- stages of `parse_line` in source order -/")
    o.append("def stageOrder : List (List Nat) := %s  -- %s\n" % (txt_list(stages), " ".join(stages)))
    o.append("/-- second argument of every `int(x, b)` in process_memory_address, process_immediate (source order) -/")
    o.append("def intBases : List Nat := [%s]" % ", ".join(str(b) for b in bases))
    o.append("def scaleDefault : Nat := %d" % scale_default)
    o.append("def memoryKeys : List (List Nat) := %s  -- %s" % (txt_list(mem_keys), " ".join(mem_keys)))
    o.append("def memoryCtor : List (List Nat) := %s  -- %s" % (txt_list(mem_ctor), " ".join(mem_ctor)))
    o.append("def memoryRegCtor : List (List Nat) := %s  -- %s\n" % (txt_list(reg_ctor), " ".join(reg_ctor)))
    o.append("/-- `parse_file`: split literal, `enumerate` start, integer constant of the line-number\n"
             "    expression and its variables, the strip method of the blank test, first argument of parse_line -/")
    o.append("def lineSeparator : List Nat := %s" % txt(sep))
    o.append("def enumerateStart : Nat := %d" % enum_start)
    o.append("def lineNumberConst : Nat := %d" % lineno_const)
    o.append("def lineNumberTerms : List (List Nat) := %s  -- %s" % (txt_list(lineno_terms), " ".join(lineno_terms)))
    o.append("def blankTest : List Nat := %s  -- %s" % (txt(blank), blank))
    o.append("def parseLineArg : List Nat := %s  -- %s\n" % (txt(first_arg), first_arg))
    o.append("/-- sha256 (60 bits) of the structural dump of the constructed pyparsing grammar, per component\n"
             "    (full dump: Gen/X86Grammar.txt) -/")
    o.append("def grammarDigest : List Nat := [%s]" % ", ".join(str(d) for _, d, _ in digests))
    o.append("-- " + ", ".join("%s:%d lines" % (k, n) for k, _, n in digests))
    o.append("\nend OsacaVerif.Gen.X86Parser\n")
    return "\n".join(o)


def grammar_dump_text_from(res):
    lines = []
    for k in sorted(res):
        lines.append("== " + k)
        lines += res[k]
    return "\n".join(lines) + "\n"
