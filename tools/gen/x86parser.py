"""Gen/X86Parser.lean: literals and constants of the x86 AT&T parser the C09 model depends on.

Two sources, both of the *working tree*:
  * the Python AST of osaca/parser/parser_x86att.py and base_parser.py (literals of the grammar
    construction, of parse_line / parse_instruction / process_* and of parse_file);
  * the constructed pyparsing grammar objects themselves (ParserX86ATT().comment/label/directive/
    instruction_parser), dumped structurally and hashed per component -- the hand-written Lean
    model was written for exactly this grammar; a digest that differs breaks `grammar_unchanged`.
    This is the one DYNAMIC step: `osaca.parser` of $OSACA_REPO is imported in a subprocess and
    `ParserX86ATT()` is constructed (pure: it only builds pyparsing objects); the dump contains what pyparsing
    sees (element kinds, literals, character sets, results names, whitespace flags), never Python names.

How the AST part reads (semantically, not by spelling; helpers in `astutil_G4.py`, purely static):

* The grammar literals: `construct_parser` is symbolically executed (`astutil_G4.Interp`) into an expression
  tree; the plug-in navigates it from `self.instruction_parser`, `self.comment`, `self.label`, `self.directive`,
  `self.register` by structure and results names.  Local variable names, hoisted / split / inlined
  sub-expressions, constants bound to names, string spelling, pyparsing's snake_case aliases, alternatives
  built by loops / comprehensions / helpers do not show; order of alternatives and sequence members, literals,
  character classes (as written: `pp.<class>` + extra characters, in the order written), `exact`,
  `excludeChars`, delimiters, results names do.
* `parse_instruction`: the operand keys are read as `if "k" in result:` blocks, also when written as a loop over
  a constant table of keys (keys may be formatted from the loop variable), with guard clauses, or as a
  comprehension; `split(sep)[k]` also as `split(sep, n)[0]` / `partition(sep)[0]`.
* `parse_line`: the order in which the four grammars are tried (source order of the `parseString` calls), whether
  nested `if result is None` or guard clauses with early return.
* `process_memory_address`: variables are named by their *role* (the MemoryOperand keyword their value reaches,
  `<k>Op` if it passes through RegisterOperand), so renaming or reusing locals does not show; the `scale` default
  is read from a conditional expression, an if/else statement, a default followed by an `if`, or `.get("scale", d)`.
* `parse_file`: loop or comprehension (`astutil_G4.read_parse_file`); `enumerate(lines, s)` with `i + c` is
  normalised to start 0 and constant `s + c` when the index is used for nothing else; the index variable is
  reported as `i`, the element as `line`.
"""
import ast
import hashlib
import os
import subprocess
import sys



def _load_util():
    """astutil_G4.py next to this file, loaded by path (sys.path is left alone)"""
    import importlib.util
    if "astutil_G4" in sys.modules:
        return sys.modules["astutil_G4"]
    spec = importlib.util.spec_from_file_location(
        "astutil_G4", os.path.join(os.path.dirname(os.path.abspath(__file__)), "astutil_G4.py"))
    mod = importlib.util.module_from_spec(spec)
    sys.modules["astutil_G4"] = mod
    spec.loader.exec_module(mod)
    return mod


U = _load_util()
expect, only, unwrap = U.expect, U.only, U.unwrap
import translate as T  # noqa: E402
from translate import TranslateError, generator, parse, txt, txt_list, HEADER  # noqa: E402

SRC = "osaca/parser/parser_x86att.py"
BASE = "osaca/parser/base_parser.py"

PP_CLASSES = {"alphas", "alphanums", "nums", "hexnums", "printables"}
NO_GROUP = lambda n: n.kind != "Group"  # noqa: E731


def _grammar_digests():
    """Structural dump of the constructed grammar, hashed per component (subprocess: fresh import)."""
    code = r'''
import sys, hashlib, json
sys.path.insert(0, sys.argv[1])
import warnings; warnings.simplefilter("ignore")
import pyparsing as pp
from osaca.parser import ParserX86ATT
p = ParserX86ATT()
def attrs(e):
    a = [type(e).__name__.lstrip("_")]
    if type(e).__name__ == "_SingleCharLiteral": a[0] = "Literal"
    if e.resultsName: a.append("name=%s" % e.resultsName)
    if not e.skipWhitespace: a.append("nows")
    if "".join(sorted(e.whiteChars)) != "\t\n\r ": a.append("white=%r" % "".join(sorted(e.whiteChars)))
    if isinstance(e, pp.Literal): a.append("match=%r" % e.match)
    if isinstance(e, pp.Word): a.append("init=%r body=%r min=%d max=%d" % ("".join(sorted(e.initChars)), "".join(sorted(e.bodyChars)), e.minLen, min(e.maxLen, 10**9)))
    if isinstance(e, pp.Regex): a.append("pat=%r flags=%r" % (e.pattern, int(e.flags)))
    if isinstance(e, pp.Combine): a.append("join=%r adj=%r" % (e.joinString, e.adjacent))
    if e.parseAction: a.append("actions=%d" % len(e.parseAction))
    return " ".join(a)
def kids(e):
    if hasattr(e, "exprs"):
        out = []
        for s in e.exprs:
            # nested And/Or/MatchFirst of the same kind without a results name: same language
            if type(s) is type(e) and isinstance(e, (pp.And, pp.Or, pp.MatchFirst)) and not s.resultsName and s.skipWhitespace == e.skipWhitespace:
                out += kids(s)
            else:
                out.append(s)
        return out
    if getattr(e, "expr", None) is not None:
        return [e.expr]
    return []
def dump(e, depth, out):
    out.append("  " * depth + attrs(e))
    for s in kids(e):
        dump(s, depth + 1, out)
res = {}
for name in ("comment", "label", "directive", "register", "instruction_parser"):
    out = []
    dump(getattr(p, name), 0, out)
    res[name] = out
res["whitespace"] = [repr(pp.ParserElement.DEFAULT_WHITE_CHARS), "packrat=%r" % bool(pp.ParserElement._packratEnabled)]
print(json.dumps(res))
'''
    import json

    env = dict(os.environ)
    env.pop("PYTHONPATH", None)
    p = subprocess.run([sys.executable, "-W", "ignore", "-c", code, T.REPO], stdout=subprocess.PIPE,
                       stderr=subprocess.PIPE, text=True, env=env, timeout=120)
    if p.returncode != 0:
        raise TranslateError("constructing ParserX86ATT failed: " + p.stderr.strip().split("\n")[-1][:300])
    res = json.loads(p.stdout.strip().split("\n")[-1])
    return res


def grammar_dump_text():
    res = _grammar_digests()
    lines = []
    for k in sorted(res):
        lines.append("== " + k)
        lines += res[k]
    return "\n".join(lines) + "\n"


def _word_class(node, what):
    """Word(...) -> (name of the pp class, extra characters, excludeChars, exact), as written"""
    expect(node, "Word", what)
    if len(node.args) != 1:
        raise TranslateError("%s: Word without / with several character arguments" % what)
    names, extra = U.charclass(node.args[0], what)
    if len(names) > 1 or any(n not in PP_CLASSES for n in names):
        raise TranslateError("%s: unexpected character class expression %r" % (what, names))
    excl, exact = "", 0
    for k, v in node.kw.items():
        if k == "excludeChars" and isinstance(v, str):
            excl = v
        elif k == "exact" and isinstance(v, int) and not isinstance(v, bool):
            exact = v
        elif k == "bodyChars":
            raise TranslateError("%s: Word with body characters is not modelled" % what)
        else:
            raise TranslateError("%s: unexpected Word keyword %s" % (what, k))
    return (names[0] if names else ""), extra, excl, exact


def _words(node, what, descend=None):
    return [_word_class(w, what) for w in U.of_kind(node, "Word", descend)]


def read_grammar(it):
    A = it.selfattrs
    for need in ("instruction_parser", "comment", "label", "directive", "register"):
        if need not in A or not isinstance(A[need], U.PNode):
            raise TranslateError("construct_parser: no assignment to self.%s" % need)
    g = {}
    # ---- instruction_parser = [prefixes] mnemonic Optional(first("operand1")) Optional(Suppress(",")) ... Optional(comment)
    ip = expect(A["instruction_parser"], "And", "instruction_parser")
    pos = [i for i, k in enumerate(ip.kids) if k.name == "mnemonic"]
    if len(pos) != 1:
        raise TranslateError("mnemonic: unexpected shape")
    mn = ip.kids[pos[0]]
    g["mn_prefixes"] = [s for k in ip.kids[:pos[0]] for s in U.literals(k)]
    g["mn_word"] = _word_class(mn, "mnemonic")
    slots, seps = [], []
    for k in ip.kids[pos[0] + 1:]:
        inner = unwrap(k, "Optional", "instruction_parser member")
        if inner.name is not None and not inner.same(A["comment"]):
            slots.append(inner)
        elif inner.kind == "Suppress" and len(list(U.walk(inner))) == 2 and inner.kids[0].kind == "Literal":
            seps.append(U.strarg(inner.kids[0], "instruction_parser"))
        elif inner.same(A["comment"]):
            pass
        else:
            raise TranslateError("instruction_parser: unexpected member %s" % U.show(inner))
    g["op_names"] = [s.name for s in slots]
    g["ins_seps"] = seps
    if not slots:
        raise TranslateError("instruction_parser: no operand slots")
    first, rest = slots[0], slots[1:]
    if any(not r.same(rest[0]) for r in rest):
        raise TranslateError("instruction_parser: operand slots 2.. do not share one grammar")
    # first = Group(register ^ immediate ^ memory ^ identifier ^ numeric_identifier)
    alts = expect(unwrap(first, "Group", "operand_first"), "Or", "operand_first").kids
    by = {}
    for a in alts:
        by.setdefault(a.name, []).append(a)
    reg = only(by.get(it.class_attr("register_id"), []), "operand_first: register")
    imm = only(by.get(it.class_attr("immediate_id"), []), "operand_first: immediate")
    mem = only(by.get(it.class_attr("memory_id"), []), "operand_first: memory")
    idents = by.get(it.class_attr("identifier"), [])
    if len(idents) != 2 or len(alts) != 5:
        raise TranslateError("operand_first: expected register ^ immediate ^ memory ^ identifier ^ numeric_identifier")
    ident, num_ident = idents
    if not reg.same(A["register"]):
        raise TranslateError("operand_first: register is not self.register")

    # ---- immediate = Group(Literal(sym) + (hex | dec | identifier))
    g["imm_lits"] = U.literals(imm, lambda n: n.kind not in ("Group", "Combine") or n is imm)
    if len(g["imm_lits"]) != 1:
        raise TranslateError("immediate: unexpected shape")
    nums = [c for c in U.of_kind(imm, "Combine", lambda n: n.kind not in ("Combine",) and (n.kind != "Group" or n is imm))]
    hexs = [c for c in nums if any(w[0] == "hexnums" for w in _words(c, "hex_number"))]
    decs = [c for c in nums if c not in hexs]
    if len(hexs) != 1 or len(decs) != 1:
        raise TranslateError("decimal_number/hex_number: unexpected shape")
    hexn, dec = hexs[0], decs[0]
    g["dec_lits"], g["hex_lits"] = U.literals(dec), U.literals(hexn)
    g["dec_words"], g["hex_words"] = _words(dec, "decimal_number"), _words(hexn, "hex_number")
    if len(g["dec_lits"]) != 1 or len(g["dec_words"]) != 1 or len(g["hex_lits"]) != 2 or len(g["hex_words"]) != 1:
        raise TranslateError("decimal_number/hex_number: unexpected shape")

    # ---- comment
    comment = A["comment"]
    g["comment_syms"] = U.literals(comment)
    g["comment_words"] = _words(comment, "comment")
    if len(g["comment_words"]) != 1 or not g["comment_syms"]:
        raise TranslateError("comment: unexpected shape")

    # ---- identifier = Group(Optional(id_offset)("offset") + Combine(delimitedList(Combine(first + Optional(rest)), delim))("name")
    #                         + Optional(relocation)("relocation") + Optional(Suppress(Optional("+")) + dec)("offset"))
    def name_words(idn, what):
        seq = expect(unwrap(idn, "Group", what), "And", what)
        nm = only([k for k in seq.kids if k.name == "name"], what + ": name")
        dl = U.of_kind(nm, "delimitedList")
        ws = U.of_kind(nm, "Word")
        if len(ws) != 2 or len(dl) != 1:
            raise TranslateError("%s: unexpected shape" % what)
        return seq, [d.kw.get("delim") for d in dl], _word_class(ws[0], what), _word_class(ws[1], what)

    iseq, delims, g["first"], g["rest"] = name_words(ident, "identifier")
    g["delims"] = delims
    reloc = only([k for k in iseq.kids if k.name == "relocation"], "identifier: relocation")
    g["reloc_sym"] = U.literals(reloc)
    g["reloc_word"] = _words(reloc, "relocation")
    offs = [k for k in iseq.kids if k.name == "offset"]
    if not offs or offs[0] is not iseq.kids[0]:
        raise TranslateError("identifier: unexpected shape")
    g["id_off_sym"] = U.literals(offs[0])
    if len(delims) != 1 or not isinstance(delims[0], str) or len(g["reloc_sym"]) != 1 or len(g["reloc_word"]) != 1 \
            or len(g["id_off_sym"]) != 1:
        raise TranslateError("identifier: unexpected shape")
    # ---- label = Group((label_identifier | numeric_identifier)("name") + ":" + Optional(comment))
    lseq = expect(unwrap(A["label"], "Group", "label"), "And", "label")
    lname = expect(lseq.kids[0], "MatchFirst", "label name", 2)
    if lname.name != "name" or not lname.kids[1].same(num_ident):
        raise TranslateError("label: unexpected shape")
    _, _, lfirst, g["label_rest"] = name_words(lname.kids[0], "label_identifier")
    if lfirst != g["first"]:
        raise TranslateError("label: first character class differs from the identifier's")
    # ---- numeric identifier = Group(Word(nums)("name") + Optional(oneOf(suffixes, caseless)("suffix")))
    oo = U.of_kind(num_ident, "oneOf")
    if len(oo) != 1 or not oo[0].args[0]:
        raise TranslateError("numeric_identifier: no suffix list")
    g["suffixes"] = list(oo[0].args[0])
    g["caseless"] = bool(oo[0].kw.get("caseless", False))

    # ---- register
    g["reg_lits"] = U.literals(A["register"])
    g["reg_words"] = _words(A["register"], "register")
    if not g["reg_lits"] or len(g["reg_words"]) != 3:
        raise TranslateError("register: unexpected shape")

    # ---- memory = Group(offset(base, index, scale){mask} | memory_abs | memory_segmentation | number Empty)
    malts = expect(unwrap(mem, "Group", "memory"), "MatchFirst", "memory")
    main = expect(malts.kids[0], "And", "memory: first alternative")
    g["mem_lits"] = U.literals(main, NO_GROUP)
    sc = U.named(main, "scale", NO_GROUP)
    if len(sc) != 1:
        raise TranslateError("scale: unexpected shape")
    g["scale"] = _word_class(sc[0], "scale")

    # ---- directive = Group("." + Word("name") + ZeroOrMore(directive_parameter)("parameters") + Optional(comment))
    dseq = expect(unwrap(A["directive"], "Group", "directive"), "And", "directive")
    g["dir_lits"] = [U.strarg(k, "directive") for k in dseq.kids if k.kind == "Literal"]
    g["dir_words"] = [_word_class(k, "directive") for k in dseq.kids if k.kind == "Word"]
    dparam = only([k for k in dseq.kids if k.name == "parameters"], "directive: parameters")
    g["dparam_words"] = _words(dparam, "directive_parameter")
    g["dparam_lits"] = U.literals(dparam)
    if len(g["dir_lits"]) != 1 or len(g["dir_words"]) != 1 or len(g["dparam_words"]) != 1:
        raise TranslateError("directive: unexpected shape")
    return g


def _const_true(fenv, node):
    ok, v = fenv.try_const(node)
    return ok and v is True


def read_parse_instruction(pi, interp):
    fenv = U.FnEnv(pi, interp)
    split = None
    for n in ast.walk(pi):
        if isinstance(n, ast.Subscript) and isinstance(n.value, ast.Call) and isinstance(n.value.func, ast.Attribute):
            c = n.value
            okk, k = fenv.try_const(n.slice)
            if c.func.attr in ("split", "partition") and c.args and okk and isinstance(k, int) and not isinstance(k, bool):
                oks, sep = fenv.try_const(c.args[0])
                if not oks or not isinstance(sep, str):
                    continue
                if c.func.attr == "partition":
                    if k != 0:
                        raise TranslateError("parse_instruction: partition(sep)[%d] is not modelled" % k)
                elif len(c.args) == 2:
                    okm, m = fenv.try_const(c.args[1])
                    if not (okm and isinstance(m, int) and m >= 1 and k == 0):
                        raise TranslateError("parse_instruction: split(sep, n)[k] is not modelled")
                elif len(c.args) != 1 or c.keywords:
                    raise TranslateError("parse_instruction: unexpected split arguments")
                split = (sep, k)
    if split is None:
        raise TranslateError("parse_instruction: mnemonic split(...)[k] not found")
    appended = []
    def feeds_operands(nodes):      # the block hands the entry to process_operand (not e.g. the comment)
        return any(U.is_call(x, "process_operand") for n in nodes for x in ast.walk(n))

    for tested, used in U.keyed_blocks(pi, fenv, want=feeds_operands):
        if used != [tested]:
            raise TranslateError("parse_instruction: `if %r in result` appends %r" % (tested, used))
        appended.append(tested)
    pall = [n for n in ast.walk(pi) if U.is_call(n, ("parseString", "parse_string"))]
    ok_all = bool(pall) and all(_parse_all(fenv, n) for n in pall)
    return split, appended, ok_all


def _parse_all(fenv, call):
    vals = [kw.value for kw in call.keywords if kw.arg in ("parseAll", "parse_all")]
    if len(call.args) > 1:
        vals.append(call.args[1])
    return len(vals) == 1 and _const_true(fenv, vals[0])


def read_parse_line(pl, interp, instruction_all):
    fenv = U.FnEnv(pl, interp)
    stages = []
    for n in ast.walk(pl):
        if isinstance(n, ast.Call) and isinstance(n.func, ast.Attribute):
            f = n.func
            if f.attr in ("parseString", "parse_string"):
                who = fenv.resolve(f.value)
                if not isinstance(who, ast.Attribute):
                    raise TranslateError("parse_line: parseString on something that is not an attribute of the parser")
                stages.append((n.lineno, n.col_offset, who.attr + ("" if _parse_all(fenv, n) else "!noParseAll")))
            elif f.attr == "parse_instruction":
                stages.append((n.lineno, n.col_offset, "instruction" + ("" if instruction_all else "!noParseAll")))
    return [s for _, _, s in sorted(stages)]


def _ctor(fenv, v, name):
    """`Name(...)` or `Name(...) if <test> else None` (either way round) -> the call"""
    if U.is_call(v, name=name):
        return v
    if isinstance(v, ast.IfExp):
        for call, other in ((v.body, v.orelse), (v.orelse, v.body)):
            if U.is_call(call, name=name) and fenv.try_const(other) == (True, None):
                return call
    return None


def _get_key(fenv, v):
    """`d.get(K)` / `d.get(K, None)` / `d[K] if K in d else None` -> (True, K)"""
    if U.is_call(v, "get") and v.args and not v.keywords and len(v.args) <= 2:
        if len(v.args) == 2 and fenv.try_const(v.args[1]) != (True, None):
            return False, None
        return fenv.try_const(v.args[0])
    if isinstance(v, ast.IfExp) and isinstance(v.test, ast.Compare) and len(v.test.ops) == 1:
        t, pos, neg = v.test, v.body, v.orelse
        if isinstance(t.ops[0], ast.NotIn):
            pos, neg = neg, pos
        elif not isinstance(t.ops[0], ast.In):
            return False, None
        ok, k = fenv.try_const(t.left)
        if ok and isinstance(pos, ast.Subscript) and fenv.try_const(pos.slice) == (True, k) \
                and ast.dump(pos.value) == ast.dump(t.comparators[0]) and fenv.try_const(neg) == (True, None):
            return True, k
    return False, None


def read_memory(pm, interp):
    fenv = U.FnEnv(pm, interp)
    r = {}
    ctor = None
    for n in ast.walk(pm):
        if U.is_call(n, name="MemoryOperand"):
            ctor = n
    if ctor is None:
        raise TranslateError("process_memory_address: MemoryOperand(...) not found")
    # <var> = <anything>.get(<const key>, ...)
    gets = {}
    get_list = []
    regs = {}
    reg_list = []
    for line, _col, target, value in fenv.bindings:
        ok, k = _get_key(fenv, value)
        if ok and isinstance(k, str):
            gets.setdefault(target, []).append(k)
            get_list.append([line, target, k])
        # <var> = RegisterOperand(name=<src>[<const>], ...)
        call = _ctor(fenv, value, "RegisterOperand")
        if call is not None:
            for kw in call.keywords:
                if kw.arg == "name" and isinstance(kw.value, ast.Subscript) and isinstance(kw.value.value, ast.Name):
                    ok, k = fenv.try_const(kw.value.slice)
                    if ok:
                        regs.setdefault(target, []).append((kw.value.value.id, k))
                        reg_list.append([line, target, kw.value.value.id, k])
    # roles: the MemoryOperand keyword a value reaches
    role_get, role_reg = {}, {}     # get variable -> role ; RegisterOperand target -> role
    mem_ctor = []
    for kw in ctor.keywords:
        if kw.arg is None:
            raise TranslateError("process_memory_address: MemoryOperand(**...) is not modelled")
        if not isinstance(kw.value, ast.Name):
            mem_ctor.append(kw.arg + "=?")
            continue
        v = kw.value.id
        if v in regs:
            srcs = sorted(set(s for s, _ in regs[v]))
            if len(srcs) != 1:
                raise TranslateError("process_memory_address: %s is built from several registers" % v)
            if role_reg.setdefault(v, kw.arg) != kw.arg or role_get.setdefault(srcs[0], kw.arg) != kw.arg:
                raise TranslateError("process_memory_address: one value feeds two MemoryOperand fields")
            mem_ctor.append("%s=%sOp" % (kw.arg, kw.arg))
        else:
            if v in gets and role_get.setdefault(v, kw.arg) != kw.arg:
                raise TranslateError("process_memory_address: one value feeds two MemoryOperand fields")
            mem_ctor.append("%s=%s" % (kw.arg, kw.arg))
    r["mem_ctor"] = sorted(mem_ctor)
    r["mem_keys"] = [role_get.get(v, v) + "=" + k for _, v, k in get_list]
    r["reg_ctor"] = ["%s=%s[%s]" % ((role_reg[t] + "Op") if t in role_reg else t, role_get.get(s, s), k)
                     for _, t, s, k in reg_list]
    # scale default
    sv = [kw.value for kw in ctor.keywords if kw.arg == "scale"]
    default = None
    if len(sv) == 1 and isinstance(sv[0], ast.Name):
        name = sv[0].id

        def key_test(t):
            """`"scale" in m` -> True, `"scale" not in m` -> False"""
            neg = False
            while isinstance(t, ast.UnaryOp) and isinstance(t.op, ast.Not):
                t, neg = t.operand, not neg
            if isinstance(t, ast.Compare) and len(t.ops) == 1 and isinstance(t.ops[0], (ast.In, ast.NotIn)) \
                    and fenv.try_const(t.left) == (True, "scale"):
                return isinstance(t.ops[0], ast.In) != neg
            return None

        def int_const(n):
            ok, v = fenv.try_const(n)
            return v if ok and isinstance(v, int) and not isinstance(v, bool) else None

        found = []
        values = fenv.assigns.get(name, [])
        for v in values:
            if isinstance(v, ast.IfExp) and key_test(v.test) is not None:
                d = int_const(v.orelse if key_test(v.test) else v.body)
                if d is not None:
                    found.append(d)
            elif v is not None and int_const(v) is not None:
                found.append(int_const(v))
            elif U.is_call(v, name="int") and v.args and U.is_call(v.args[0], "get") and len(v.args[0].args) == 2 \
                    and fenv.try_const(v.args[0].args[0]) == (True, "scale"):
                okd, dv = fenv.try_const(v.args[0].args[1])
                okb, bv = fenv.try_const(v.args[1]) if len(v.args) > 1 else (True, 10)
                if okd and okb:
                    try:
                        found.append(int(dv, bv) if isinstance(dv, str) else int(dv))
                    except (ValueError, TypeError):
                        pass
        if len(found) == 1:
            default = found[0]
    if not isinstance(default, int):
        raise TranslateError("process_memory_address: scale default not found")
    r["scale_default"] = default
    return r


def _int_bases(fn, interp, fname):
    fenv = U.FnEnv(fn, interp)
    bases = []
    for n in sorted((n for n in ast.walk(fn) if U.is_call(n, name="int")), key=lambda n: (n.lineno, n.col_offset)):
        bnode = n.args[1] if len(n.args) == 2 else None
        for k in n.keywords:
            if k.arg == "base" and bnode is None:
                bnode = k.value
            else:
                raise TranslateError("%s: unexpected int() call" % fname)
        if bnode is not None:
            ok, v = fenv.try_const(bnode)
            if not ok or not isinstance(v, int) or isinstance(v, bool):
                raise TranslateError("%s: unexpected int() call" % fname)
            bases.append(v)
        elif len(n.args) == 1:
            bases.append(10)
        else:
            raise TranslateError("%s: unexpected int() call" % fname)
    return bases


@generator("X86Parser", [SRC, BASE])
def gen_x86parser():
    tree = parse(SRC)
    tb = parse(BASE)
    pcls = U.class_node(tree, "ParserX86ATT")
    bcls = U.class_node(tb, "BaseParser")
    g = read_grammar(U.construct(tree, [pcls, bcls]))
    interp = U.Interp(tree, [pcls, bcls])
    dec_lits, hex_lits, dec_words, hex_words = g["dec_lits"], g["hex_lits"], g["dec_words"], g["hex_words"]
    comment_syms, comment_words = g["comment_syms"], g["comment_words"]
    first, rest, label_rest, delims = g["first"], g["rest"], g["label_rest"], g["delims"]
    reloc_sym, reloc_word, id_off_sym = g["reloc_sym"], g["reloc_word"], g["id_off_sym"]
    suffixes, caseless = g["suffixes"], g["caseless"]
    reg_lits, reg_words, imm_lits, scale, mem_lits = g["reg_lits"], g["reg_words"], g["imm_lits"], g["scale"], g["mem_lits"]
    dir_lits, dir_words, dparam_words, dparam_lits = g["dir_lits"], g["dir_words"], g["dparam_words"], g["dparam_lits"]
    mn_prefixes, mn_word, op_names, ins_seps = g["mn_prefixes"], [g["mn_word"]], g["op_names"], g["ins_seps"]

    # ---- parse_instruction: result["mnemonic"].split(",")[0]; operands appended in which order
    split, appended, instruction_all = read_parse_instruction(U.method(pcls, "parse_instruction"), interp)
    # ---- parse_line: order of the four stages, parseAll
    stages = read_parse_line(U.method(pcls, "parse_line"), interp, instruction_all)
    # ---- process_memory_address / process_immediate: int(x, base) and the scale default
    bases = []
    for fname in ("process_memory_address", "process_immediate"):
        bases += _int_bases(U.method(pcls, fname), interp, fname)
    m = read_memory(U.method(pcls, "process_memory_address"), interp)
    scale_default, mem_keys, mem_ctor, reg_ctor = m["scale_default"], m["mem_keys"], m["mem_ctor"], m["reg_ctor"]

    # ---- parse_file
    pf = U.read_parse_file(U.method(bcls, "parse_file"), U.Interp(tb, [bcls]))
    sep, enum_start, lineno_const, lineno_terms, blank = pf["sep"], pf["enum_start"], pf["const"], pf["terms"], pf["blank"]
    if lineno_const < 0:
        raise TranslateError("parse_file: parse_line(line, <number>) not found")
    first_arg = "line" if pf["line_is_element"] else "?"

    # ---- grammar digests
    dump = _grammar_digests()
    digests = []
    for k in sorted(dump):
        h = hashlib.sha256("\n".join(dump[k]).encode()).hexdigest()[:15]
        digests.append((k, int(h, 16), len(dump[k])))
    dump_path = os.path.join(T.OUT, "X86Grammar.txt")
    try:
        with open(dump_path, "w", encoding="utf-8") as f:
            f.write(grammar_dump_text_from(dump))
    except OSError:
        pass

    def cls(c):
        base, extra, excl, exact = c
        return "(%s, %s, %s, %d)" % (txt(base), txt(extra), txt(excl), exact)

    o = [HEADER, "namespace OsacaVerif.Gen.X86Parser\n"]
    o.append("/-- a pyparsing `Word(...)` character class as written in the source:\n"
             "    (name of the `pp.` constant, extra characters, excludeChars, exact) -/")
    o.append("abbrev WordClass := List Nat × List Nat × List Nat × Nat\n")
    o.append("/-- `decimal_number`: sign literal, digit class -/")
    o.append("def decimalSign : List Nat := %s" % txt(dec_lits[0]))
    o.append("def decimalDigits : WordClass := %s" % cls(dec_words[0]))
    o.append("/-- `hex_number`: sign literal, prefix literal, digit class -/")
    o.append("def hexSign : List Nat := %s" % txt(hex_lits[0]))
    o.append("def hexPrefix : List Nat := %s" % txt(hex_lits[1]))
    o.append("def hexDigits : WordClass := %s\n" % cls(hex_words[0]))
    o.append("/-- comment symbols (`pp.Literal`s of `self.comment`, in order) and the word class of its body -/")
    o.append("def commentSymbols : List (List Nat) := %s" % txt_list(comment_syms))
    o.append("def commentWord : WordClass := %s\n" % cls(comment_words[0]))
    o.append("/-- identifier: first character, rest, label rest, `::` delimiter, relocation, id_offset `+` -/")
    o.append("def identFirst : WordClass := %s" % cls(first))
    o.append("def identRest : WordClass := %s" % cls(rest))
    o.append("def labelRest : WordClass := %s" % cls(label_rest))
    o.append("def nameDelim : List Nat := %s" % txt(delims[0]))
    o.append("def relocationSymbol : List Nat := %s" % txt(reloc_sym[0]))
    o.append("def relocationWord : WordClass := %s" % cls(reloc_word[0]))
    o.append("def idOffsetPlus : List Nat := %s" % txt(id_off_sym[0]))
    o.append("def numericSuffixes : List (List Nat) := %s" % txt_list(suffixes))
    o.append("def numericSuffixCaseless : Bool := %s\n" % ("true" if caseless else "false"))
    o.append("/-- register: literals in source order (`%`, `(`, `)`, `{`, `%`, `}`, `{`, `z`, `}`), name/index/mask classes -/")
    o.append("def registerLiterals : List (List Nat) := %s" % txt_list(reg_lits))
    o.append("def registerWords : List WordClass := [%s]\n" % ", ".join(cls(w) for w in reg_words))
    o.append("def immediateSymbol : List Nat := %s" % txt(imm_lits[0]))
    o.append("def scaleWord : WordClass := %s" % cls(scale))
    o.append("/-- literals of the `memory` expression in source order -/")
    o.append("def memoryLiterals : List (List Nat) := %s\n" % txt_list(mem_lits))
    o.append("def directiveSymbol : List Nat := %s" % txt(dir_lits[0]))
    o.append("def directiveName : WordClass := %s" % cls(dir_words[0]))
    o.append("def directiveParam : WordClass := %s" % cls(dparam_words[0]))
    o.append("def directiveParamSeps : List (List Nat) := %s\n" % txt_list(dparam_lits))
    o.append("def mnemonicPrefixes : List (List Nat) := %s" % txt_list(mn_prefixes))
    o.append("def mnemonicWord : WordClass := %s" % cls(mn_word[0]))
    o.append("/-- `result[\"mnemonic\"].split(sep)[k]` -/")
    o.append("def mnemonicSplit : List Nat × Nat := (%s, %d)" % (txt(split[0]), split[1]))
    o.append("/-- results names set inside `instruction_parser`, its separator literals, and the keys\n"
             "    `parse_instruction` appends in order -/")
    o.append("def instructionResultNames : List (List Nat) := %s" % txt_list(op_names))
    o.append("def instructionSeparators : List (List Nat) := %s" % txt_list(ins_seps))
    o.append("def operandsAppended : List (List Nat) := %s\n" % txt_list(appended))
    o.append("/-- stages of `parse_line` in source order -/")
    o.append("def stageOrder : List (List Nat) := %s  -- %s\n" % (txt_list(stages), " ".join(stages)))
    o.append("/-- second argument of every `int(x, b)` in process_memory_address, process_immediate (source order) -/")
    o.append("def intBases : List Nat := [%s]" % ", ".join(str(b) for b in bases))
    o.append("def scaleDefault : Nat := %d" % scale_default)
    o.append("def memoryKeys : List (List Nat) := %s  -- %s" % (txt_list(mem_keys), " ".join(mem_keys)))
    o.append("def memoryCtor : List (List Nat) := %s  -- %s" % (txt_list(mem_ctor), " ".join(mem_ctor)))
    o.append("def memoryRegCtor : List (List Nat) := %s  -- %s\n" % (txt_list(reg_ctor), " ".join(reg_ctor)))
    o.append("/-- `parse_file`: split literal, `enumerate` start, integer constant of the line-number\n"
             "    expression and its variables, the strip method of the blank test, first argument of parse_line -/")
    o.append("def lineSeparator : List Nat := %s" % txt(sep))
    o.append("def enumerateStart : Nat := %d" % enum_start)
    o.append("def lineNumberConst : Nat := %d" % lineno_const)
    o.append("def lineNumberTerms : List (List Nat) := %s  -- %s" % (txt_list(lineno_terms), " ".join(lineno_terms)))
    o.append("def blankTest : List Nat := %s  -- %s" % (txt(blank), blank))
    o.append("def parseLineArg : List Nat := %s  -- %s\n" % (txt(first_arg), first_arg))
    o.append("/-- sha256 (60 bits) of the structural dump of the constructed pyparsing grammar, per component\n"
             "    (full dump: Gen/X86Grammar.txt) -/")
    o.append("def grammarDigest : List Nat := [%s]" % ", ".join(str(d) for _, d, _ in digests))
    o.append("-- " + ", ".join("%s:%d lines" % (k, n) for k, _, n in digests))
    o.append("\nend OsacaVerif.Gen.X86Parser\n")
    return "\n".join(o)


def grammar_dump_text_from(res):
    lines = []
    for k in sorted(res):
        lines.append("== " + k)
        lines += res[k]
    return "\n".join(lines) + "\n"
