"""Gen/HistoryCfg.lean: how the analysis treats the list objects it gets from the machine model
(C18).  Every flag says whether an object of the machine model is handed on BY REFERENCE or as a copy, and is
read by DATA FLOW (astutil_G5.Flow / Origins; nothing of OSACA is imported or executed): the objects are tagged
where they come from (`get_load_throughput(..)`, `.hidden_operands`, `.port_pressure`,
`_data["load_throughput_default"]`) and the tags are propagated through every way a local gets a value --
plain / tuple / conditional assignment, `a or [b]`, loop targets, comprehensions, `append` / `extend` / `+=`,
subscripts with constant index, shallow and deep copies.  Names of locals, hoisted sub-expressions, if/else vs
conditional expression vs guard, loop vs comprehension do not show.

  rmwInPlace / rmwLoadFirst   arch_semantics.assign_tp_lt: the ONE statement that concatenates a load micro-op
                              list with a store micro-op list (`L += S`, `L.extend(S)`  vs  `X = L + S`,
                              `S + L`, `[*L, *S]`, `list(chain(L, S))`)
  loadByRef                   ... whether a copy lies on any way from the load table to that statement
                              (`load_perf_data[0][1]`, `ldp[1]` / `uops` of `for mem, uops in ...`); all ways
                              must agree, otherwise the generator fails
  loadDefaultCopied           hw_model.get_load_throughput: `[(memory, <load_throughput_default>.copy())]`,
                              also through locals, `list(...)`, `[:]`
  foundByRef                  arch_semantics._handle_instruction_found: `<form>.port_uops = <data>.port_pressure`
  hiddenByRef                 isa_semantics._apply_found_ISA_data: every way a hidden operand object reaches an
                              operand list (`append(op)` in the loop, `+= [h for h in ...]`, `extend`)
  cacheShadowed               hw_model.MachineModel.__init__: runtime-cache hit followed by an
                              unconditional `_get_cached` whose result replaces it (statement shape, as before)

Insisted on (fails loudly): one call each of get_load_throughput / get_store_throughput in assign_tp_lt, exactly
one joining statement, the load list never appended to the store table's list in place, no operand that may be a
load list as well as a store list.

`census()` lists every in-place operation of the anchored functions (used by the harness only to
decide how hard to search; it is not an input of any theorem).
"""
import ast

import os
import sys

from translate import TranslateError, generator, parse, find_func, HEADER


def _load_g5():
    """astutil_G5.py next to this file, loaded by path (sys.path is left alone)"""
    import importlib.util
    if "astutil_G5" in sys.modules:
        return sys.modules["astutil_G5"]
    spec = importlib.util.spec_from_file_location(
        "astutil_G5", os.path.join(os.path.dirname(os.path.abspath(__file__)), "astutil_G5.py"))
    mod = importlib.util.module_from_spec(spec)
    sys.modules["astutil_G5"] = mod
    try:
        spec.loader.exec_module(mod)
    except BaseException:
        del sys.modules["astutil_G5"]
        raise
    return mod


G5 = _load_g5()

COPY_FUNCS = {"list", "deepcopy", "copy", "tuple", "sorted"}


def _is_copy_call(node):
    """`x.copy()`, `list(x)`, `deepcopy(x)`, `copy.copy(x)`, `x[:]` -> the wrapped expression, else None"""
    if isinstance(node, ast.Call):
        f = node.func
        if isinstance(f, ast.Attribute) and f.attr == "copy" and not node.args:
            return f.value
        if isinstance(f, ast.Name) and f.id in COPY_FUNCS and len(node.args) == 1:
            return node.args[0]
        if isinstance(f, ast.Attribute) and f.attr in ("copy", "deepcopy") and len(node.args) == 1:
            return node.args[0]
    if isinstance(node, ast.Subscript) and isinstance(node.slice, ast.Slice):
        s = node.slice
        if s.lower is None and s.upper is None and s.step is None:
            return node.value
    return None


def _strip_copy(node):
    inner = _is_copy_call(node)
    return (inner, True) if inner is not None else (node, False)


def _const_index(node, want):
    """node is `X[want]` with a constant index -> X, else None"""
    if isinstance(node, ast.Subscript) and isinstance(node.slice, ast.Constant) and node.slice.value == want:
        return node.value
    return None


def _name(node):
    return node.id if isinstance(node, ast.Name) else None


def _method(tree, name, cls):
    """the method with the calls of private / static helper methods of its class substituted (two levels):
    "extract method" does not hide a data flow (astutil_G5.inline_helpers)"""
    fn = find_func(tree, name, cls)
    cnode = [n for n in ast.walk(tree) if isinstance(n, ast.ClassDef) and n.name == cls][0]
    new, used = G5.inline_helpers(fn, G5.class_resolver([cnode], fn, only=G5.is_private_helper), depth=2)
    return new if used else fn


# --------------------------------------------------------------------------- assign_tp_lt by data flow
def _method_call(node, attr):
    return isinstance(node, ast.Call) and isinstance(node.func, ast.Attribute) and node.func.attr == attr


def _const(node):
    """constant subscripts: literals and simple arithmetic on them (`0`, `-1`, `2 - 1`)"""
    return ast.literal_eval(ast.fix_missing_locations(ast.Expression(body=node))) if not isinstance(node, ast.Constant) \
        else node.value


def _origins(fn):
    """Tags of the objects that come out of the two throughput tables (G5.Origins):

        LP / SP        the list returned by get_load_throughput(..) / get_store_throughput(..)  (or a shallow
                       copy / a filtered sub-list of it: the entries are the same objects)
        LPE / SPE      one entry `(memory operand, micro-op list)` of it
        LPL / SPL      the micro-op list of an entry -- the object the model cares about
        LPC / SPC      a list of such micro-op lists (`[ldp[1] for ldp in load_perf_data ...]`)
    """
    def source(node):
        if _method_call(node, "get_load_throughput"):
            return "LP"
        if _method_call(node, "get_store_throughput"):
            return "SP"
        return None

    def index(kind, k):
        if kind in ("LP", "SP") and isinstance(k, int):
            return kind + "E"
        if kind in ("LPE", "SPE"):
            return kind[:2] + "L" if k == 1 or k == -1 else None
        if kind in ("LPC", "SPC") and isinstance(k, int):
            return kind[:2] + "L"
        return None

    def elem(kind):
        return {"LP": "LPE", "SP": "SPE", "LPC": "LPL", "SPC": "SPL"}.get(kind)

    def collect(kind):
        return {"LPE": "LP", "SPE": "SP", "LPL": "LPC", "SPL": "SPC"}.get(kind)

    def copied(kind, how):
        if how == "deep":
            return kind, True
        # a shallow copy of the table / of a list of micro-op lists still holds the very same inner lists
        return kind, kind in ("LPL", "SPL")

    return G5.Origins(G5.Flow(fn), source, index, elem, collect, copied, _const)


def rmw_flags():
    """The join of store micro-ops to load micro-ops in `assign_tp_lt`, found by DATA FLOW (names, hoisted
    locals, if/else vs conditional expression vs `or`-default, loop vs comprehension do not matter): the one
    statement that concatenates an expression holding a load micro-op list with one holding a store micro-op
    list; the load list is `by reference` iff no copy lies on any way from the table to that statement."""
    tree = parse("osaca/semantics/arch_semantics.py")
    fn = _method(tree, "assign_tp_lt", "ArchSemantics")
    O = _origins(fn)
    n_lp = sum(1 for n in ast.walk(fn) if _method_call(n, "get_load_throughput"))
    n_sp = sum(1 for n in ast.walk(fn) if _method_call(n, "get_store_throughput"))
    if n_lp != 1 or n_sp != 1:
        raise TranslateError("assign_tp_lt: expected one call of get_load_throughput(...) and one of "
                             "get_store_throughput(...), got %d / %d" % (n_lp, n_sp))

    def kinds(node):
        return {k for k, _ in O.tags(node)}

    def is_l(node):
        return "LPL" in kinds(node)

    def is_s(node):
        return "SPL" in kinds(node)

    def pair(a, b):
        """("L first"?, load expr) if {a, b} is one load list and one store list"""
        if is_l(a) and is_s(b) and not is_s(a) and not is_l(b):
            return True, a
        if is_s(a) and is_l(b) and not is_l(a) and not is_s(b):
            return False, b
        if (is_l(a) or is_s(a)) and (is_l(b) or is_s(b)):
            raise TranslateError("assign_tp_lt: an operand of the join at line %s may be a load list as well as a "
                                 "store list" % getattr(a, "lineno", "?"))
        return None

    found = []      # (kind, load first, load expression, node)
    for n in G5.walk_scope(fn):
        if isinstance(n, ast.AugAssign) and isinstance(n.op, ast.Add):
            p = pair(n.target, n.value) if isinstance(n.target, ast.Name) else None
            if p is not None:
                if not p[0]:
                    raise TranslateError("assign_tp_lt: the load micro-ops are appended to the store table's list "
                                         "in place (line %d): not modelled" % n.lineno)
                found.append(("inplace", True, p[1], n))
        elif isinstance(n, ast.Call) and isinstance(n.func, ast.Attribute) and n.func.attr == "extend" \
                and len(n.args) == 1 and not n.keywords:
            p = pair(n.func.value, n.args[0])
            if p is not None:
                if not p[0]:
                    raise TranslateError("assign_tp_lt: the load micro-ops are appended to the store table's list "
                                         "in place (line %d): not modelled" % n.lineno)
                found.append(("inplace", True, p[1], n))
        elif isinstance(n, ast.BinOp) and isinstance(n.op, ast.Add):
            p = pair(n.left, n.right)
            if p is not None:
                found.append(("fresh", p[0], p[1], n))
        elif isinstance(n, (ast.List, ast.Tuple)) and len(n.elts) == 2 and all(isinstance(e, ast.Starred) for e in n.elts):
            p = pair(n.elts[0].value, n.elts[1].value)
            if p is not None:
                found.append(("fresh", p[0], p[1], n))
        elif isinstance(n, ast.Call) and G5_call_name(n) in ("chain", "from_iterable"):
            args = n.args
            if G5_call_name(n) == "from_iterable" and len(args) == 1 and isinstance(args[0], (ast.List, ast.Tuple)):
                args = args[0].elts
            if len(args) == 2 and not n.keywords:
                p = pair(args[0], args[1])
                if p is not None:
                    found.append(("fresh", p[0], p[1], n))
    if len(found) != 1:
        raise TranslateError("assign_tp_lt: expected exactly one statement joining the load micro-ops and the store "
                             "micro-ops, found %r" % [(k, f, getattr(x, "lineno", "?")) for k, f, _, x in found])
    kind, load_first, lexpr, _ = found[0]
    copies = {cp for k, cp in O.tags(lexpr) if k == "LPL"}
    if len(copies) != 1:
        raise TranslateError("assign_tp_lt: load micro-ops are copied on one path and not on the other")
    return {"rmwInPlace": kind == "inplace", "rmwLoadFirst": load_first, "loadByRef": not copies.pop()}


def G5_call_name(n):
    f = n.func
    return f.attr if isinstance(f, ast.Attribute) else f.id if isinstance(f, ast.Name) else None


def _peel_copies(node, flow):
    """(innermost expression, was any copy made) looking through hoisted locals and nested copies"""
    copied = False
    for _ in range(20):
        node = flow.resolve(node)
        cc = G5.copy_call(node)
        if cc is None:
            break
        node, copied = cc[0], True
    return node, copied


def load_default_copied():
    tree = parse("osaca/semantics/hw_model.py")
    fn = _method(tree, "get_load_throughput", "MachineModel")
    flow = G5.Flow(fn)
    hits = set()
    for r in G5.walk_scope(fn):
        if not isinstance(r, ast.Return) or r.value is None:
            continue
        for v in G5.value_leaves(flow.resolve(r.value)):
            v = flow.resolve(v)
            if isinstance(v, ast.List) and len(v.elts) == 1:
                e = flow.resolve(v.elts[0])
                if isinstance(e, ast.Tuple) and len(e.elts) == 2:
                    x, copied = _peel_copies(e.elts[1], flow)
                    if isinstance(x, ast.Subscript) and not isinstance(x.slice, ast.Slice):
                        key = flow.resolve(x.slice)
                        if isinstance(key, ast.Constant) and key.value == "load_throughput_default":
                            hits.add(copied)
    if len(hits) != 1:
        raise TranslateError("get_load_throughput: `return [(memory, ...load_throughput_default...)]` not found "
                             "(or copied on one path only)")
    return hits.pop()


def found_by_ref():
    tree = parse("osaca/semantics/arch_semantics.py")
    fn = _method(tree, "_handle_instruction_found", "ArchSemantics")
    flow = G5.Flow(fn)
    hits = []
    cands = []
    for n in G5.walk_scope(fn):
        if isinstance(n, ast.Assign) and any(isinstance(t, ast.Attribute) and t.attr == "port_uops" for t in n.targets):
            cands.append(n.value)
        elif isinstance(n, ast.Call) and isinstance(n.func, ast.Name) and n.func.id == "setattr" and len(n.args) == 3 \
                and isinstance(n.args[1], ast.Constant) and n.args[1].value == "port_uops":
            cands.append(n.args[2])
    for value in cands:
        for leaf in G5.value_leaves(flow.resolve(value)):
            v, copied = _peel_copies(leaf, flow)
            if isinstance(v, ast.Attribute) and v.attr == "port_pressure":
                hits.append(not copied)
    if len(hits) != 1:
        raise TranslateError("_handle_instruction_found: `<form>.port_uops = <data>.port_pressure` not found uniquely")
    return hits[0]


def hidden_by_ref():
    """Every way a hidden operand object of the ISA entry reaches a list (`append(op)` in a loop over
    `.hidden_operands`, `+= [h for h in ...]`, `.extend(...)`) -- by reference iff no copy lies on the way;
    all ways must agree."""
    tree = parse("osaca/semantics/isa_semantics.py")
    fn = _method(tree, "_apply_found_ISA_data", "ISASemantics")

    def source(node):
        return "HL" if isinstance(node, ast.Attribute) and node.attr == "hidden_operands" else None

    O = G5.Origins(G5.Flow(fn), source,
                   index=lambda kind, k: "HO" if kind in ("HL", "HC") and isinstance(k, int) else None,
                   elem=lambda kind: "HO" if kind in ("HL", "HC") else None,
                   collect=lambda kind: "HC" if kind == "HO" else None,
                   copied=lambda kind, how: (kind, how == "deep" or kind == "HO"),
                   const=_const)
    hits = []
    for n in G5.walk_scope(fn):
        tags = set()
        if isinstance(n, ast.Call) and isinstance(n.func, ast.Attribute) and not n.keywords:
            if n.func.attr == "append" and len(n.args) == 1:
                tags = {t for t in O.tags(n.args[0]) if t[0] == "HO"}
            elif n.func.attr == "insert" and len(n.args) == 2:
                tags = {t for t in O.tags(n.args[1]) if t[0] == "HO"}
            elif n.func.attr == "extend" and len(n.args) == 1:
                tags = {t for t in O.tags(n.args[0]) if t[0] in ("HL", "HC")}
        elif isinstance(n, ast.AugAssign) and isinstance(n.op, ast.Add):
            tags = {t for t in O.tags(n.value) if t[0] in ("HL", "HC")}
        elif isinstance(n, ast.Assign) and isinstance(n.value, ast.BinOp) and isinstance(n.value.op, ast.Add):
            tags = {t for side in (n.value.left, n.value.right) for t in O.tags(side) if t[0] in ("HL", "HC")}
        hits += [not cp for _, cp in tags]
    if not hits or len(set(hits)) != 1:
        raise TranslateError("_apply_found_ISA_data: hidden operands reach the operand lists %s"
                             % ("on no way that is understood" if not hits else "copied on one way and not on another"))
    return hits[0]


def cache_shadowed():
    tree = parse("osaca/semantics/hw_model.py")
    fn = find_func(tree, "__init__", "MachineModel")

    def mentions_cache(node):
        return any(isinstance(x, ast.Attribute) and x.attr == "_runtime_cache" for x in ast.walk(node))

    def is_get_cached_assign(node):
        return isinstance(node, ast.Assign) and any(
            isinstance(x, ast.Call) and isinstance(x.func, ast.Attribute) and x.func.attr == "_get_cached"
            for x in ast.walk(node.value))

    def assigns_data_from(node, name):
        return any(isinstance(x, ast.Assign) and len(x.targets) == 1 and isinstance(x.targets[0], ast.Attribute)
                   and x.targets[0].attr == "_data" and _name(x.value) == name for x in ast.walk(node))

    for body in [n.body for n in ast.walk(fn) if hasattr(n, "body") and isinstance(n.body, list)] + \
                [n.orelse for n in ast.walk(fn) if getattr(n, "orelse", None)]:
        for i, st in enumerate(body):
            if isinstance(st, ast.If) and isinstance(st.test, (ast.BoolOp, ast.Compare)) and mentions_cache(st.test) \
                    and any(isinstance(c, ast.Compare) and any(isinstance(o, ast.In) for o in c.ops)
                            for c in ast.walk(st.test)):
                # runtime-cache test found; where is the _get_cached lookup?
                rest = body[i + 1:]
                sib = [s for s in rest if is_get_cached_assign(s)]
                if sib:
                    cached_name = _name(sib[0].targets[0])
                    later = rest[rest.index(sib[0]) + 1:]
                    if cached_name and any(isinstance(s, ast.If) and _name(s.test) == cached_name
                                           and assigns_data_from(ast.Module(body=s.body, type_ignores=[]), cached_name)
                                           for s in later):
                        return True
                    raise TranslateError("MachineModel.__init__: `_get_cached` result is not used as expected")
                if any(is_get_cached_assign(s) for o in st.orelse for s in ast.walk(o) if isinstance(s, ast.Assign)):
                    return False
                if not any(is_get_cached_assign(s) for s in ast.walk(fn) if isinstance(s, ast.Assign)):
                    raise TranslateError("MachineModel.__init__: no `_get_cached` lookup")
                raise TranslateError("MachineModel.__init__: cannot relate `_get_cached` lookup to the runtime-cache test")
    raise TranslateError("MachineModel.__init__: runtime-cache test (`path in _runtime_cache`) not found")


def flags():
    f = rmw_flags()
    f["loadDefaultCopied"] = load_default_copied()
    f["foundByRef"] = found_by_ref()
    f["hiddenByRef"] = hidden_by_ref()
    f["cacheShadowed"] = cache_shadowed()
    return f


ORDER = ["rmwInPlace", "rmwLoadFirst", "loadByRef", "loadDefaultCopied", "foundByRef", "hiddenByRef",
         "cacheShadowed"]
DOC = {
    "rmwInPlace": "`assign_tp_lt`: store micro-ops joined to the load micro-ops in place (`+=` / `.extend`)",
    "rmwLoadFirst": "load micro-ops come first in the joined list",
    "loadByRef": "`data_port_uops` is the load table's own list (`load_perf_data[0][1]`, `ldp[1]`), not a copy",
    "loadDefaultCopied": "`get_load_throughput` hands out `load_throughput_default.copy()`",
    "foundByRef": "`_handle_instruction_found`: `port_uops = instruction_data.port_pressure` without copy",
    "hiddenByRef": "`_apply_found_ISA_data` appends the ISA entry's hidden operand objects themselves",
    "cacheShadowed": "`MachineModel.__init__`: the runtime-cache hit is replaced by the `_get_cached` result",
}


@generator("HistoryCfg", ["osaca/semantics/arch_semantics.py", "osaca/semantics/isa_semantics.py",
                          "osaca/semantics/hw_model.py", "../verif-self:tools/gen/historycfg.py",
                          "../verif-self:tools/gen/astutil_G5.py"])
def gen_historycfg():
    f = flags()
    out = [HEADER, "namespace OsacaVerif.Gen.HistoryCfg\n"]
    for k in ORDER:
        out.append("/-- %s -/" % DOC[k])
        out.append("def %s : Bool := %s\n" % (k, "true" if f[k] else "false"))
    out.append("end OsacaVerif.Gen.HistoryCfg\n")
    return "\n".join(out)


# --------------------------------------------------------------------------- census (harness only)
MUTATORS = {"append", "extend", "insert", "remove", "pop", "clear", "sort", "reverse", "update",
            "setdefault", "add", "discard", "popitem"}
CENSUS_FUNCS = [
    ("osaca/semantics/arch_semantics.py", "ArchSemantics", ["add_semantics", "assign_tp_lt", "_handle_instruction_found",
                                                            "set_hidden_loads", "_nullify_data_ports"]),
    ("osaca/semantics/isa_semantics.py", "ISASemantics", ["__init__", "assign_src_dst", "_apply_found_ISA_data",
                                                          "substitute_mem_address"]),
    ("osaca/semantics/hw_model.py", "MachineModel", ["get_instruction", "average_port_pressure", "get_load_throughput",
                                                     "get_store_throughput", "get_load_latency", "get_ports"]),
    ("osaca/osaca.py", None, ["inspect", "get_asm_parser"]),
]


def census():
    """Sorted list of `file:function:kind:target` for every in-place operation in the anchored functions."""
    out = []
    for rel, cls, names in CENSUS_FUNCS:
        tree = parse(rel)
        for name in names:
            try:
                fn = find_func(tree, name, cls)
            except TranslateError:
                out.append("%s:%s:missing:" % (rel, name))
                continue
            for n in ast.walk(fn):
                if isinstance(n, ast.AugAssign):
                    out.append("%s:%s:aug%s:%s" % (rel, name, type(n.op).__name__, ast.unparse(n.target)))
                elif isinstance(n, ast.Delete):
                    out.append("%s:%s:del:%s" % (rel, name, ",".join(ast.unparse(t) for t in n.targets)))
                elif isinstance(n, ast.Call) and isinstance(n.func, ast.Attribute) and n.func.attr in MUTATORS:
                    out.append("%s:%s:%s:%s" % (rel, name, n.func.attr, ast.unparse(n.func.value)))
                elif isinstance(n, ast.Assign):
                    for t in n.targets:
                        for tt in (t.elts if isinstance(t, (ast.Tuple, ast.List)) else [t]):
                            if isinstance(tt, ast.Subscript):
                                out.append("%s:%s:setitem:%s" % (rel, name, ast.unparse(tt.value)))
                            elif isinstance(tt, ast.Attribute):
                                out.append("%s:%s:setattr:%s" % (rel, name, ast.unparse(tt)))
    return sorted(out)
