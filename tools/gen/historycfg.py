"""Gen/HistoryCfg.lean: how the analysis treats the list objects it gets from the machine model
(C18).  Every flag is read off the *shape* of the statement in the source's AST:

  rmwInPlace / rmwLoadFirst   arch_semantics.assign_tp_lt: how the store micro-ops are joined to the
                              load micro-ops (`L += S`, `L.extend(S)`  vs  `L = L + S`, `L = S + L`, ...)
  loadByRef                   ... whether L is the table's own list (`load_perf_data[0][1]`, `ldp[1]`)
  loadDefaultCopied           hw_model.get_load_throughput: `load_throughput_default.copy()`
  foundByRef                  arch_semantics._handle_instruction_found: `port_uops = data.port_pressure`
  hiddenByRef                 isa_semantics._apply_found_ISA_data: `op_dict[..].append(op)`
  cacheShadowed               hw_model.MachineModel.__init__: runtime-cache hit followed by an
                              unconditional `_get_cached` whose result replaces it

`census()` lists every in-place operation of the anchored functions (used by the harness only to
decide how hard to search; it is not an input of any theorem).
"""
import ast

from translate import TranslateError, generator, parse, find_func, HEADER

COPY_FUNCS = {"list", "deepcopy", "copy", "tuple", "sorted"}


def _is_copy_call(node):
    """`x.copy()`, `list(x)`, `deepcopy(x)`, `copy.copy(x)`, `x[:]` -> the wrapped expression, else None"""
    if isinstance(node, ast.Call):
        f = node.func
        if isinstance(f, ast.Attribute) and f.attr == "copy" and not node.args:
            return f.value
        if isinstance(f, ast.Name) and f.id in COPY_FUNCS and len(node.args) == 1:
            return node.args[0]
        if isinstance(f, ast.Attribute) and f.attr in ("copy", "deepcopy") and len(node.args) == 1:
            return node.args[0]
    if isinstance(node, ast.Subscript) and isinstance(node.slice, ast.Slice):
        s = node.slice
        if s.lower is None and s.upper is None and s.step is None:
            return node.value
    return None


def _strip_copy(node):
    inner = _is_copy_call(node)
    return (inner, True) if inner is not None else (node, False)


def _const_index(node, want):
    """node is `X[want]` with a constant index -> X, else None"""
    if isinstance(node, ast.Subscript) and isinstance(node.slice, ast.Constant) and node.slice.value == want:
        return node.value
    return None


def _name(node):
    return node.id if isinstance(node, ast.Name) else None


def _assigned_from_call(fn, attr):
    """names assigned from `<anything>.<attr>(...)` inside fn"""
    out = []
    for n in ast.walk(fn):
        if isinstance(n, ast.Assign) and len(n.targets) == 1 and isinstance(n.targets[0], ast.Name):
            v = n.value
            if isinstance(v, ast.Call) and isinstance(v.func, ast.Attribute) and v.func.attr == attr:
                out.append(n.targets[0].id)
    return out


def rmw_flags():
    tree = parse("osaca/semantics/arch_semantics.py")
    fn = find_func(tree, "assign_tp_lt", "ArchSemantics")
    lps = set(_assigned_from_call(fn, "get_load_throughput"))
    sps = set(_assigned_from_call(fn, "get_store_throughput"))
    if len(lps) != 1 or len(sps) != 1:
        raise TranslateError("assign_tp_lt: expected one name holding get_load_throughput(...) and one "
                             "holding get_store_throughput(...), got %r / %r" % (sorted(lps), sorted(sps)))
    (lp,), (sp,) = lps, sps
    # L: `L = <lp>[0][1]` (possibly copied);  S: `S = <sp>[0][1]`
    l_names, l_byref, s_names = set(), [], set()
    for n in ast.walk(fn):
        if isinstance(n, ast.Assign) and len(n.targets) == 1 and isinstance(n.targets[0], ast.Name):
            v, copied = _strip_copy(n.value)
            base = _const_index(v, 1)
            base = _const_index(base, 0) if base is not None else None
            if base is not None and _name(base) == lp:
                l_names.add(n.targets[0].id)
                l_byref.append(not copied)
            if base is not None and _name(base) == sp:
                s_names.add(n.targets[0].id)
    if len(l_names) != 1 or len(s_names) != 1:
        raise TranslateError("assign_tp_lt: `X = %s[0][1]` / `Y = %s[0][1]` not found uniquely (%r, %r)"
                             % (lp, sp, sorted(l_names), sorted(s_names)))
    (L,), (S,) = l_names, s_names
    # the other way L gets its value: `L = [ldp[1] for ldp in <lp> ...]` followed by `L = L[0]`
    for n in ast.walk(fn):
        if isinstance(n, ast.Assign) and len(n.targets) == 1 and _name(n.targets[0]) == L \
                and isinstance(n.value, ast.ListComp):
            gens = n.value.generators
            if len(gens) == 1 and _name(gens[0].iter) == lp and isinstance(gens[0].target, ast.Name):
                elt, copied = _strip_copy(n.value.elt)
                if _name(_const_index(elt, 1)) != gens[0].target.id:
                    raise TranslateError("assign_tp_lt: unexpected element in the list comprehension over %s" % lp)
                l_byref.append(not copied)
    if len(set(l_byref)) != 1:
        raise TranslateError("assign_tp_lt: load micro-ops are copied on one path and not on the other")
    load_by_ref = l_byref[0]
    # the joining statement
    found = []
    for n in ast.walk(fn):
        if isinstance(n, ast.AugAssign) and _name(n.target) == L and isinstance(n.op, ast.Add) \
                and _name(n.value) == S:
            found.append(("inplace", True))
        elif isinstance(n, ast.Expr) and isinstance(n.value, ast.Call) \
                and isinstance(n.value.func, ast.Attribute) and n.value.func.attr == "extend" \
                and _name(n.value.func.value) == L and len(n.value.args) == 1 and _name(n.value.args[0]) == S:
            found.append(("inplace", True))
        elif isinstance(n, ast.Assign) and len(n.targets) == 1 and _name(n.targets[0]) == L:
            v = n.value
            if isinstance(v, ast.BinOp) and isinstance(v.op, ast.Add):
                a, b = _name(v.left), _name(v.right)
                if (a, b) == (L, S):
                    found.append(("fresh", True))
                elif (a, b) == (S, L):
                    found.append(("fresh", False))
            elif isinstance(v, ast.List) and len(v.elts) == 2 and all(isinstance(e, ast.Starred) for e in v.elts):
                a, b = _name(v.elts[0].value), _name(v.elts[1].value)
                if (a, b) == (L, S):
                    found.append(("fresh", True))
                elif (a, b) == (S, L):
                    found.append(("fresh", False))
            elif isinstance(v, ast.Call) and _name(v.func) == "list" and len(v.args) == 1 \
                    and isinstance(v.args[0], ast.Call) and _name(v.args[0].func) == "chain":
                names = [_name(x) for x in v.args[0].args]
                if names == [L, S]:
                    found.append(("fresh", True))
                elif names == [S, L]:
                    found.append(("fresh", False))
    if len(found) != 1:
        raise TranslateError("assign_tp_lt: expected exactly one statement joining %s and %s, found %r"
                             % (L, S, found))
    kind, load_first = found[0]
    return {"rmwInPlace": kind == "inplace", "rmwLoadFirst": load_first, "loadByRef": load_by_ref}


def load_default_copied():
    tree = parse("osaca/semantics/hw_model.py")
    fn = find_func(tree, "get_load_throughput", "MachineModel")
    rets = [n for n in ast.walk(fn) if isinstance(n, ast.Return)]
    for r in rets:
        v = r.value
        if isinstance(v, ast.List) and len(v.elts) == 1 and isinstance(v.elts[0], ast.Tuple) \
                and len(v.elts[0].elts) == 2:
            x, copied = _strip_copy(v.elts[0].elts[1])
            if isinstance(x, ast.Subscript) and isinstance(x.slice, ast.Constant) \
                    and x.slice.value == "load_throughput_default":
                return copied
    raise TranslateError("get_load_throughput: `return [(memory, ...load_throughput_default...)]` not found")


def found_by_ref():
    tree = parse("osaca/semantics/arch_semantics.py")
    fn = find_func(tree, "_handle_instruction_found", "ArchSemantics")
    hits = []
    for n in ast.walk(fn):
        if isinstance(n, ast.Assign) and len(n.targets) == 1 and isinstance(n.targets[0], ast.Attribute) \
                and n.targets[0].attr == "port_uops":
            v, copied = _strip_copy(n.value)
            if isinstance(v, ast.Attribute) and v.attr == "port_pressure":
                hits.append(not copied)
    if len(hits) != 1:
        raise TranslateError("_handle_instruction_found: `<form>.port_uops = <data>.port_pressure` not found uniquely")
    return hits[0]


def hidden_by_ref():
    tree = parse("osaca/semantics/isa_semantics.py")
    fn = find_func(tree, "_apply_found_ISA_data", "ISASemantics")
    hits = []
    for n in ast.walk(fn):
        if isinstance(n, ast.For) and isinstance(n.iter, ast.Attribute) and n.iter.attr == "hidden_operands" \
                and isinstance(n.target, ast.Name):
            var = n.target.id
            for m in ast.walk(n):
                if isinstance(m, ast.Call) and isinstance(m.func, ast.Attribute) and m.func.attr == "append" \
                        and len(m.args) == 1:
                    v, copied = _strip_copy(m.args[0])
                    if _name(v) == var:
                        hits.append(not copied)
    if len(hits) != 1:
        raise TranslateError("_apply_found_ISA_data: `for op in isa_data.hidden_operands: ...append(op)` not found uniquely")
    return hits[0]


def cache_shadowed():
    tree = parse("osaca/semantics/hw_model.py")
    fn = find_func(tree, "__init__", "MachineModel")

    def mentions_cache(node):
        return any(isinstance(x, ast.Attribute) and x.attr == "_runtime_cache" for x in ast.walk(node))

    def is_get_cached_assign(node):
        return isinstance(node, ast.Assign) and any(
            isinstance(x, ast.Call) and isinstance(x.func, ast.Attribute) and x.func.attr == "_get_cached"
            for x in ast.walk(node.value))

    def assigns_data_from(node, name):
        return any(isinstance(x, ast.Assign) and len(x.targets) == 1 and isinstance(x.targets[0], ast.Attribute)
                   and x.targets[0].attr == "_data" and _name(x.value) == name for x in ast.walk(node))

    for body in [n.body for n in ast.walk(fn) if hasattr(n, "body") and isinstance(n.body, list)] + \
                [n.orelse for n in ast.walk(fn) if getattr(n, "orelse", None)]:
        for i, st in enumerate(body):
            if isinstance(st, ast.If) and isinstance(st.test, (ast.BoolOp, ast.Compare)) and mentions_cache(st.test) \
                    and any(isinstance(c, ast.Compare) and any(isinstance(o, ast.In) for o in c.ops)
                            for c in ast.walk(st.test)):
                # runtime-cache test found; where is the _get_cached lookup?
                rest = body[i + 1:]
                sib = [s for s in rest if is_get_cached_assign(s)]
                if sib:
                    cached_name = _name(sib[0].targets[0])
                    later = rest[rest.index(sib[0]) + 1:]
                    if cached_name and any(isinstance(s, ast.If) and _name(s.test) == cached_name
                                           and assigns_data_from(ast.Module(body=s.body, type_ignores=[]), cached_name)
                                           for s in later):
                        return True
                    raise TranslateError("MachineModel.__init__: `_get_cached` result is not used as expected")
                if any(is_get_cached_assign(s) for o in st.orelse for s in ast.walk(o) if isinstance(s, ast.Assign)):
                    return False
                if not any(is_get_cached_assign(s) for s in ast.walk(fn) if isinstance(s, ast.Assign)):
                    raise TranslateError("MachineModel.__init__: no `_get_cached` lookup")
                raise TranslateError("MachineModel.__init__: cannot relate `_get_cached` lookup to the runtime-cache test")
    raise TranslateError("MachineModel.__init__: runtime-cache test (`path in _runtime_cache`) not found")


def flags():
    f = rmw_flags()
    f["loadDefaultCopied"] = load_default_copied()
    f["foundByRef"] = found_by_ref()
    f["hiddenByRef"] = hidden_by_ref()
    f["cacheShadowed"] = cache_shadowed()
    return f


ORDER = ["rmwInPlace", "rmwLoadFirst", "loadByRef", "loadDefaultCopied", "foundByRef", "hiddenByRef",
         "cacheShadowed"]
DOC = {
    "rmwInPlace": "`assign_tp_lt`: store micro-ops joined to the load micro-ops in place (`+=` / `.extend`)",
    "rmwLoadFirst": "load micro-ops come first in the joined list",
    "loadByRef": "`data_port_uops` is the load table's own list (`load_perf_data[0][1]`, `ldp[1]`), not a copy",
    "loadDefaultCopied": "`get_load_throughput` hands out `load_throughput_default.copy()`",
    "foundByRef": "`_handle_instruction_found`: `port_uops = instruction_data.port_pressure` without copy",
    "hiddenByRef": "`_apply_found_ISA_data` appends the ISA entry's hidden operand objects themselves",
    "cacheShadowed": "`MachineModel.__init__`: the runtime-cache hit is replaced by the `_get_cached` result",
}


@generator("HistoryCfg", ["osaca/semantics/arch_semantics.py", "osaca/semantics/isa_semantics.py",
                          "osaca/semantics/hw_model.py"])
def gen_historycfg():
    f = flags()
    out = [HEADER, "namespace OsacaVerif.Gen.HistoryCfg\n"]
    for k in ORDER:
        out.append("/-- %s -/" % DOC[k])
        out.append("def %s : Bool := %s\n" % (k, "true" if f[k] else "false"))
    out.append("end OsacaVerif.Gen.HistoryCfg\n")
    return "\n".join(out)


# --------------------------------------------------------------------------- census (harness only)
MUTATORS = {"append", "extend", "insert", "remove", "pop", "clear", "sort", "reverse", "update",
            "setdefault", "add", "discard", "popitem"}
CENSUS_FUNCS = [
    ("osaca/semantics/arch_semantics.py", "ArchSemantics", ["add_semantics", "assign_tp_lt", "_handle_instruction_found",
                                                            "set_hidden_loads", "_nullify_data_ports"]),
    ("osaca/semantics/isa_semantics.py", "ISASemantics", ["__init__", "assign_src_dst", "_apply_found_ISA_data",
                                                          "substitute_mem_address"]),
    ("osaca/semantics/hw_model.py", "MachineModel", ["get_instruction", "average_port_pressure", "get_load_throughput",
                                                     "get_store_throughput", "get_load_latency", "get_ports"]),
    ("osaca/osaca.py", None, ["inspect", "get_asm_parser"]),
]


def census():
    """Sorted list of `file:function:kind:target` for every in-place operation in the anchored functions."""
    out = []
    for rel, cls, names in CENSUS_FUNCS:
        tree = parse(rel)
        for name in names:
            try:
                fn = find_func(tree, name, cls)
            except TranslateError:
                out.append("%s:%s:missing:" % (rel, name))
                continue
            for n in ast.walk(fn):
                if isinstance(n, ast.AugAssign):
                    out.append("%s:%s:aug%s:%s" % (rel, name, type(n.op).__name__, ast.unparse(n.target)))
                elif isinstance(n, ast.Delete):
                    out.append("%s:%s:del:%s" % (rel, name, ",".join(ast.unparse(t) for t in n.targets)))
                elif isinstance(n, ast.Call) and isinstance(n.func, ast.Attribute) and n.func.attr in MUTATORS:
                    out.append("%s:%s:%s:%s" % (rel, name, n.func.attr, ast.unparse(n.func.value)))
                elif isinstance(n, ast.Assign):
                    for t in n.targets:
                        for tt in (t.elts if isinstance(t, (ast.Tuple, ast.List)) else [t]):
                            if isinstance(tt, ast.Subscript):
                                out.append("%s:%s:setitem:%s" % (rel, name, ast.unparse(tt.value)))
                            elif isinstance(tt, ast.Attribute):
                                out.append("%s:%s:setattr:%s" % (rel, name, ast.unparse(tt)))
    return sorted(out)
