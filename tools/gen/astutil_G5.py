"""Shared AST helpers of the G5 hardening round (reportconsts, a64grammar, markerconsts, historycfg, workers).

All static: nothing of OSACA is imported or executed here.  The file registers no generator (the plug-in loader
imports it harmlessly).

* `Flow` / `Origins`     flow-insensitive data flow of ONE function: every way a local name gets a value (plain,
                         tuple, conditional, walrus assignment, loop target, `append` / `extend` / `+=`), and a small
                         tag propagation on top of it ("this expression is element 1 of an entry of the list that
                         `get_load_throughput` returned, not copied").  Names do not matter, hoisted
                         sub-expressions, renamed locals, `if/else` vs conditional expression vs `or`-default,
                         loop vs comprehension all give the same tags.
* `inline_helpers`       bounded inter-procedural substitution: calls of small helper functions / methods of the
                         same class (`self.h(..)`, `cls.h(..)`, `Class.h(..)`, module-level `h(..)`) are replaced
                         by the helper's statements (locals renamed apart, arguments substituted or bound, guard
                         clauses turned into if/else, the returned value bound to a fresh local), so that an
                         "extract method" refactoring disappears before a plug-in reads the function.
* `ite_value`            the value a local has at the end of a statement list as a decision tree over the tests
                         of the enclosing `if`s (default + override, if/else, conditional expression, nested ifs,
                         guard clauses are the same tree); `truth_table` compares such a tree with an expected
                         boolean function of named atoms.
* `slice_stream`         a list of slices `[seq[f(t):g(t)] for t in range(n)]` in any of its spellings (zip of
                         two lists, one comprehension, append loop with hoisted bounds, enumerate, map over a list
                         of pairs) as ONE pair of bound expressions over a canonical index.

Everything that cannot be interpreted raises TranslateError (never a silent default).
"""
import ast
import copy
import itertools

from translate import TranslateError


def dump(node):
    return ast.dump(node, annotate_fields=False, include_attributes=False)


def walk_scope(node):
    """ast.walk without entering nested function / class / lambda bodies and comprehensions' inner scopes
    (comprehension nodes themselves are yielded)"""
    todo = list(ast.iter_child_nodes(node))
    while todo:
        n = todo.pop(0)
        yield n
        if isinstance(n, (ast.FunctionDef, ast.AsyncFunctionDef, ast.ClassDef, ast.Lambda)):
            continue
        todo.extend(ast.iter_child_nodes(n))


def body_without_docstring(fn):
    b = list(fn.body)
    if b and isinstance(b[0], ast.Expr) and isinstance(b[0].value, ast.Constant) and isinstance(b[0].value.value, str):
        b = b[1:]
    return b


# =========================================================================== flow-insensitive data flow
SHALLOW_COPY_FUNCS = {"list", "tuple", "sorted", "copy", "reversed"}
DEEP_COPY_FUNCS = {"deepcopy"}


def copy_call(node):
    """(inner expression, "shallow" | "deep") if node makes a copy of a list: `x.copy()`, `list(x)`, `x[:]`,
    `copy.copy(x)`, `copy(x)`, `sorted(x)`, `tuple(x)`, `[*x]`, `deepcopy(x)`, `copy.deepcopy(x)`; else None"""
    if isinstance(node, ast.Call) and not node.keywords:
        f = node.func
        if isinstance(f, ast.Attribute) and f.attr == "copy" and not node.args:
            return f.value, "shallow"
        if isinstance(f, ast.Name) and len(node.args) == 1 and not isinstance(node.args[0], ast.Starred):
            if f.id in SHALLOW_COPY_FUNCS:
                return node.args[0], "shallow"
            if f.id in DEEP_COPY_FUNCS:
                return node.args[0], "deep"
        if isinstance(f, ast.Attribute) and len(node.args) == 1 and isinstance(f.value, ast.Name) and f.value.id == "copy":
            if f.attr == "copy":
                return node.args[0], "shallow"
            if f.attr == "deepcopy":
                return node.args[0], "deep"
    if isinstance(node, ast.Subscript) and isinstance(node.slice, ast.Slice):
        s = node.slice
        if s.lower is None and s.upper is None and s.step is None:
            return node.value, "shallow"
    if isinstance(node, ast.List) and len(node.elts) == 1 and isinstance(node.elts[0], ast.Starred):
        return node.elts[0].value, "shallow"
    return None


class Flow:
    """Every way a local name of `fn` gets a value.  `defs[name]` is a list of
         ("expr", value) | ("unpack", value, k, n) | ("elem", iterable) | ("elem_unpack", iterable, k, n)
         | ("aug", op, value) | ("param",) | ("other",)
       `adds[name]` the in-place growth: ("append", x) | ("extend", xs) | ("aug", xs) | ("setitem", key, x)
       (for `name.append(x)`, `name.extend(xs)`, `name += xs`, `name[key] = x`; also recorded for a
       subscripted receiver `name[key].append(x)` under `adds_sub[name]`)."""

    def __init__(self, fn):
        self.fn = fn
        self.defs, self.adds, self.adds_sub = {}, {}, {}
        a = fn.args
        for arg in list(a.posonlyargs) + list(a.args) + list(a.kwonlyargs) + [a.vararg, a.kwarg]:
            if arg is not None:
                self.defs.setdefault(arg.arg, []).append(("param",))
        for n in walk_scope(fn):
            if isinstance(n, ast.Assign):
                for t in n.targets:
                    self._bind(t, n.value)
            elif isinstance(n, ast.AnnAssign) and n.value is not None:
                self._bind(n.target, n.value)
            elif isinstance(n, ast.NamedExpr):
                self._bind(n.target, n.value)
            elif isinstance(n, ast.AugAssign):
                if isinstance(n.target, ast.Name):
                    self.defs.setdefault(n.target.id, []).append(("aug", n.op, n.value))
                    if isinstance(n.op, ast.Add):
                        self.adds.setdefault(n.target.id, []).append(("aug", n.value))
                elif isinstance(n.target, ast.Subscript) and isinstance(n.target.value, ast.Name) and isinstance(n.op, ast.Add):
                    self.adds_sub.setdefault(n.target.value.id, []).append(("aug", n.value))
            elif isinstance(n, (ast.For, ast.AsyncFor)):
                self._bind_elem(n.target, n.iter)
            elif isinstance(n, (ast.With, ast.AsyncWith)):
                for it in n.items:
                    if it.optional_vars is not None:
                        for x in ast.walk(it.optional_vars):
                            if isinstance(x, ast.Name):
                                self.defs.setdefault(x.id, []).append(("other",))
            elif isinstance(n, ast.ExceptHandler) and n.name:
                self.defs.setdefault(n.name, []).append(("other",))
            elif isinstance(n, (ast.Import, ast.ImportFrom)):
                for al in n.names:
                    self.defs.setdefault((al.asname or al.name).split(".")[0], []).append(("other",))
            elif isinstance(n, (ast.FunctionDef, ast.AsyncFunctionDef, ast.ClassDef)):
                self.defs.setdefault(n.name, []).append(("other",))
            elif isinstance(n, ast.Call) and isinstance(n.func, ast.Attribute) and n.func.attr in ("append", "extend", "insert") \
                    and not n.keywords:
                recv = n.func.value
                kind = n.func.attr
                if kind == "insert":
                    if len(n.args) != 2:
                        continue
                    item = ("append", n.args[1])
                elif len(n.args) == 1:
                    item = (kind, n.args[0])
                else:
                    continue
                if isinstance(recv, ast.Name):
                    self.adds.setdefault(recv.id, []).append(item)
                elif isinstance(recv, ast.Subscript) and isinstance(recv.value, ast.Name):
                    self.adds_sub.setdefault(recv.value.id, []).append(item)
        # `name[key] = x`
        for n in walk_scope(fn):
            if isinstance(n, ast.Assign):
                for t in n.targets:
                    if isinstance(t, ast.Subscript) and isinstance(t.value, ast.Name):
                        self.adds.setdefault(t.value.id, []).append(("setitem", t.slice, n.value))

    def _bind(self, target, value):
        if isinstance(target, ast.Name):
            self.defs.setdefault(target.id, []).append(("expr", value))
        elif isinstance(target, (ast.Tuple, ast.List)):
            n = len(target.elts)
            if any(isinstance(t, ast.Starred) for t in target.elts):
                for t in target.elts:
                    for x in ast.walk(t):
                        if isinstance(x, ast.Name):
                            self.defs.setdefault(x.id, []).append(("other",))
                return
            if isinstance(value, (ast.Tuple, ast.List)) and len(value.elts) == n \
                    and not any(isinstance(e, ast.Starred) for e in value.elts):
                for t, v in zip(target.elts, value.elts):
                    self._bind(t, v)
            else:
                for k, t in enumerate(target.elts):
                    if isinstance(t, ast.Name):
                        self.defs.setdefault(t.id, []).append(("unpack", value, k, n))
                    else:
                        for x in ast.walk(t):
                            if isinstance(x, ast.Name) and isinstance(x.ctx, ast.Store):
                                self.defs.setdefault(x.id, []).append(("other",))

    def _bind_elem(self, target, it):
        if isinstance(target, ast.Name):
            self.defs.setdefault(target.id, []).append(("elem", it))
        elif isinstance(target, (ast.Tuple, ast.List)):
            n = len(target.elts)
            # for i, x in enumerate(S)  ->  x is an element of S
            if isinstance(it, ast.Call) and isinstance(it.func, ast.Name) and it.func.id == "enumerate" and it.args \
                    and n == 2 and isinstance(target.elts[1], ast.Name):
                self._bind_elem(target.elts[1], it.args[0])
                if isinstance(target.elts[0], ast.Name):
                    self.defs.setdefault(target.elts[0].id, []).append(("other",))
                return
            for k, t in enumerate(target.elts):
                if isinstance(t, ast.Name):
                    self.defs.setdefault(t.id, []).append(("elem_unpack", it, k, n))
                else:
                    for x in ast.walk(t):
                        if isinstance(x, ast.Name):
                            self.defs.setdefault(x.id, []).append(("other",))

    def single(self, name):
        """the value of a name bound by exactly one plain assignment, else None"""
        d = self.defs.get(name, [])
        if len(d) == 1 and d[0][0] == "expr" and name not in self.adds:
            return d[0][1]
        return None

    def resolve(self, node, depth=0):
        """look through names bound exactly once by a plain assignment (hoisted sub-expressions)"""
        while isinstance(node, ast.Name) and depth < 20:
            v = self.single(node.id)
            if v is None:
                break
            node, depth = v, depth + 1
        return node


def value_leaves(node):
    """the expressions one of which IS the value of `node`: arms of conditional expressions and of `or` / `and`
    (a falsy first operand of `and` is also a possible value, but it is never a non-empty list -- callers that
    track lists may ignore it); a walrus gives its value"""
    if isinstance(node, ast.IfExp):
        return value_leaves(node.body) + value_leaves(node.orelse)
    if isinstance(node, ast.BoolOp):
        out = []
        for v in node.values:
            out += value_leaves(v)
        return out
    if isinstance(node, ast.NamedExpr):
        return value_leaves(node.value)
    return [node]


class Origins:
    """Tag propagation over a `Flow`.  A tag is (kind, copied).  The rules of one analysis are given by hooks:

        source(node) -> kind | None          what a leaf expression IS (e.g. the call `x.get_load_throughput(..)`)
        index(kind, k) -> kind | None        kind of `<kind>[k]` for a constant k (k is the python value)
        elem(kind) -> kind | None            kind of one element when iterating over <kind>
        collect(kind) -> kind | None         kind of a list whose elements have <kind>
        copied(kind, how) -> (kind, bool)    effect of a "shallow" / "deep" copy: new kind, and whether the
                                             object is now a fresh one
        const(node) -> python value          constant evaluation of subscripts (raise to say "not constant")
    """

    def __init__(self, flow, source, index, elem, collect, copied, const):
        self.flow = flow
        self.h_source, self.h_index, self.h_elem, self.h_collect, self.h_copied, self.h_const = \
            source, index, elem, collect, copied, const
        # least fixpoint over all names (definitions may be cyclic: `x = x[0]`, `x = f(x)`)
        self.names = {n: set() for n in set(flow.defs) | set(flow.adds)}
        for _ in range(50):
            changed = False
            for name in self.names:
                new = self._name_once(name)
                if not new <= self.names[name]:
                    self.names[name] |= new
                    changed = True
            if not changed:
                break
        else:
            raise TranslateError("Origins: no fixpoint")

    def of_name(self, name):
        return set(self.names.get(name, ()))

    def _name_once(self, name):
        out = set()
        for d in self.flow.defs.get(name, []):
            if d[0] == "expr":
                out |= self.tags(d[1])
            elif d[0] == "unpack":
                for kind, cp in self.tags(d[1]):
                    k2 = self.h_index(kind, d[2])
                    if k2:
                        out.add((k2, cp))
            elif d[0] == "elem":
                out |= self._elem(self.tags(d[1]))
            elif d[0] == "elem_unpack":
                for kind, cp in self._elem(self.tags(d[1])):
                    k2 = self.h_index(kind, d[2])
                    if k2:
                        out.add((k2, cp))
        for a in self.flow.adds.get(name, []):
            if a[0] == "append":
                out |= self._collect(self.tags(a[1]))
            elif a[0] in ("extend", "aug"):
                out |= self._collect(self._elem(self.tags(a[1])))
        return out

    def _elem(self, tags):
        out = set()
        for kind, cp in tags:
            k2 = self.h_elem(kind)
            if k2:
                out.add((k2, cp))
        return out

    def _collect(self, tags):
        out = set()
        for kind, cp in tags:
            k2 = self.h_collect(kind)
            if k2:
                out.add((k2, cp))
        return out

    def tags(self, node, env=None):
        """set of (kind, copied) the value of the expression may be"""
        env = env or {}
        out = set()
        for leaf in value_leaves(node):
            out |= self._leaf(leaf, env)
        return out

    def _leaf(self, node, env):
        k = self.h_source(node)
        if k:
            return {(k, False)}
        if isinstance(node, ast.Name):
            if node.id in env:
                return set(env[node.id])
            return self.of_name(node.id)
        cc = copy_call(node)
        if cc is not None:
            out = set()
            for kind, cp in self.tags(cc[0], env):
                k2, fresh = self.h_copied(kind, cc[1])
                if k2:
                    out.add((k2, cp or fresh))
            return out
        if isinstance(node, ast.Subscript) and not isinstance(node.slice, ast.Slice):
            try:
                kv = self.h_const(node.slice)
            except Exception:
                return set()
            out = set()
            for kind, cp in self.tags(node.value, env):
                k2 = self.h_index(kind, kv)
                if k2:
                    out.add((k2, cp))
            return out
        if isinstance(node, (ast.ListComp, ast.GeneratorExp)) and len(node.generators) == 1:
            g = node.generators[0]
            el = self._elem(self.tags(g.iter, env))
            env2 = dict(env)
            if isinstance(g.target, ast.Name):
                env2[g.target.id] = el
            elif isinstance(g.target, (ast.Tuple, ast.List)):
                for k, t in enumerate(g.target.elts):
                    if isinstance(t, ast.Name):
                        env2[t.id] = {(k2, cp) for kind, cp in el for k2 in [self.h_index(kind, k)] if k2}
            return self._collect(self.tags(node.elt, env2))
        if isinstance(node, ast.Call) and isinstance(node.func, ast.Name) and node.func.id in ("next", "iter") and node.args:
            if node.func.id == "iter":
                return self.tags(node.args[0], env)
            out = self._elem(self.tags(node.args[0], env))
            if len(node.args) == 2:
                out |= self.tags(node.args[1], env)
            return out
        if isinstance(node, (ast.List, ast.Tuple)) and node.elts and not any(isinstance(e, ast.Starred) for e in node.elts):
            out = set()
            for e in node.elts:
                out |= self._collect(self.tags(e, env))
            return out
        return set()


# =========================================================================== inlining of helpers
class _Rename(ast.NodeTransformer):
    """rename local names / substitute parameters inside a helper body"""

    def __init__(self, ren, sub):
        self.ren, self.sub = ren, sub

    def visit_Name(self, node):
        if node.id in self.sub and isinstance(node.ctx, ast.Load):
            return copy.deepcopy(self.sub[node.id])
        if node.id in self.ren:
            return ast.copy_location(ast.Name(id=self.ren[node.id], ctx=node.ctx), node)
        return node

    def _scoped(self, node, bound):
        ren = {k: v for k, v in self.ren.items() if k not in bound}
        sub = {k: v for k, v in self.sub.items() if k not in bound}
        return _Rename(ren, sub).generic_visit(node)

    def visit_Lambda(self, node):
        a = node.args
        bound = {x.arg for x in a.args + a.kwonlyargs + a.posonlyargs}
        for x in (a.vararg, a.kwarg):
            if x is not None:
                bound.add(x.arg)
        return self._scoped(node, bound)

    def _comp(self, node):
        bound = set()
        for g in node.generators:
            bound |= {n.id for n in ast.walk(g.target) if isinstance(n, ast.Name)}
        first = self.visit(node.generators[0].iter)
        out = self._scoped(node, bound)
        out.generators[0].iter = first
        return out

    visit_ListComp = visit_SetComp = visit_GeneratorExp = visit_DictComp = _comp


def _stored(stmts):
    out = set()
    for st in stmts:
        for n in ast.walk(st):
            if isinstance(n, ast.Name) and isinstance(n.ctx, (ast.Store, ast.Del)):
                out.add(n.id)
    return out


def _tail_returns(stmts, ret_name):
    """Rewrite a statement list in which `return` occurs only in tail position (last statement of the list, of
    the branches of a last `if`, or a guard `if c: ...return` followed by the rest) into one without returns that
    assigns the returned value to `ret_name` (if given).  Returns the new list, or None if a return stands
    somewhere else (inside a loop, try, with)."""
    def has_return(nodes):
        for st in nodes:
            for n in walk_scope(ast.Module(body=[st], type_ignores=[])):
                if isinstance(n, ast.Return):
                    return True
        return False

    def ends(stmts):
        """does every path through stmts end in a return?"""
        if not stmts:
            return False
        last = stmts[-1]
        if isinstance(last, (ast.Return, ast.Raise)):
            return True
        if isinstance(last, ast.If) and last.orelse:
            return ends(last.body) and ends(last.orelse)
        return False

    def go(stmts):
        out = []
        for i, st in enumerate(stmts):
            if isinstance(st, ast.Return):
                if ret_name is not None:
                    val = st.value if st.value is not None else ast.Constant(value=None)
                    out.append(ast.copy_location(ast.Assign(targets=[ast.Name(id=ret_name, ctx=ast.Store())], value=val), st))
                elif st.value is not None and not isinstance(st.value, (ast.Constant, ast.Name)):
                    out.append(ast.copy_location(ast.Expr(value=st.value), st))
                return out                      # statements after a return are dead
            if isinstance(st, ast.If) and has_return([st]):
                rest = stmts[i + 1:]
                body_ends, else_ends = ends(st.body), ends(st.orelse)
                if body_ends and else_ends:
                    b, e = go(st.body), go(st.orelse)
                    if b is None or e is None:
                        return None
                    out.append(ast.copy_location(ast.If(test=st.test, body=b or [ast.Pass()], orelse=e), st))
                    return out
                if body_ends and not has_return(st.orelse):
                    b, e = go(st.body), go(list(st.orelse) + rest)
                    if b is None or e is None:
                        return None
                    out.append(ast.copy_location(ast.If(test=st.test, body=b or [ast.Pass()], orelse=e), st))
                    return out
                if else_ends and not has_return(st.body):
                    b, e = go(list(st.body) + rest), go(st.orelse)
                    if b is None or e is None:
                        return None
                    out.append(ast.copy_location(ast.If(test=st.test, body=b or [ast.Pass()], orelse=e), st))
                    return out
                return None
            if has_return([st]):
                return None                     # return inside a loop / try / with
            out.append(st)
        if ret_name is not None:
            out.append(ast.Assign(targets=[ast.Name(id=ret_name, ctx=ast.Store())], value=ast.Constant(value=None)))
        return out

    return go(stmts)


class Inliner:
    """`resolve(call) -> (FunctionDef, skip_first_param: bool) | None` decides which calls are helpers."""

    MAX_STMTS = 40

    def __init__(self, resolve, depth=2):
        self.resolve, self.depth = resolve, depth
        self.counter = itertools.count(1)
        self.inlined = []      # names of the helpers that were substituted

    # -- one call
    def _expand(self, call, want_value, level):
        """(statements, value expression | None) replacing `call`, or None if it cannot be inlined"""
        r = self.resolve(call)
        if r is None:
            return None
        helper, skip = r
        a = helper.args
        if a.vararg or a.kwarg or a.kwonlyargs or a.posonlyargs or helper.decorator_list and not all(
                isinstance(d, ast.Name) and d.id in ("staticmethod", "classmethod") for d in helper.decorator_list):
            return None
        if isinstance(helper, ast.AsyncFunctionDef):
            return None
        body = body_without_docstring(helper)
        if len(list(ast.walk(ast.Module(body=body, type_ignores=[])))) > 4000 or len(body) > self.MAX_STMTS:
            return None
        for n in ast.walk(ast.Module(body=body, type_ignores=[])):
            if isinstance(n, (ast.Yield, ast.YieldFrom, ast.Await, ast.Global, ast.Nonlocal, ast.FunctionDef,
                              ast.AsyncFunctionDef, ast.ClassDef)):
                return None
        params = [x.arg for x in a.args]
        is_static = any(isinstance(d, ast.Name) and d.id == "staticmethod" for d in helper.decorator_list)
        self_name = None
        if skip and not is_static:
            if not params:
                return None
            self_name, params = params[0], params[1:]
        if any(isinstance(x, ast.Starred) for x in call.args) or any(k.arg is None for k in call.keywords):
            return None
        if len(call.args) > len(params):
            return None
        defaults = dict(zip([x.arg for x in a.args][len(a.args) - len(a.defaults):], a.defaults))
        given = dict(zip(params, call.args))
        for k in call.keywords:
            if k.arg not in params or k.arg in given:
                return None
            given[k.arg] = k.value
        for p in params:
            if p not in given:
                if p not in defaults:
                    return None
                given[p] = defaults[p]
        tag = "__h%d" % next(self.counter)
        stored = _stored(body)
        ren = {nm: nm + tag for nm in stored}
        sub, pre = {}, []
        for p in params:
            arg = given[p]
            simple = isinstance(arg, (ast.Name, ast.Constant)) or (
                isinstance(arg, ast.Attribute) and isinstance(arg.value, ast.Name))
            if p in stored or not simple:
                ren[p] = p + tag
                pre.append(ast.Assign(targets=[ast.Name(id=p + tag, ctx=ast.Store())], value=copy.deepcopy(arg)))
            else:
                sub[p] = arg
        if self_name is not None:
            recv = call.func.value
            if self_name in stored:
                return None
            sub[self_name] = recv if isinstance(recv, ast.Name) else ast.Name(id="self", ctx=ast.Load())
        ret = ("__ret" + tag) if want_value else None
        new = _tail_returns([copy.deepcopy(s) for s in body], ret)
        if new is None:
            return None
        rn = _Rename(ren, sub)
        new = [rn.visit(s) for s in new]
        # a helper that is `...; return <expr>` on its single path: hand the expression itself back
        value = None
        if want_value:
            value = ast.Name(id=ret, ctx=ast.Load())
            if new and isinstance(new[-1], ast.Assign) and isinstance(new[-1].targets[0], ast.Name) \
                    and new[-1].targets[0].id == ret and not any(
                        isinstance(n, ast.Name) and n.id == ret for s in new[:-1] for n in ast.walk(s)):
                last = new.pop()
                if isinstance(last.value, (ast.Name, ast.Constant)) or not new:
                    value = last.value
                else:
                    new.append(last)
        stmts = pre + new
        for s in stmts:
            ast.copy_location(s, call)
            ast.fix_missing_locations(s)
        self.inlined.append(helper.name)
        if level < self.depth:
            stmts = self.block(stmts, level + 1)
        return stmts, value

    # -- statements
    def _calls_in(self, node):
        """helper calls inside an expression that are evaluated unconditionally and exactly once (not under
        a lambda / comprehension / the later operands of and/or / the arms of a conditional expression)"""
        out = []

        def go(n, safe):
            if isinstance(n, (ast.Lambda, ast.ListComp, ast.SetComp, ast.DictComp, ast.GeneratorExp)):
                return
            if isinstance(n, ast.BoolOp):
                go(n.values[0], safe)
                for v in n.values[1:]:
                    go(v, False)
                return
            if isinstance(n, ast.IfExp):
                go(n.test, safe)
                go(n.body, False)
                go(n.orelse, False)
                return
            for c in ast.iter_child_nodes(n):
                go(c, safe)
            if isinstance(n, ast.Call) and safe and self.resolve(n) is not None:
                out.append(n)

        go(node, True)
        return out

    def _replace(self, root, old, new):
        class R(ast.NodeTransformer):
            def visit(self, n):
                if n is old:
                    return new
                return self.generic_visit(n)
        return R().visit(root)

    def _simple(self, st, exprs, level):
        """inline the helper calls in the expressions (attribute names) of one simple statement"""
        pre = []
        for field in exprs:
            e = getattr(st, field, None)
            if e is None:
                continue
            for call in self._calls_in(e):
                whole = isinstance(st, ast.Expr) and st.value is call
                r = self._expand(call, not whole, level)
                if r is None:
                    continue
                stmts, value = r
                pre += stmts
                if whole:
                    return pre       # the statement was the call
                setattr(st, field, self._replace(getattr(st, field), call, value))
        return pre + [st]

    def block(self, stmts, level=1):
        out = []
        for st in stmts:
            if isinstance(st, ast.Expr):
                out += self._simple(st, ["value"], level)
            elif isinstance(st, (ast.Assign, ast.AugAssign, ast.AnnAssign, ast.Return)):
                out += self._simple(st, ["value"], level)
            elif isinstance(st, ast.If):
                pre = self._simple(ast.Expr(value=st.test), ["value"], level)
                st.test = pre[-1].value
                st.body = self.block(st.body, level)
                st.orelse = self.block(st.orelse, level)
                out += pre[:-1] + [st]
            elif isinstance(st, (ast.For, ast.AsyncFor)):
                pre = self._simple(ast.Expr(value=st.iter), ["value"], level)
                st.iter = pre[-1].value
                st.body = self.block(st.body, level)
                st.orelse = self.block(st.orelse, level)
                out += pre[:-1] + [st]
            elif isinstance(st, ast.While):
                st.body = self.block(st.body, level)
                st.orelse = self.block(st.orelse, level)
                out.append(st)
            elif isinstance(st, (ast.With, ast.AsyncWith)):
                st.body = self.block(st.body, level)
                out.append(st)
            elif isinstance(st, ast.Try):
                st.body = self.block(st.body, level)
                st.orelse = self.block(st.orelse, level)
                st.finalbody = self.block(st.finalbody, level)
                for h in st.handlers:
                    h.body = self.block(h.body, level)
                out.append(st)
            else:
                out.append(st)
        return out


def class_resolver(classes, caller, only=None, exclude=()):
    """resolver for `self.h(..)` / `cls.h(..)` / `<Class>.h(..)` where h is a method of one of `classes`
    (searched in order) other than the caller itself.  `only(name, fn)` may restrict the helpers."""
    names = {c.name for c in classes}

    def resolve(call):
        f = call.func
        if not (isinstance(f, ast.Attribute) and isinstance(f.value, ast.Name) and f.value.id in {"self", "cls"} | names):
            return None
        if f.attr == caller.name or f.attr in exclude:
            return None
        for c in classes:
            for m in c.body:
                if isinstance(m, ast.FunctionDef) and m.name == f.attr:
                    if only is not None and not only(m.name, m):
                        return None
                    return m, True
        return None

    return resolve


def module_resolver(tree, caller, only=None, exclude=()):
    """resolver for calls `h(..)` of module-level functions of `tree` (bound exactly once)"""
    funcs = {}
    for st in tree.body:
        if isinstance(st, ast.FunctionDef):
            funcs.setdefault(st.name, []).append(st)

    def resolve(call):
        f = call.func
        if not isinstance(f, ast.Name) or f.id == caller.name or f.id in exclude:
            return None
        c = funcs.get(f.id)
        if not c or len(c) != 1:
            return None
        if only is not None and not only(f.id, c[0]):
            return None
        return c[0], False

    return resolve


def inline_helpers(fn, resolve, depth=2):
    """(copy of `fn` with the helper calls substituted, names of the substituted helpers)"""
    new = copy.deepcopy(fn)
    inl = Inliner(_by_position(fn, new, resolve), depth)
    new.body = inl.block(new.body)
    ast.fix_missing_locations(new)
    return new, inl.inlined


def _by_position(orig, new, resolve):
    """the resolver is given calls of the COPY; helpers are looked up by what the call says, so nothing to map"""
    return resolve


def is_private_helper(name, fn):
    """a method that cannot be part of the modelled API: underscore name (not dunder) or a static method"""
    if name.startswith("__"):
        return False
    return name.startswith("_") or any(isinstance(d, ast.Name) and d.id == "staticmethod" for d in fn.decorator_list)


# =========================================================================== decision trees
class Ite:
    """value tree: ("leaf", expr) | ("ite", test expr, then, else) | ("undef",)"""


def ite_value(stmts, var, init=("undef",), stop=None):
    """Value of the local `var` where the statement `stop` begins (or after the statement list) as a tree
         ("leaf", expr) | ("ite", test, a, b) | ("undef",) | ("opaque", why)
    A small symbolic execution of straight-line code with `if`s: every plainly assigned local has a tree; a
    conditional expression is a branch; a name used as a whole value or as a whole test stands for its tree (so
    flags computed into helper locals, or by a substituted helper with a guard clause, are looked through);
    branches that leave the block (return / raise / continue / break) do not contribute.  Anything else that binds
    a name makes it opaque."""
    def of_expr(e, st):
        if isinstance(e, ast.IfExp):
            return cond(of_expr(e.test, st), of_expr(e.body, st), of_expr(e.orelse, st))
        if isinstance(e, ast.Name) and e.id in st:
            return st[e.id]
        return ("leaf", e)

    def cond(test_tree, a, b):
        """ite with a tree-valued test"""
        if dump_tree(a) == dump_tree(b):
            return a
        if test_tree[0] == "leaf":
            t = test_tree[1]
            if isinstance(t, ast.Constant):
                return a if t.value else b
            return ("ite", t, a, b)
        if test_tree[0] == "ite":
            return ("ite", test_tree[1], cond(test_tree[2], a, b), cond(test_tree[3], a, b))
        return ("opaque", "test has no interpretable value")

    def stores(st):
        out = set()
        for n in ast.walk(st):
            if isinstance(n, ast.Name) and isinstance(n.ctx, (ast.Store, ast.Del)):
                out.add(n.id)
        return out

    class Stop(Exception):
        def __init__(self, state):
            self.state = state

    def merge(test_tree, a, b):
        if a is None:
            return b
        if b is None:
            return a
        out = {}
        for k in set(a) | set(b):
            out[k] = cond(test_tree, a.get(k, ("undef",)), b.get(k, ("undef",)))
        return out

    def go(stmts, st):
        """state after the statements, None if every path left the block"""
        for s_ in stmts:
            if stop is not None and s_ is stop:
                raise Stop(st)
            if isinstance(s_, (ast.Return, ast.Raise, ast.Continue, ast.Break)):
                return None
            if isinstance(s_, ast.If):
                tt = of_expr(s_.test, st)
                try:
                    a = go(s_.body, dict(st))
                except Stop as e:
                    raise Stop(e.state)
                b = go(s_.orelse, dict(st))
                st = merge(tt, a, b)
                if st is None:
                    return None
                continue
            if isinstance(s_, ast.Assign) and len(s_.targets) == 1 and isinstance(s_.targets[0], ast.Name):
                st[s_.targets[0].id] = of_expr(s_.value, st)
                continue
            if isinstance(s_, ast.AnnAssign) and isinstance(s_.target, ast.Name) and s_.value is not None:
                st[s_.target.id] = of_expr(s_.value, st)
                continue
            if isinstance(s_, ast.Assign) and len(s_.targets) == 1 and isinstance(s_.targets[0], ast.Tuple) \
                    and isinstance(s_.value, ast.Tuple) and len(s_.value.elts) == len(s_.targets[0].elts) \
                    and all(isinstance(t, ast.Name) for t in s_.targets[0].elts):
                vals = [of_expr(v, st) for v in s_.value.elts]
                for t, v in zip(s_.targets[0].elts, vals):
                    st[t.id] = v
                continue
            if stop is not None and any(n is stop for n in ast.walk(s_)):
                # the stop statement lies inside a compound statement that is not an `if`: names bound there are opaque
                for n in stores(s_):
                    st[n] = ("opaque", "bound inside a %s" % type(s_).__name__)
                raise Stop(st)
            for n in stores(s_):
                st[n] = ("opaque", "bound by a %s (line %s)" % (type(s_).__name__, getattr(s_, "lineno", "?")))
        return st

    try:
        final = go(list(stmts), {var: init})
    except Stop as e:
        final = e.state
    if final is None:
        return ("undef",)
    return final.get(var, ("undef",))


def dump_tree(t):
    if t[0] == "leaf":
        return "L(%s)" % dump(t[1])
    if t[0] == "ite":
        return "I(%s,%s,%s)" % (dump(t[1]), dump_tree(t[2]), dump_tree(t[3]))
    return t[0]


def tree_tests(t, out=None):
    out = [] if out is None else out
    if t[0] == "ite":
        out.append(t[1])
        tree_tests(t[2], out)
        tree_tests(t[3], out)
    return out


def eval_tree(t, truth):
    """leaf reached when every test node evaluates as `truth(test_node) -> bool` says"""
    while t[0] == "ite":
        t = t[2] if truth(t[1]) else t[3]
    return t


def bool_eval(node, atom):
    """truth value of a test built from not / and / or / comparisons; `atom(node) -> bool | None` decides the
    atomic sub-expressions (None: not an atom, descend or fail)"""
    v = atom(node)
    if v is not None:
        return v
    if isinstance(node, ast.UnaryOp) and isinstance(node.op, ast.Not):
        return not bool_eval(node.operand, atom)
    if isinstance(node, ast.BoolOp):
        vals = [bool_eval(x, atom) for x in node.values]
        return all(vals) if isinstance(node.op, ast.And) else any(vals)
    if isinstance(node, ast.Compare) and len(node.ops) > 1:
        parts, l = [], node.left
        for op, r in zip(node.ops, node.comparators):
            parts.append(bool_eval(ast.Compare(left=l, ops=[op], comparators=[r]), atom))
            l = r
        return all(parts)
    if isinstance(node, ast.IfExp):
        return bool_eval(node.body, atom) if bool_eval(node.test, atom) else bool_eval(node.orelse, atom)
    if isinstance(node, ast.Constant) and isinstance(node.value, (bool, int, type(None), str)):
        return bool(node.value)
    if isinstance(node, ast.Call) and isinstance(node.func, ast.Name) and node.func.id == "bool" and len(node.args) == 1:
        return bool_eval(node.args[0], atom)
    raise TranslateError("condition is not built from the expected atoms: %s (line %s)"
                         % (ast.unparse(node)[:80], getattr(node, "lineno", "?")))


# =========================================================================== lists as streams over an index
TID = "__tid__"


def substitute(node, sub):
    """copy of the expression with the loaded names in `sub` replaced (comprehension / lambda scopes respected)"""
    return _Rename({}, sub).visit(copy.deepcopy(node))


class Streams:
    """`elem(node)`: the expression of element number `__tid__` of a list that has exactly one element per
    value of `range(<count>)`, in terms of Name(__tid__), or None.  Understood spellings of such a list:

        [f(t) for t in range(count)]  /  list(f(t) for t in range(count))  /  range(0, count)
        xs = []; for t in range(count): [a = g(t); ...] xs.append(f(t, a))       (no filter, nothing else in the loop)
        [h(a, b) for a, b in zip(A, B)]          with A, B such lists
        [h(i, a) for i, a in enumerate(A)]
        [h(x) for x in A]  /  [h(s, e) for s, e in PAIRS]    where the element of PAIRS is a tuple display
        a name bound once to one of these

    `single(name)` -> value node | None and `is_count(expr)` come from the caller (its scope rules)."""

    def __init__(self, fn, single, is_count, const0):
        self.fn, self.single, self.is_count, self.const0 = fn, single, is_count, const0
        self.par = {}
        for n in ast.walk(fn):
            for c in ast.iter_child_nodes(n):
                self.par[c] = n
        self.origin = {}     # id(result node) -> defining comprehension / loop

    # -- the three ways to write "one element per iteration"
    def _view(self, node, depth):
        """(elt, target, iter, defining node) | None"""
        if isinstance(node, ast.Name):
            lv = self._loop_view(node.id)
            if lv is not None:
                return lv
            v = self.single(node.id)
            return self._view(v, depth + 1) if v is not None and depth < 10 else None
        if isinstance(node, ast.Call) and isinstance(node.func, ast.Name) and node.func.id in ("list", "tuple") \
                and len(node.args) == 1 and not node.keywords:
            inner = node.args[0]
            if isinstance(inner, ast.GeneratorExp):
                node = inner
            else:
                return self._view(inner, depth + 1) if depth < 10 else None
        if isinstance(node, (ast.ListComp, ast.GeneratorExp)) and len(node.generators) == 1:
            g = node.generators[0]
            if g.ifs or g.is_async:
                return None
            return node.elt, g.target, g.iter, node
        return None

    def _loop_view(self, name):
        """xs = [] ... for t in it: <single-assignment locals>; xs.append(e)"""
        init = self.single_any(name)
        if init is None:
            return None
        empty = (isinstance(init, ast.List) and not init.elts) or (
            isinstance(init, ast.Call) and isinstance(init.func, ast.Name) and init.func.id == "list"
            and not init.args and not init.keywords)
        if not empty:
            return None
        uses = [n for n in walk_scope(self.fn) if isinstance(n, ast.Call) and isinstance(n.func, ast.Attribute)
                and isinstance(n.func.value, ast.Name) and n.func.value.id == name
                and n.func.attr in ("append", "extend", "insert", "remove", "pop", "clear", "sort", "reverse")]
        if len(uses) != 1 or uses[0].func.attr != "append" or len(uses[0].args) != 1 or uses[0].keywords:
            return None
        stmt = self.par.get(uses[0])
        loop = self.par.get(stmt)
        if not isinstance(stmt, ast.Expr) or not isinstance(loop, ast.For) or loop.orelse or loop.body[-1] is not stmt:
            return None
        sub = {}
        stored = {}
        for st in loop.body:
            for n in ast.walk(st):
                if isinstance(n, ast.Name) and isinstance(n.ctx, ast.Store):
                    stored[n.id] = stored.get(n.id, 0) + 1
        for st in loop.body[:-1]:
            if isinstance(st, ast.Assign) and len(st.targets) == 1 and isinstance(st.targets[0], ast.Name) \
                    and stored.get(st.targets[0].id) == 1 and self.count_stores(st.targets[0].id) == 1:
                sub[st.targets[0].id] = substitute(st.value, sub)
            elif isinstance(st, ast.Assign) and len(st.targets) == 1 and isinstance(st.targets[0], ast.Tuple) \
                    and isinstance(st.value, ast.Tuple) and len(st.value.elts) == len(st.targets[0].elts) \
                    and all(isinstance(t, ast.Name) and stored.get(t.id) == 1 and self.count_stores(t.id) == 1
                            for t in st.targets[0].elts):
                vals = [substitute(v, sub) for v in st.value.elts]
                for t, v in zip(st.targets[0].elts, vals):
                    sub[t.id] = v
            elif isinstance(st, ast.Pass) or (isinstance(st, ast.Expr) and isinstance(st.value, ast.Constant)):
                continue
            else:
                return None
        return substitute(uses[0].args[0], sub), loop.target, loop.iter, loop

    def count_stores(self, name):
        return sum(1 for n in walk_scope(self.fn) if isinstance(n, ast.Name) and n.id == name
                   and isinstance(n.ctx, (ast.Store, ast.Del)))

    def single_any(self, name):
        """value of the one plain assignment of the name (in-place growth allowed)"""
        vals = [n.value for n in walk_scope(self.fn) if isinstance(n, ast.Assign) and len(n.targets) == 1
                and isinstance(n.targets[0], ast.Name) and n.targets[0].id == name]
        return vals[0] if len(vals) == 1 and self.count_stores(name) == 1 else None

    # -- element number __tid__
    def _range(self, it):
        """is `it` range(count) / range(0, count)?"""
        if isinstance(it, ast.Name):
            v = self.single(it.id)
            if v is not None:
                it = v
        if isinstance(it, ast.Call) and isinstance(it.func, ast.Name) and it.func.id in ("list", "tuple") \
                and len(it.args) == 1 and not it.keywords:
            it = it.args[0]
        if not (isinstance(it, ast.Call) and isinstance(it.func, ast.Name) and it.func.id == "range" and not it.keywords):
            return False
        args = list(it.args)
        if len(args) == 2 and self.const0(args[0]):
            args = args[1:]
        return len(args) == 1 and self.is_count(args[0])

    def elem(self, node, depth=0):
        if depth > 12:
            return None
        if self._range(node):
            return ast.Name(id=TID, ctx=ast.Load())
        v = self._view(node, 0)
        if v is None:
            return None
        elt, target, it, where = v
        sub = self._bindings(target, it, depth)
        if sub is None:
            return None
        out = self._index_by_tid(substitute(elt, sub), depth)
        if out is None:
            return None
        self.origin[id(out)] = where
        return out

    def _index_by_tid(self, node, depth):
        """`L[__tid__]` for a list L that is itself such a stream -> its element expression"""
        streams = self
        failed = []

        class R(ast.NodeTransformer):
            def visit_Subscript(self, n):
                n = self.generic_visit(n)
                if isinstance(n.slice, ast.Name) and n.slice.id == TID and isinstance(n.value, ast.Name) \
                        and isinstance(n.ctx, ast.Load):
                    e = streams.elem(n.value, depth + 1)
                    if e is None:
                        failed.append(n)
                        return n
                    return e
                return n

        out = R().visit(node)
        return None if failed else out

    def _bindings(self, target, it, depth):
        if isinstance(it, ast.Name) and self.single(it.id) is not None and not self._range(it) \
                and self._view(it, 0) is None:
            it = self.single(it.id)
        if self._range(it):
            return {target.id: ast.Name(id=TID, ctx=ast.Load())} if isinstance(target, ast.Name) else None
        while isinstance(it, ast.Call) and isinstance(it.func, ast.Name) and it.func.id in ("list", "tuple", "iter") \
                and len(it.args) == 1 and not it.keywords and not isinstance(it.args[0], ast.GeneratorExp):
            it = it.args[0]         # list(zip(..)), tuple(enumerate(..)): the same elements in the same order
        if isinstance(it, ast.Call) and isinstance(it.func, ast.Name) and not it.keywords:
            if it.func.id == "zip" and isinstance(target, (ast.Tuple, ast.List)) and len(target.elts) == len(it.args) >= 1:
                sub = {}
                for t, a in zip(target.elts, it.args):
                    e = self.elem(a, depth + 1)
                    if e is None:
                        return None
                    s2 = self._destructure(t, e)
                    if s2 is None:
                        return None
                    sub.update(s2)
                return sub
            if it.func.id == "enumerate" and len(it.args) == 1 and isinstance(target, (ast.Tuple, ast.List)) \
                    and len(target.elts) == 2 and isinstance(target.elts[0], ast.Name):
                e = self.elem(it.args[0], depth + 1)
                if e is None:
                    return None
                sub = self._destructure(target.elts[1], e)
                if sub is None:
                    return None
                sub[target.elts[0].id] = ast.Name(id=TID, ctx=ast.Load())
                return sub
        e = self.elem(it, depth + 1)
        if e is None:
            return None
        return self._destructure(target, e)

    def _destructure(self, target, e):
        if isinstance(target, ast.Name):
            return {target.id: e}
        if isinstance(target, (ast.Tuple, ast.List)) and isinstance(e, (ast.Tuple, ast.List)) \
                and len(e.elts) == len(target.elts) and not any(isinstance(x, ast.Starred) for x in list(e.elts) + list(target.elts)):
            sub = {}
            for t, x in zip(target.elts, e.elts):
                s2 = self._destructure(t, x)
                if s2 is None:
                    return None
                sub.update(s2)
            return sub
        return None


# =========================================================================== backward slices
def _scoped_walk(node, bound=frozenset()):
    """(node, names bound by enclosing comprehensions / lambdas) for every node below `node`"""
    yield node, bound
    if isinstance(node, (ast.ListComp, ast.SetComp, ast.GeneratorExp, ast.DictComp)):
        inner = set(bound)
        for k, g in enumerate(node.generators):
            # the iterable of a generator sees the targets of the generators before it only
            yield from _scoped_walk(g.iter, frozenset(inner) if k else bound)
            inner |= {n.id for n in ast.walk(g.target) if isinstance(n, ast.Name)}
            for c in g.ifs:
                yield from _scoped_walk(c, frozenset(inner))
        for part in ([node.key, node.value] if isinstance(node, ast.DictComp) else [node.elt]):
            yield from _scoped_walk(part, frozenset(inner))
        return
    if isinstance(node, ast.Lambda):
        a = node.args
        inner = set(bound) | {x.arg for x in a.args + a.kwonlyargs + a.posonlyargs}
        for x in (a.vararg, a.kwarg):
            if x is not None:
                inner.add(x.arg)
        for d in list(a.defaults) + [d for d in a.kw_defaults if d is not None]:
            yield from _scoped_walk(d, bound)
        yield from _scoped_walk(node.body, frozenset(inner))
        return
    for c in ast.iter_child_nodes(node):
        yield from _scoped_walk(c, bound)


def _loads(node):
    """names of the enclosing function scope that the statement reads"""
    out = set()
    for n, bound in _scoped_walk(node):
        if isinstance(n, ast.Name) and isinstance(n.ctx, ast.Load) and n.id not in bound:
            out.add(n.id)
    return out


def _base_name(n, bound):
    while isinstance(n, (ast.Subscript, ast.Attribute)):
        n = n.value
    return n.id if isinstance(n, ast.Name) and n.id not in bound else None


def _touches(st, name):
    """may the statement (re)bind the name or change the object it is bound to?"""
    for n, bound in _scoped_walk(st):
        if isinstance(n, ast.Name) and n.id == name and isinstance(n.ctx, (ast.Store, ast.Del)) and name not in bound:
            return True
        if isinstance(n, (ast.Subscript, ast.Attribute)) and isinstance(n.ctx, (ast.Store, ast.Del)) \
                and _base_name(n.value, bound) == name:
            return True
        if isinstance(n, ast.Call) and isinstance(n.func, ast.Attribute) and _base_name(n.func.value, bound) == name:
            if isinstance(st, ast.Expr) and st.value is n:
                return True         # `name.method(...)` as a statement: called for its effect
            if n.func.attr in ("append", "extend", "insert", "pop", "remove", "clear", "update", "add", "discard",
                               "setdefault", "sort", "reverse", "popitem"):
                return True
    return False


def backward_slice(stmts, names):
    """The statements of the list (whole top-level statements, in order) that can influence the value of the
    names at the end of the list (flow-insensitive closure: a chosen statement makes every name it reads
    relevant)."""
    relevant = set(names)
    chosen = set()
    changed = True
    while changed:
        changed = False
        for i, st in enumerate(stmts):
            if i in chosen:
                continue
            if any(_touches(st, n) for n in relevant):
                chosen.add(i)
                new = _loads(st) - relevant
                relevant |= new
                changed = True
    return [stmts[i] for i in sorted(chosen)], relevant
