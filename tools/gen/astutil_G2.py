"""Shared AST helpers of the G2 plug-ins (markerconsts): semantic instead of textual extraction.

Four tools, all static (nothing of OSACA is imported or executed):

* `ceval(node, env)`     constant-expression evaluator (literals in any spelling, arithmetic, string
                         concatenation / formatting of constants, containers, `range`, a white-list of pure
                         builtins and str methods, names bound to constants at module / class level).
* `atoms(cond, pol)`     a condition (or its negation) as a list of atomic facts `(node, polarity)`:
                         `not`, De Morgan, negated comparison operators and `a > b` -> `b < a` are normalised,
                         so `if not c: continue` / `if c: ... else: ...` / `x if c else y` / `while a and b` /
                         `while a: if not b: break` all give the same facts.
* `Paths`                a small symbolic executor of straight-line code with branches.  Local names are
                         substituted by the expressions they were assigned (so hoisted sub-expressions and
                         renamed locals disappear), every effect (assignment, expression statement, return) is
                         reported with the facts that hold on the path reaching it.  if/elif/else, nested ifs,
                         guard clauses with continue/break/return/raise, conditional expressions at the top of
                         an assignment or return, tuple unpacking and try blocks are understood; an inner loop
                         is opaque (reported as event, names stored in it are forgotten).
* `linear(node, env)`    linear form of an integer expression over opaque terms.

Everything that cannot be interpreted raises TranslateError (never a silent default).
"""
import ast
import copy

from translate import TranslateError


def fail(what, node=None):
    raise TranslateError("%s (line %s)" % (what, getattr(node, "lineno", "?")) if node is not None else what)


def dump(node):
    """Structural identity of an expression (no positions)."""
    return ast.dump(node, annotate_fields=False, include_attributes=False)


def expr(src):
    return ast.parse(src, mode="eval").body


def sym(src):
    return dump(expr(src))


# ------------------------------------------------------------------ constant evaluation
class NotConstant(TranslateError):
    pass


class Env:
    """Names known to be bound to constant expressions.  `names`: name -> python value or ast node
    (evaluated on demand in this environment); `classes`: class name -> {attr: node}."""

    def __init__(self, names=None, classes=None, self_class=None, parent=None):
        self.names = dict(names or {})
        self.classes = dict(classes or {})
        self.self_class = self_class
        self.parent = parent
        self._busy = set()

    def child(self, names=None, hide=(), self_class=None):
        e = Env(names, {}, self_class if self_class is not None else self.self_class, self)
        e.hidden = set(hide)
        return e

    hidden = frozenset()

    def lookup(self, name):
        if name in self.names:
            v = self.names[name]
            if isinstance(v, ast.AST):
                key = ("n", name)
                if key in self._busy:
                    raise NotConstant("cyclic definition of %s" % name)
                self._busy.add(key)
                try:
                    v = ceval(v, self)
                finally:
                    self._busy.discard(key)
            return v
        if name in self.hidden or self.parent is None:
            raise NotConstant("name %s is not bound to a constant" % name)
        return self.parent.lookup(name)

    def class_attr(self, cls, attr):
        e = self
        while e is not None:
            if cls in e.classes:
                if attr not in e.classes[cls]:
                    raise NotConstant("%s.%s is not a constant class attribute" % (cls, attr))
                root = e
                return ceval(e.classes[cls][attr], root.child(dict(e.classes[cls]), self_class=cls))
            e = e.parent
        raise NotConstant("class %s unknown" % cls)

    def get_self_class(self):
        e = self
        while e is not None:
            if e.self_class:
                return e.self_class
            e = e.parent
        return None


def module_env(tree):
    """Module-level names assigned exactly once (and never stored into / declared global elsewhere) and the
    simple class attributes of every top-level class."""
    count, value, classes = {}, {}, {}

    def note(name, node=None):
        count[name] = count.get(name, 0) + 1
        value[name] = node

    for st in tree.body:
        if isinstance(st, ast.Assign):
            for t in st.targets:
                if isinstance(t, ast.Name):
                    note(t.id, st.value if len(st.targets) == 1 else None)
                elif isinstance(t, (ast.Tuple, ast.List)) and isinstance(st.value, (ast.Tuple, ast.List)) \
                        and len(st.targets) == 1 and len(t.elts) == len(st.value.elts) \
                        and all(isinstance(x, ast.Name) for x in t.elts) \
                        and not any(isinstance(x, ast.Starred) for x in st.value.elts):
                    for x, v in zip(t.elts, st.value.elts):     # `A, B = 1, 2`
                        note(x.id, v)
                else:
                    for n in ast.walk(t):
                        if isinstance(n, ast.Name):
                            note(n.id)
        elif isinstance(st, ast.AnnAssign) and isinstance(st.target, ast.Name):
            note(st.target.id, st.value)
        elif isinstance(st, ast.ClassDef):
            note(st.name)
            attrs, cnt = {}, {}
            for sub in st.body:
                if isinstance(sub, ast.Assign) and len(sub.targets) == 1 and isinstance(sub.targets[0], ast.Name):
                    attrs[sub.targets[0].id] = sub.value
                    cnt[sub.targets[0].id] = cnt.get(sub.targets[0].id, 0) + 1
            classes[st.name] = {k: v for k, v in attrs.items() if cnt[k] == 1}
        elif isinstance(st, (ast.FunctionDef, ast.AsyncFunctionDef)):
            note(st.name)
        elif isinstance(st, (ast.Import, ast.ImportFrom)):
            for a in st.names:
                note((a.asname or a.name).split(".")[0])
        else:
            for n in ast.walk(st):
                if isinstance(n, ast.Name) and isinstance(n.ctx, (ast.Store, ast.Del)):
                    note(n.id)
    spoiled = set()
    for n in ast.walk(tree):
        if isinstance(n, (ast.Global, ast.Nonlocal)):
            spoiled.update(n.names)
        if isinstance(n, (ast.Subscript, ast.Attribute)) and isinstance(n.ctx, (ast.Store, ast.Del)) \
                and isinstance(n.value, ast.Name):
            spoiled.add(n.value.id)
        if isinstance(n, ast.AugAssign) and isinstance(n.target, ast.Name):
            spoiled.add(n.target.id)
    names = {k: v for k, v in value.items() if count[k] == 1 and v is not None and k not in spoiled}
    return Env(names, classes)


_BIN = {
    ast.Add: lambda a, b: a + b, ast.Sub: lambda a, b: a - b, ast.Mult: lambda a, b: a * b,
    ast.Div: lambda a, b: a / b, ast.FloorDiv: lambda a, b: a // b, ast.Mod: lambda a, b: a % b,
    ast.Pow: lambda a, b: a ** b, ast.LShift: lambda a, b: a << b, ast.RShift: lambda a, b: a >> b,
    ast.BitOr: lambda a, b: a | b, ast.BitAnd: lambda a, b: a & b, ast.BitXor: lambda a, b: a ^ b,
}
_CMP = {
    ast.Eq: lambda a, b: a == b, ast.NotEq: lambda a, b: a != b, ast.Lt: lambda a, b: a < b,
    ast.LtE: lambda a, b: a <= b, ast.Gt: lambda a, b: a > b, ast.GtE: lambda a, b: a >= b,
    ast.Is: lambda a, b: a is b, ast.IsNot: lambda a, b: a is not b,
    ast.In: lambda a, b: a in b, ast.NotIn: lambda a, b: a not in b,
}
_PURE = {
    "len": len, "int": int, "float": float, "str": str, "ord": ord, "chr": chr, "tuple": tuple, "list": list,
    "set": set, "frozenset": frozenset, "sorted": sorted, "min": min, "max": max, "sum": sum, "abs": abs,
    "bool": bool, "range": range, "dict": dict, "hex": hex, "reversed": lambda x: list(reversed(x)),
}
_STR_METHODS = {"join", "format", "lower", "upper", "strip", "lstrip", "rstrip", "split", "replace", "encode"}


def ceval(node, env=None):
    """Value of a constant expression; raises NotConstant (a TranslateError) otherwise."""
    env = env if env is not None else Env()
    try:
        return _ceval(node, env)
    except NotConstant:
        raise
    except TranslateError:
        raise
    except Exception as e:  # ZeroDivisionError, TypeError, ... inside a "constant"
        raise NotConstant("constant expression at line %s does not evaluate: %s: %s"
                          % (getattr(node, "lineno", "?"), type(e).__name__, e))


def _ceval(node, env):
    if isinstance(node, ast.Constant):
        return node.value
    if isinstance(node, ast.Name):
        return env.lookup(node.id)
    if isinstance(node, ast.UnaryOp):
        v = _ceval(node.operand, env)
        if isinstance(node.op, ast.USub):
            return -v
        if isinstance(node.op, ast.UAdd):
            return +v
        if isinstance(node.op, ast.Not):
            return not v
        return ~v
    if isinstance(node, ast.BinOp):
        a, b = _ceval(node.left, env), _ceval(node.right, env)
        if isinstance(node.op, ast.Pow) and isinstance(b, int) and abs(b) > 256:
            raise NotConstant("power too large")
        if isinstance(node.op, ast.LShift) and b > 256:
            raise NotConstant("shift too large")
        if isinstance(node.op, ast.Mult) and any(isinstance(x, (str, list, tuple, bytes)) for x in (a, b)) \
                and any(isinstance(x, int) and x > 10000 for x in (a, b)):
            raise NotConstant("repetition too large")
        return _BIN[type(node.op)](a, b)
    if isinstance(node, ast.BoolOp):
        v = None
        for e in node.values:
            v = _ceval(e, env)
            if isinstance(node.op, ast.And) and not v:
                return v
            if isinstance(node.op, ast.Or) and v:
                return v
        return v
    if isinstance(node, ast.Compare):
        left = _ceval(node.left, env)
        for op, c in zip(node.ops, node.comparators):
            right = _ceval(c, env)
            if not _CMP[type(op)](left, right):
                return False
            left = right
        return True
    if isinstance(node, ast.IfExp):
        return _ceval(node.body if _ceval(node.test, env) else node.orelse, env)
    if isinstance(node, (ast.Tuple, ast.List, ast.Set)):
        out = []
        for e in node.elts:
            if isinstance(e, ast.Starred):
                out.extend(_ceval(e.value, env))
            else:
                out.append(_ceval(e, env))
        return tuple(out) if isinstance(node, ast.Tuple) else (set(out) if isinstance(node, ast.Set) else out)
    if isinstance(node, ast.Dict):
        out = {}
        for k, v in zip(node.keys, node.values):
            if k is None:
                out.update(_ceval(v, env))
            else:
                out[_ceval(k, env)] = _ceval(v, env)
        return out
    if isinstance(node, ast.JoinedStr):
        parts = []
        for p in node.values:
            if isinstance(p, ast.Constant):
                parts.append(p.value)
            else:
                v = _ceval(p.value, env)
                v = {-1: lambda x: x, 115: str, 114: repr, 97: ascii}[p.conversion](v)
                spec = _ceval(p.format_spec, env) if p.format_spec is not None else ""
                parts.append(format(v, spec))
        return "".join(parts)
    if isinstance(node, ast.Subscript):
        v = _ceval(node.value, env)
        if isinstance(node.slice, ast.Slice):
            s = node.slice
            return v[slice(*[None if x is None else _ceval(x, env) for x in (s.lower, s.upper, s.step)])]
        return v[_ceval(node.slice, env)]
    if isinstance(node, ast.Attribute):
        if isinstance(node.value, ast.Name):
            base = node.value.id
            if base in ("self", "cls") and env.get_self_class():
                return env.class_attr(env.get_self_class(), node.attr)
            return env.class_attr(base, node.attr)
        raise NotConstant("attribute .%s at line %s is not constant" % (node.attr, getattr(node, "lineno", "?")))
    if isinstance(node, ast.Call):
        if any(isinstance(a, ast.Starred) for a in node.args) or any(k.arg is None for k in node.keywords):
            raise NotConstant("call with * / ** at line %s" % getattr(node, "lineno", "?"))
        args = [_ceval(a, env) for a in node.args]
        kw = {k.arg: _ceval(k.value, env) for k in node.keywords}
        if isinstance(node.func, ast.Name) and node.func.id in _PURE:
            try:
                env.lookup(node.func.id)
            except NotConstant:
                return _PURE[node.func.id](*args, **kw)
            raise NotConstant("builtin %s is shadowed" % node.func.id)
        if isinstance(node.func, ast.Attribute) and node.func.attr in _STR_METHODS:
            recv = _ceval(node.func.value, env)
            if isinstance(recv, str):
                return getattr(recv, node.func.attr)(*args, **kw)
        raise NotConstant("call at line %s is not a constant expression" % getattr(node, "lineno", "?"))
    raise NotConstant("%s at line %s is not a constant expression" % (type(node).__name__, getattr(node, "lineno", "?")))


def const_of(node, env, types, what):
    """ceval with a type check (bool is not accepted as int)."""
    try:
        v = ceval(node, env)
    except NotConstant as e:
        raise TranslateError("%s: %s" % (what, e))
    tt = types if isinstance(types, tuple) else (types,)
    if not isinstance(v, tt) or (isinstance(v, bool) and bool not in tt):
        raise TranslateError("%s: expected %s, got %r (line %s)" % (what, "/".join(t.__name__ for t in tt), v,
                                                                    getattr(node, "lineno", "?")))
    return v


# ------------------------------------------------------------------ conditions
_NEG = {ast.Eq: ast.NotEq, ast.NotEq: ast.Eq, ast.Lt: ast.GtE, ast.GtE: ast.Lt, ast.Gt: ast.LtE, ast.LtE: ast.Gt,
        ast.Is: ast.IsNot, ast.IsNot: ast.Is, ast.In: ast.NotIn, ast.NotIn: ast.In}


def atoms(cond, pol=True):
    """Facts that hold when `cond` has truth value `pol`: list of (node, polarity).  Comparisons are stored
    positively with the operator negated if need be, `>`/`>=` are mirrored to `<`/`<=`; a disjunction that
    cannot be split stays one opaque fact."""
    if isinstance(cond, ast.UnaryOp) and isinstance(cond.op, ast.Not):
        return atoms(cond.operand, not pol)
    if isinstance(cond, ast.BoolOp):
        if isinstance(cond.op, ast.And) == pol:
            out = []
            for v in cond.values:
                out += atoms(v, pol)
            return out
        return [(cond, pol)]
    if isinstance(cond, ast.Compare) and len(cond.ops) == 1:
        op, l, r = type(cond.ops[0]), cond.left, cond.comparators[0]
        if not pol:
            op = _NEG[op]
        if op in (ast.Gt, ast.GtE):
            op, l, r = ({ast.Gt: ast.Lt, ast.GtE: ast.LtE}[op], r, l)
        return [(ast.Compare(left=l, ops=[op()], comparators=[r]), True)]
    if isinstance(cond, ast.Compare) and pol:
        out, l = [], cond.left
        for op, r in zip(cond.ops, cond.comparators):
            out += atoms(ast.Compare(left=l, ops=[op], comparators=[r]), True)
            l = r
        return out
    return [(cond, pol)]


def cmp_atom(atom, op):
    """(left, right) if the fact is the positive comparison `left <op> right`, else None."""
    node, pol = atom
    if pol and isinstance(node, ast.Compare) and len(node.ops) == 1 and isinstance(node.ops[0], op):
        return node.left, node.comparators[0]
    return None


def sym_cmp(atom, op):
    """Both orders of a symmetric comparison (==, !=, is, is not)."""
    p = cmp_atom(atom, op)
    return [] if p is None else [p, (p[1], p[0])]


# ------------------------------------------------------------------ substitution
def unpack_node(value, k, n):
    """Element k of n of the tuple-unpacking of a non-tuple value (NOT the same as value[k]: unpacking
    raises when the length differs)."""
    return ast.Call(func=ast.Name(id="__unpack__", ctx=ast.Load()),
                    args=[value, ast.Constant(value=k), ast.Constant(value=n)], keywords=[])


def is_unpack(node, k=None):
    if isinstance(node, ast.Call) and isinstance(node.func, ast.Name) and node.func.id == "__unpack__":
        if k is None or node.args[1].value == k:
            return node.args[0]
    return None


def subst(node, binds):
    """Copy of the expression with every loaded local name replaced by the expression bound to it."""
    if not binds:
        return copy.deepcopy(node)
    return _Subst(binds).visit(copy.deepcopy(node))


class _Subst(ast.NodeTransformer):
    def __init__(self, binds):
        self.binds = binds

    def visit_Name(self, node):
        if isinstance(node.ctx, ast.Load) and node.id in self.binds:
            return copy.deepcopy(self.binds[node.id])
        return node

    def _scoped(self, node, bound):
        inner = {k: v for k, v in self.binds.items() if k not in bound}
        return _Subst(inner).generic_visit(node) if inner else node

    def visit_Lambda(self, node):
        a = node.args
        bound = {x.arg for x in a.args + a.kwonlyargs + a.posonlyargs}
        for x in (a.vararg, a.kwarg):
            if x is not None:
                bound.add(x.arg)
        return self._scoped(node, bound)

    def _comp(self, node):
        bound = set()
        for g in node.generators:
            bound |= {n.id for n in ast.walk(g.target) if isinstance(n, ast.Name)}
        # the first iterable is evaluated in the enclosing scope
        first = self.visit(node.generators[0].iter)
        out = self._scoped(node, bound)
        out.generators[0].iter = first
        return out

    visit_ListComp = visit_SetComp = visit_GeneratorExp = visit_DictComp = _comp


MUTATORS = {"append", "extend", "insert", "pop", "remove", "clear", "update", "add", "discard", "setdefault",
            "sort", "reverse", "popitem", "appendleft", "extendleft"}


def mutated_receiver(node):
    """X if the expression is `X.<mutating method>(...)` on a plain name"""
    if isinstance(node, ast.Call) and isinstance(node.func, ast.Attribute) and node.func.attr in MUTATORS \
            and isinstance(node.func.value, ast.Name):
        return node.func.value.id
    return None


def stored_names(stmts):
    """names (re)bound or mutated in place (item/attribute store, mutating method call) by the statements"""
    out = set()
    for st in stmts:
        for n in ast.walk(st):
            if isinstance(n, ast.Name) and isinstance(n.ctx, (ast.Store, ast.Del)):
                out.add(n.id)
            elif isinstance(n, (ast.Subscript, ast.Attribute)) and isinstance(n.ctx, (ast.Store, ast.Del)) \
                    and isinstance(n.value, ast.Name):
                out.add(n.value.id)
            elif mutated_receiver(n):
                out.add(mutated_receiver(n))
            elif isinstance(n, (ast.FunctionDef, ast.ClassDef, ast.AsyncFunctionDef)):
                out.add(n.name)
    return out


# ------------------------------------------------------------------ symbolic paths
class State:
    __slots__ = ("conds", "binds")

    def __init__(self, conds=(), binds=None):
        self.conds = tuple(conds)
        self.binds = dict(binds or {})

    def when(self, cond, pol):
        return State(self.conds + tuple(atoms(cond, pol)), self.binds)

    def copy(self):
        return State(self.conds, self.binds)


class Event:
    """kind: assign (name, value) | expr (value) | store (target, value) | return (value) | continue | break |
    raise | loop (node).  `conds` are the facts of the path, `state` the state before the statement."""

    def __init__(self, kind, state, node, name=None, value=None, in_handler=False):
        self.kind, self.conds, self.state, self.node = kind, state.conds, state, node
        self.name, self.value, self.in_handler = name, value, in_handler

    def exprs(self):
        return [v for v in (self.value,) if v is not None]


class Paths:
    LIMIT = 512

    def __init__(self, split_ifexp=True):
        self.events = []
        self.split_ifexp = split_ifexp
        self._handler = 0

    # -- public
    def run(self, stmts, states=None):
        states = [State()] if states is None else states
        for st in stmts:
            nxt = []
            for s in states:
                nxt += self._step(st, s)
            states = nxt
            if len(states) > self.LIMIT:
                fail("too many paths", st)
        return states

    def loop_entry(self, loop, state, bind_target=None):
        """State in which one iteration of `loop` starts: what is known before the loop minus every name
        stored in it, plus `bind_target` (name -> expression) for names the loop does not store itself."""
        st = stored_names(loop.body + loop.orelse) | stored_names([loop.target] if isinstance(loop, ast.For) else [])
        binds = {k: v for k, v in state.binds.items() if k not in st and not (_free(v) & st)}
        body_st = stored_names(loop.body)
        for k, v in (bind_target or {}).items():
            if k not in body_st:
                binds[k] = v
        return State((), binds)

    # -- internals
    def _emit(self, kind, s, node, **kw):
        self.events.append(Event(kind, s, node, in_handler=self._handler > 0, **kw))

    def _assign(self, s, target, value, node):
        """bind `target` to the (already substituted) `value`"""
        if isinstance(target, ast.Name):
            # names occurring in other bindings keep their old meaning: bindings are already substituted
            self._emit("assign", s, node, name=target.id, value=value)
            _rebind(s, target.id, value)
        elif isinstance(target, (ast.Tuple, ast.List)):
            if any(isinstance(t, ast.Starred) for t in target.elts):
                fail("starred assignment is not interpreted", node)
            n = len(target.elts)
            if isinstance(value, (ast.Tuple, ast.List)) and len(value.elts) == n \
                    and not any(isinstance(e, ast.Starred) for e in value.elts):
                parts = list(value.elts)
            elif isinstance(value, ast.IfExp) and all(
                    isinstance(b, (ast.Tuple, ast.List)) and len(b.elts) == n for b in (value.body, value.orelse)):
                parts = [ast.IfExp(test=value.test, body=a, orelse=b) for a, b in zip(value.body.elts, value.orelse.elts)]
            else:
                parts = [unpack_node(value, k, n) for k in range(n)]
            # simultaneous assignment: all parts were substituted before any binding changes
            for t, p in zip(target.elts, parts):
                self._assign(s, t, p, node)
        else:
            self._emit("store", s, node, name=dump(subst(target, s.binds)), value=value)

    def _branch_value(self, s, value):
        """[(state, value)]: a conditional expression at the top of a value is a branch"""
        if self.split_ifexp and isinstance(value, ast.IfExp):
            out = []
            for pol, v in ((True, value.body), (False, value.orelse)):
                out += self._branch_value(s.when(value.test, pol), v)
            return out
        return [(s, value)]

    def _step(self, st, s):
        s = s.copy()
        if isinstance(st, (ast.Assign, ast.AnnAssign)):
            if isinstance(st, ast.AnnAssign):
                if st.value is None:
                    return [s]
                targets = [st.target]
            else:
                targets = st.targets
            out = []
            for s2, v in self._branch_value(s, subst(st.value, s.binds)):
                s2 = s2.copy()
                for t in targets:
                    self._assign(s2, t, v, st)
                out.append(s2)
            if len(out) > 1 and all(isinstance(t, ast.Name) for t in targets):
                pass
            return out
        if isinstance(st, ast.AugAssign):
            v = ast.BinOp(left=subst(_load(st.target), s.binds), op=st.op, right=subst(st.value, s.binds))
            if isinstance(st.target, ast.Name):
                self._emit("assign", s, st, name=st.target.id, value=v)
                _rebind(s, st.target.id, v)
            else:
                self._emit("store", s, st, name=dump(subst(_load(st.target), s.binds)), value=v)
            return [s]
        if isinstance(st, ast.Expr):
            if not (isinstance(st.value, ast.Constant)):
                mut = {mutated_receiver(n) for n in ast.walk(st.value)} - {None}
                if mut:
                    # an object changed in place is no longer what its name was bound to
                    s.binds = {k: v for k, v in s.binds.items() if k not in mut and not (_free(v) & mut)}
                self._emit("expr", s, st, value=subst(st.value, s.binds))
            return [s]
        if isinstance(st, ast.If):
            test = subst(st.test, s.binds)
            a = self.run(st.body, [s.when(test, True)])
            b = self.run(st.orelse, [s.when(test, False)])
            if len(a) == 1 and len(b) == 1 and _same(a[0].binds, s.binds) and _same(b[0].binds, s.binds):
                return [s]
            return a + b
        if isinstance(st, ast.Try):
            body_stored = stored_names(st.body)
            out = self.run(st.body, [s])
            out = self.run(st.orelse, out) if st.orelse else out
            self._handler += 1
            try:
                for h in st.handlers:
                    hs = State(s.conds, {k: v for k, v in s.binds.items()
                                         if k not in body_stored and not (_free(v) & body_stored)})
                    if h.name:
                        hs.binds.pop(h.name, None)
                    out += self.run(h.body, [hs])
            finally:
                self._handler -= 1
            if st.finalbody:
                out = self.run(st.finalbody, out)
            return out
        if isinstance(st, ast.With):
            for item in st.items:
                self._emit("expr", s, st, value=subst(item.context_expr, s.binds))
                if item.optional_vars is not None:
                    for n in stored_names([item.optional_vars]):
                        s.binds.pop(n, None)
            return self.run(st.body, [s])
        if isinstance(st, (ast.For, ast.While)):
            self._emit("loop", s, st)
            killed = stored_names([st])
            s.binds = {k: v for k, v in s.binds.items() if k not in killed and not (_free(v) & killed)}
            return [s]
        if isinstance(st, ast.Return):
            if st.value is None:
                self._emit("return", s, st, value=ast.Constant(value=None))
            else:
                for s2, v in self._branch_value(s, subst(st.value, s.binds)):
                    self._emit("return", s2, st, value=v)
            return []
        if isinstance(st, ast.Raise):
            self._emit("raise", s, st, value=subst(st.exc, s.binds) if st.exc is not None else None)
            return []
        if isinstance(st, ast.Continue):
            self._emit("continue", s, st)
            return []
        if isinstance(st, ast.Break):
            self._emit("break", s, st)
            return []
        if isinstance(st, ast.Assert):
            return [s.when(subst(st.test, s.binds), True)]
        if isinstance(st, (ast.Pass, ast.Import, ast.ImportFrom)):
            return [s]
        if isinstance(st, (ast.FunctionDef, ast.ClassDef)):
            s.binds.pop(st.name, None)
            return [s]
        fail("statement %s is not interpreted" % type(st).__name__, st)


def _rebind(s, name, value):
    """bind `name`; other bindings that mention the (old) `name` become opaque"""
    for k in [k for k, v in s.binds.items() if k != name and name in _free(v)]:
        del s.binds[k]
    s.binds[name] = value


def _load(target):
    t = copy.deepcopy(target)
    for n in ast.walk(t):
        if hasattr(n, "ctx"):
            n.ctx = ast.Load()
    return t


def _free(node):
    return {n.id for n in ast.walk(node) if isinstance(n, ast.Name)}


def _same(a, b):
    return a.keys() == b.keys() and all(a[k] is b[k] for k in a)


def walk_exprs(events, kinds=("assign", "expr", "store", "return", "raise")):
    """every sub-expression of the effects of the given events: (event, node)"""
    for ev in events:
        if ev.kind in kinds and ev.value is not None:
            for n in ast.walk(ev.value):
                yield ev, n


# ------------------------------------------------------------------ linear forms
def linear(node, env=None, what="expression"):
    """{key: coefficient} with key "" for the constant and dump(term) for every opaque term."""
    try:
        v = ceval(node, env)
        if isinstance(v, int) and not isinstance(v, bool):
            return {"": v}
    except TranslateError:
        pass
    if isinstance(node, ast.UnaryOp) and isinstance(node.op, (ast.USub, ast.UAdd)):
        sign = -1 if isinstance(node.op, ast.USub) else 1
        return _clean({k: sign * v for k, v in linear(node.operand, env, what).items()})
    if isinstance(node, ast.BinOp) and isinstance(node.op, (ast.Add, ast.Sub)):
        a, b = linear(node.left, env, what), linear(node.right, env, what)
        sign = 1 if isinstance(node.op, ast.Add) else -1
        out = dict(a)
        for k, v in b.items():
            out[k] = out.get(k, 0) + sign * v
        return _clean(out)
    if isinstance(node, ast.BinOp) and isinstance(node.op, ast.Mult):
        a, b = linear(node.left, env, what), linear(node.right, env, what)
        for x, y in ((a, b), (b, a)):
            if set(x) <= {""}:
                return _clean({k: v * x.get("", 0) for k, v in y.items()})
        fail("%s: product of two non-constants" % what, node)
    if isinstance(node, (ast.Name, ast.Call, ast.Subscript, ast.Attribute)):
        return {dump(node): 1, "": 0}
    fail("%s: expression is not linear" % what, node)


def _clean(d):
    out = {k: v for k, v in d.items() if v != 0 or k == ""}
    out.setdefault("", 0)
    return out


def lin_offset(lin, required, what):
    """constant of a linear form that must consist of exactly the terms `required` (keys) with coefficient 1"""
    keys = {k for k in lin if k != ""}
    if keys != set(required) or any(lin[k] != 1 for k in keys):
        raise TranslateError("%s is not of the expected linear shape" % what)
    return lin.get("", 0)


# ------------------------------------------------------------------ misc shapes
def func_params(fn):
    a = fn.args
    if a.vararg or a.kwarg or a.kwonlyargs or a.posonlyargs:
        fail("signature of %s uses * / ** / keyword-only parameters" % fn.name, fn)
    names = [x.arg for x in a.args]
    defaults = dict(zip(names[len(names) - len(a.defaults):], a.defaults))
    return names, defaults


def func_env(fn, menv, self_class=None):
    """Module constants visible inside `fn` (parameters and locals hide module names)."""
    hide = set(func_params(fn)[0]) | stored_names(fn.body)
    return menv.child({}, hide=hide, self_class=self_class)


def method_call(node, attr, nargs=None):
    """receiver and args of `recv.attr(args)`"""
    if isinstance(node, ast.Call) and isinstance(node.func, ast.Attribute) and node.func.attr == attr \
            and not node.keywords and (nargs is None or len(node.args) == nargs):
        return node.func.value, node.args
    return None


def name_call(node, name, nargs=None):
    if isinstance(node, ast.Call) and isinstance(node.func, ast.Name) and node.func.id == name \
            and (nargs is None or len(node.args) == nargs):
        return node.args
    return None


def bind_call(call, params, defaults, what):
    """argument expressions of `call` by parameter name"""
    if any(isinstance(a, ast.Starred) for a in call.args) or any(k.arg is None for k in call.keywords):
        fail("%s: call with * / **" % what, call)
    if len(call.args) > len(params):
        fail("%s: too many arguments" % what, call)
    out = dict(defaults)
    seen = set()
    for p, a in zip(params, call.args):
        out[p] = a
        seen.add(p)
    for k in call.keywords:
        if k.arg not in params or k.arg in seen:
            fail("%s: unexpected keyword %r" % (what, k.arg), call)
        out[k.arg] = k.value
        seen.add(k.arg)
    for p in params:
        if p not in out:
            fail("%s: argument %s not given" % (what, p), call)
    return out
