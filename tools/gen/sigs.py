"""Gen/Sigs.lean: the distinct operand signatures (operand dicts without the source/destination
markers) of every shipped machine model and of the two ISA databases, per ISA, as raw YAML values.
`Props/C07.lean` decides over these tables that every operand pattern a shipped entry declares is
schema-valid and *live* (an instruction operand of exactly that kind exists and matches)."""
import glob
import os

import translate as T
from translate import TranslateError, generator, HEADER


def _db():
    import importlib.util

    spec = importlib.util.spec_from_file_location("translate_gen_db_for_sigs", os.path.join(T.HERE, "gen", "db.py"))
    # db.py registers generators on import; reuse its helpers without re-registering
    saved = dict(T.GENERATORS)
    mod = importlib.util.module_from_spec(spec)
    spec.loader.exec_module(mod)
    T.GENERATORS.clear()
    T.GENERATORS.update(saved)
    return mod


def model_files():
    out = []
    for f in sorted(glob.glob(os.path.join(T.REPO, "osaca", "data", "*.yml"))):
        if os.path.getsize(f) > 0:
            out.append(f)
    out += sorted(glob.glob(os.path.join(T.REPO, "osaca", "data", "isa", "*.yml")))
    return out


@generator("Sigs", ["osaca/data/*.yml", "osaca/data/isa/*.yml", "../verif-self:tools/gen/sigs.py"])
def gen_sigs():
    db = _db()
    per_isa = {"x86": {}, "aarch64": {}}
    arity = {"x86": 0, "aarch64": 0}
    nforms = 0
    for f in model_files():
        d = db.load_yaml(f)
        if not isinstance(d, dict) or "instruction_forms" not in d or "isa" not in d:
            raise TranslateError("%s: not a machine model" % f)
        isa = str(d["isa"]).lower()
        if isa not in per_isa:
            raise TranslateError("%s: unknown isa %r" % (f, d["isa"]))
        name = os.path.relpath(f, os.path.join(T.REPO, "osaca", "data"))[:-4]
        for e in d["instruction_forms"] or []:
            nforms += 1
            ops = e.get("operands")
            if not isinstance(ops, list):
                raise TranslateError("%s: form %r has no operand list" % (name, e.get("name")))
            arity[isa] = max(arity[isa], len(ops))
            for o in ops:
                if not isinstance(o, dict):
                    raise TranslateError("%s: form %r has a non-mapping operand %r" % (name, e.get("name"), o))
                c = {k: v for k, v in o.items() if k not in ("source", "destination")}
                key = repr(db.canon(c))
                rec = per_isa[isa].setdefault(key, [c, []])
                if name not in rec[1]:
                    rec[1].append(name)
    out = [HEADER, "import OsacaVerif.Model.Yaml\n", "namespace OsacaVerif.Gen.Sigs", "open OsacaVerif\n"]
    for isa, lean in (("x86", "x86"), ("aarch64", "a64")):
        items = list(per_isa[isa].values())
        out.append("/-- distinct operand signatures of the shipped %s models (%d) -/" % (isa, len(items)))
        out.append("def %s : List Y := [" % lean)
        out.append(",\n".join("  %s  -- %s" % (db.y_lit(c), " ".join(a)) if False else "  %s" % db.y_lit(c) for c, a in items))
        out.append("]\n")
        out.append("/-- largest operand count of a shipped %s form -/" % isa)
        out.append("def %sMaxArity : Nat := %d\n" % (lean, arity[isa]))
    out.append("def formCount : Nat := %d\n" % nforms)
    out.append("end OsacaVerif.Gen.Sigs\n")
    return "\n".join(out)
