"""Gen/MatchConsts.lean: every literal of the instruction-form matcher and of the composition path
that the C07/C08 models and theorems depend on (hw_model.py, arch_semantics.py, isa_semantics.py).

Literals are located by structure (comparisons `x == "<literal>"` inside the named method, class
attributes, slice shapes), never by line number.  A literal that moved or changed shape raises
TranslateError (= broken tie: the check then searches for a failing input).
"""
import ast

import translate as T
from translate import TranslateError, generator, parse, find_func, txt, txt_list, HEADER

HW = "osaca/semantics/hw_model.py"
ARCH = "osaca/semantics/arch_semantics.py"
ISA = "osaca/semantics/isa_semantics.py"


def class_attr(tree, cls, name):
    for node in ast.walk(tree):
        if isinstance(node, ast.ClassDef) and node.name == cls:
            for sub in node.body:
                if isinstance(sub, ast.Assign) and len(sub.targets) == 1 and isinstance(sub.targets[0], ast.Name) \
                        and sub.targets[0].id == name:
                    if isinstance(sub.value, ast.Constant):
                        return sub.value.value
    raise TranslateError("class attribute %s.%s not found" % (cls, name))


def is_wild(node):
    return isinstance(node, ast.Attribute) and node.attr == "WILDCARD"


def str_compares(fn, attr=None):
    """string literals compared with == / != inside fn, in source order; optionally only those whose
    left side is an attribute access `.attr` (or a bare name `attr`)"""
    out = []
    for node in ast.walk(fn):
        if isinstance(node, ast.Compare) and len(node.ops) == 1 and isinstance(node.ops[0], (ast.Eq, ast.NotEq)):
            l, r = node.left, node.comparators[0]
            if isinstance(r, ast.Constant) and isinstance(r.value, str):
                if attr is None or (isinstance(l, ast.Attribute) and l.attr == attr) or \
                        (isinstance(l, ast.Name) and l.id == attr):
                    out.append((node.lineno, node.col_offset, r.value))
    return [v for _, _, v in sorted(out)]


def int_compares(fn, attr):
    out = []
    for node in ast.walk(fn):
        if isinstance(node, ast.Compare) and len(node.ops) == 1 and isinstance(node.ops[0], (ast.Eq, ast.NotEq)):
            l, r = node.left, node.comparators[0]
            if isinstance(l, ast.Attribute) and l.attr == attr and isinstance(r, ast.Constant) \
                    and isinstance(r.value, int) and not isinstance(r.value, bool):
                out.append((type(node.ops[0]).__name__, r.value))
    return out


def one(values, what):
    s = set(values)
    if len(s) != 1:
        raise TranslateError("%s: expected exactly one literal, found %r" % (what, sorted(s)))
    return s.pop()


def suffix_fallback_shape(fn, what):
    """the two fall-backs: `mnemonic[-1] in self.GAS_SUFFIXES` -> `mnemonic[:-1]` and
    `"<sep>" in mnemonic` -> `mnemonic[:mnemonic.index("<sep>")]`; returns the separator"""
    seps, last_char, drop_last, cut_at = set(), 0, 0, 0
    for node in ast.walk(fn):
        if isinstance(node, ast.Compare) and len(node.ops) == 1 and isinstance(node.ops[0], ast.In):
            l, r = node.left, node.comparators[0]
            if isinstance(l, ast.Constant) and isinstance(l.value, str) and isinstance(r, ast.Attribute) and r.attr == "mnemonic":
                seps.add(l.value)
            if isinstance(l, ast.Subscript) and isinstance(l.value, ast.Attribute) and l.value.attr == "mnemonic" \
                    and isinstance(r, ast.Attribute) and r.attr == "GAS_SUFFIXES":
                idx = l.slice
                if isinstance(idx, ast.UnaryOp) and isinstance(idx.op, ast.USub) and isinstance(idx.operand, ast.Constant) \
                        and idx.operand.value == 1:
                    last_char += 1
                else:
                    raise TranslateError("%s: suffix test does not look at mnemonic[-1]" % what)
        if isinstance(node, ast.Subscript) and isinstance(node.value, ast.Attribute) and node.value.attr == "mnemonic" \
                and isinstance(node.slice, ast.Slice):
            sl = node.slice
            if sl.lower is None and sl.step is None:
                u = sl.upper
                if isinstance(u, ast.UnaryOp) and isinstance(u.op, ast.USub) and isinstance(u.operand, ast.Constant) and u.operand.value == 1:
                    drop_last += 1
                elif isinstance(u, ast.Name):
                    cut_at += 1
                else:
                    raise TranslateError("%s: unexpected mnemonic slice" % what)
            else:
                raise TranslateError("%s: unexpected mnemonic slice" % what)
        if isinstance(node, ast.Call) and isinstance(node.func, ast.Attribute) and node.func.attr == "index" \
                and isinstance(node.func.value, ast.Attribute) and node.func.value.attr == "mnemonic":
            if not (node.args and isinstance(node.args[0], ast.Constant)):
                raise TranslateError("%s: mnemonic.index(<non-literal>)" % what)
            seps.add(node.args[0].value)
    if last_char == 0 or drop_last != last_char or cut_at == 0:
        raise TranslateError("%s: suffix fall-backs not found in the expected shape (%d/%d/%d)" % (what, last_char, drop_last, cut_at))
    return one(seps, what + " '.'-suffix separator")


@generator("MatchConsts", [HW, ARCH, ISA])
def gen_matchconsts():
    th = parse(HW)
    ta = parse(ARCH)
    ti = parse(ISA)
    wildcard = class_attr(th, "MachineModel", "WILDCARD")
    gas_arch = class_attr(ta, "ArchSemantics", "GAS_SUFFIXES")
    gas_isa = class_attr(ti, "ISASemantics", "GAS_SUFFIXES")
    if not all(isinstance(x, str) for x in (wildcard, gas_arch, gas_isa)):
        raise TranslateError("WILDCARD / GAS_SUFFIXES are not string literals")

    # x86 register classes
    fx = find_func(th, "_is_x86_reg_type", "MachineModel")
    gpr = one(str_compares(fx, "i_reg_name"), "_is_x86_reg_type: i_reg_name == <literal>")
    # x86 operand classes
    fc = find_func(th, "_check_x86_operands", "MachineModel")
    x86_imm = one(str_compares(fc, "imd_type"), "_check_x86_operands: imd_type == <literal>")
    # x86 memory
    fm = find_func(th, "_is_x86_mem_type", "MachineModel")
    off_lits = str_compares(fm, "offset")
    val_lits = str_compares(fm, "value")
    if len(off_lits) != 2 or len(val_lits) != 1:
        raise TranslateError("_is_x86_mem_type: expected offset == <imd>, offset == <id>, value == <0>; got %r %r" % (off_lits, val_lits))
    x86_scale = int_compares(fm, "scale")
    # AArch64 operand classes
    fa = find_func(th, "_check_AArch64_operands", "MachineModel")
    a64_types = str_compares(fa, "imd_type")
    # pairs i_operand.imd_type == t  /  operand.imd_type == t
    if len(a64_types) % 2 or a64_types[0::2] != a64_types[1::2]:
        raise TranslateError("_check_AArch64_operands: immediate type tests are not paired: %r" % a64_types)
    a64_types = a64_types[0::2]
    fam = find_func(th, "_is_AArch64_mem_type", "MachineModel")
    a64_off = one(str_compares(fam, "offset"), "_is_AArch64_mem_type: offset == <literal>")
    a64_scale = int_compares(fam, "scale")
    for nm, sc in (("_is_x86_mem_type", x86_scale), ("_is_AArch64_mem_type", a64_scale)):
        if sorted(sc) != [("NotEq", sc[0][1]), ("NotEq", sc[0][1])]:
            raise TranslateError("%s: expected `mem.scale != k and i_mem.scale != k`, got %r" % (nm, sc))
    if x86_scale[0][1] != a64_scale[0][1]:
        raise TranslateError("scale literals differ between the ISAs")
    # wildcard must be referenced through self.WILDCARD in all matcher functions
    for f in (fx, fm, fa, fam, find_func(th, "_is_AArch64_reg_type", "MachineModel"), find_func(th, "_check_operands", "MachineModel")):
        if not any(is_wild(n) for n in ast.walk(f)):
            raise TranslateError("%s does not use self.WILDCARD" % f.name)
    # _compare_db_entries: first statement `return True`
    fcmp = find_func(th, "_compare_db_entries", "MachineModel")
    body = [s for s in fcmp.body if not (isinstance(s, ast.Expr) and isinstance(s.value, ast.Constant))]
    unknown_matches = bool(body and isinstance(body[0], ast.Return) and isinstance(body[0].value, ast.Constant)
                           and body[0].value.value is True)
    # get_store_latency: constant
    fs = find_func(th, "get_store_latency", "MachineModel")
    rets = [n for n in ast.walk(fs) if isinstance(n, ast.Return)]
    if len(rets) != 1 or not isinstance(rets[0].value, ast.Constant) or isinstance(rets[0].value.value, bool) \
            or not isinstance(rets[0].value.value, (int, float)):
        raise TranslateError("get_store_latency is not a constant function")
    store_lat = rets[0].value.value
    # alias expansion: `.append(new_entry)` and `.remove(entry)` on instruction_forms inside __init__
    fi = find_func(th, "__init__", "MachineModel")
    app = rem = 0
    for node in ast.walk(fi):
        if isinstance(node, ast.Call) and isinstance(node.func, ast.Attribute) and isinstance(node.func.value, ast.Subscript):
            sub = node.func.value
            if isinstance(sub.slice, ast.Constant) and sub.slice.value == "instruction_forms":
                if node.func.attr == "append":
                    app += 1
                elif node.func.attr == "remove":
                    rem += 1
                elif node.func.attr in ("insert", "extend"):
                    raise TranslateError("MachineModel.__init__: alias expansion no longer appends at the end")
    if app != 1 or rem != 1:
        raise TranslateError("MachineModel.__init__: alias expansion (append new entry / remove list entry) not found")
    # suffix fall-backs
    sep_a = suffix_fallback_shape(find_func(ta, "assign_tp_lt", "ArchSemantics"), "assign_tp_lt")
    sep_i = suffix_fallback_shape(find_func(ti, "assign_src_dst", "ISASemantics"), "assign_src_dst")
    if sep_a != sep_i or len(sep_a) != 1:
        raise TranslateError("suffix separators differ: %r %r" % (sep_a, sep_i))
    # register wildcard of the composition path: {"*": "*"}
    fw = find_func(ti, "_create_reg_wildcard", "ISASemantics")
    wd = [n for n in ast.walk(fw) if isinstance(n, ast.Dict)]
    if len(wd) != 1 or len(wd[0].keys) != 1 or not isinstance(wd[0].keys[0], ast.Constant):
        raise TranslateError("_create_reg_wildcard: dict literal not found")
    wild_key = wd[0].keys[0].value
    # get_reg_type (x86): "gpr"
    tp = parse("osaca/parser/parser_x86att.py")
    fg = find_func(tp, "get_reg_type", "ParserX86ATT")
    gstr = [n.value.value for n in ast.walk(fg) if isinstance(n, ast.Return) and isinstance(n.value, ast.Constant)
            and isinstance(n.value.value, str)]
    reg_type_gpr = one(gstr, "ParserX86ATT.get_reg_type: returned class name")
    # instruction flags
    flags = {}
    for node in ast.walk(ti):
        if isinstance(node, ast.ClassDef) and node.name == "INSTR_FLAGS":
            for sub in node.body:
                if isinstance(sub, ast.Assign) and isinstance(sub.value, ast.Constant):
                    flags[sub.targets[0].id] = sub.value.value
    for k in ("LD", "TP_UNKWN", "LT_UNKWN", "NOT_BOUND", "HAS_LD", "HAS_ST"):
        if k not in flags:
            raise TranslateError("INSTR_FLAGS.%s not found" % k)

    out = [HEADER, "namespace OsacaVerif.Gen\n"]

    def d(name, ty, val, doc):
        out.append("/-- %s -/" % doc)
        out.append("def %s : %s := %s\n" % (name, ty, val))

    d("wildcard", "List Nat", txt(wildcard), "`MachineModel.WILDCARD`")
    d("wildcardDictKey", "List Nat", txt(wild_key), "key of the register wildcard dict of `_create_reg_wildcard`")
    d("gasSuffixesArch", "List Nat", txt(gas_arch), "`ArchSemantics.GAS_SUFFIXES`")
    d("gasSuffixesIsa", "List Nat", txt(gas_isa), "`ISASemantics.GAS_SUFFIXES`")
    d("suffixSep", "Nat", str(ord(sep_a)), "AArch64 mnemonic suffix separator (`'.' in mnemonic`, cut at its first occurrence)")
    d("x86GprClass", "List Nat", txt(gpr), "`_is_x86_reg_type`: entry class that accepts every non-vector register")
    d("x86RegTypeGpr", "List Nat", txt(reg_type_gpr), "`ParserX86ATT.get_reg_type`: class name of general purpose registers")
    d("x86ImmType", "List Nat", txt(x86_imm), "`_check_x86_operands`: immediate type an entry must declare")
    d("x86OffImd", "List Nat", txt(off_lits[0]), "`_is_x86_mem_type`: offset class of an immediate displacement")
    d("x86OffId", "List Nat", txt(off_lits[1]), "`_is_x86_mem_type`: offset class of an identifier displacement")
    d("x86OffZeroText", "List Nat", txt(val_lits[0]), "`_is_x86_mem_type`: `mem.offset.value == <this string>` matches an absent offset")
    d("a64ImmTypes", "List (List Nat)", txt_list(a64_types), "`_check_AArch64_operands`: immediate types compared for equality, in order")
    d("a64OffImd", "List Nat", txt(a64_off), "`_is_AArch64_mem_type`: offset class of an immediate offset")
    d("scaleUnit", "Int", str(x86_scale[0][1]), "`mem.scale != k and i_mem.scale != k`")
    d("unknownClassMatches", "Bool", "true" if unknown_matches else "false", "`_compare_db_entries` returns True unconditionally")
    from fractions import Fraction
    fr = Fraction(repr(store_lat))
    d("storeLatency", "Rat", "(%d : Rat)" % fr.numerator if fr.denominator == 1 else "((%d : Rat) / %d)" % (fr.numerator, fr.denominator),
      "`get_store_latency` (constant)")
    for k, nm in (("LD", "flagLD"), ("TP_UNKWN", "flagTpUnknown"), ("LT_UNKWN", "flagLtUnknown"), ("NOT_BOUND", "flagNotBound"),
                  ("HAS_LD", "flagHasLd"), ("HAS_ST", "flagHasSt")):
        d(nm, "List Nat", txt(flags[k]), "`INSTR_FLAGS.%s` = %r" % (k, flags[k]))
    out.append("end OsacaVerif.Gen\n")
    return "\n".join(out)
