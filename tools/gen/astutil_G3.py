"""Shared helpers of the G3 plug-ins (regtables.py, reportconsts.py): reading the source by MEANING.

Not a plug-in itself (translate.load_plugins imports it, it registers no generator).

What is here

* `Scope` + `const_eval`: a constant-expression evaluator over the AST.  Literals, unary / binary /
  boolean arithmetic, comparisons, conditional expressions with a constant test, `%`-format,
  `.format` and f-strings over constants, adjacent / concatenated / repeated strings (raw or plain:
  the AST has only the value), tuples / lists / sets / dicts, subscripts and slices, a white-list of
  pure builtins (`len`, `str`, `range`, `sorted`, ...) and pure methods of str / dict / list,
  comprehensions over constant iterables, and NAMES: a local bound exactly once in the function, a
  module-level name bound exactly once, `self.X` / `cls.X` / `Class.X` bound exactly once in the class
  body and never stored through `self.X = ...`, `string.digits`-like attributes of the stdlib module
  `string`, and external name spaces handed in by the plug-in (`INSTR_FLAGS.X`).
  Everything else raises `NotConst`.
* `tmpl` / `skeleton` / `roots`: one normal form for `%`-format, `str.format`, f-strings, `+`
  concatenation and `str(x)`: a list of literal pieces and `Field`s (expression, conversion, spec).
  Fields whose value and spec are constants are folded into the literal text, locals bound once to a
  template are inlined.  `skeleton` prints the normal form in `str.format` syntax, so
  `"{} {:>4}".format(a, b)`, `f"{a} {b:>4}"`, `"%s %4s"`-like spellings and `a + " " + "{:>4}".format(b)`
  all read `{} {:>4}`.
* `linear`: integer-linear normal form of an arithmetic expression (`a - b - 1` = `a - (b + 1)` = `a - 1 - b`).
* `bool_lits`: negation normal form of a test as a conjunction / disjunction of literals
  (De Morgan, `not`, comparison flipping), `norm_compare`.
* `regex_uses`: the patterns a function hands to `re.<method>` directly, through a local, or through
  a pattern compiled at function / class / module level; `regex_tree`: the parsed pattern
  (`re._parser`), with character classes as code-point sets, so `[DWB]` = `[BDW]` = `[B-BDW]`.
* `sandbox_function`: compile ONE function of the source in an empty name space (white-listed builtins,
  constants of the module, what the plug-in hands in) so that a PURE text-building helper can be
  called on probe arguments.  This executes code of the analysed tree inside the translator; it is
  used only for functions that build a string from their arguments, and every failure is a
  TranslateError.
"""
import ast
import re
import string as _string

from translate import TranslateError


class NotConst(Exception):
    pass


# ------------------------------------------------------------------------------------ bindings
_SCOPES = (ast.FunctionDef, ast.AsyncFunctionDef, ast.Lambda, ast.ClassDef)


def walk_scope(owner):
    """all nodes of the body of a function / class / module in source order, not entering nested scopes"""
    for c in ast.iter_child_nodes(owner):
        yield c
        if not isinstance(c, _SCOPES):
            yield from walk_scope(c)


def walk_in_order(node):
    """ast.walk in source order (depth first), entering everything"""
    yield node
    for c in ast.iter_child_nodes(node):
        yield from walk_in_order(c)


def _target_names(t, simple=True):
    if isinstance(t, ast.Name):
        yield t.id, simple
    elif isinstance(t, (ast.Tuple, ast.List)):
        for e in t.elts:
            yield from _target_names(e, False)
    elif isinstance(t, ast.Starred):
        yield from _target_names(t.value, False)


def bindings(owner):
    """name -> list of (kind, value node or None); kind 'assign' is `name = value` only"""
    out = {}

    def add(name, kind, value=None):
        out.setdefault(name, []).append((kind, value))

    if isinstance(owner, (ast.FunctionDef, ast.AsyncFunctionDef)):
        a = owner.args
        for arg in a.posonlyargs + a.args + a.kwonlyargs + [x for x in (a.vararg, a.kwarg) if x]:
            add(arg.arg, "param")
    for n in walk_scope(owner):
        if isinstance(n, ast.Assign):
            for t in n.targets:
                for name, simple in _target_names(t):
                    add(name, "assign" if simple and len(n.targets) == 1 else "other", n.value)
        elif isinstance(n, ast.AnnAssign):
            for name, simple in _target_names(n.target):
                add(name, "assign" if n.value is not None else "other", n.value)
        elif isinstance(n, ast.AugAssign):
            for name, _ in _target_names(n.target):
                add(name, "aug", n.value)
        elif isinstance(n, ast.NamedExpr):
            add(n.target.id, "assign", n.value)
        elif isinstance(n, (ast.For, ast.AsyncFor, ast.comprehension)):
            for name, _ in _target_names(n.target):
                add(name, "loop")
        elif isinstance(n, (ast.With, ast.AsyncWith)):
            for it in n.items:
                if it.optional_vars is not None:
                    for name, _ in _target_names(it.optional_vars):
                        add(name, "other")
        elif isinstance(n, ast.ExceptHandler) and n.name:
            add(n.name, "other")
        elif isinstance(n, (ast.Import, ast.ImportFrom)):
            for al in n.names:
                add((al.asname or al.name).split(".")[0], "import")
        elif isinstance(n, (ast.FunctionDef, ast.AsyncFunctionDef, ast.ClassDef)):
            add(n.name, "def")
        elif isinstance(n, (ast.Global, ast.Nonlocal)):
            for name in n.names:
                add(name, "other")
        elif isinstance(n, ast.Delete):
            for t in n.targets:
                for name, _ in _target_names(t):
                    add(name, "other")
    return out


class Scope:
    """where a name is looked up: function (optional) -> module; attributes of self/cls/Class -> class body"""

    def __init__(self, module, cls=None, fn=None, ext=None):
        self.module, self.cls, self.fn = module, cls, fn
        self.ext = ext or {}
        self._cache = {}

    def binds(self, owner):
        k = id(owner)
        if k not in self._cache:
            self._cache[k] = bindings(owner)
        return self._cache[k]

    def at(self, cls=None, fn=None):
        s = Scope(self.module, cls, fn, self.ext)
        s._cache = self._cache
        return s

    def single(self, owner, name):
        """value node of the only binding `name = value` in owner's own scope, else None"""
        b = self.binds(owner).get(name)
        if b and len(b) == 1 and b[0][0] == "assign":
            return b[0][1]
        return None

    def accumulator_init(self, owner, name):
        """value node of `name = value` when every later binding of name is an augmented assignment"""
        b = self.binds(owner).get(name)
        if b and b[0][0] == "assign" and all(k == "aug" for k, _ in b[1:]):
            return b[0][1]
        return None

    def class_node(self, name):
        for n in self.module.body:
            if isinstance(n, ast.ClassDef) and n.name == name:
                return n
        return None

    def resolve_name(self, name):
        """(value node, scope to evaluate it in) of a bare name, or None if it is not bound once to a value"""
        owners = []
        if self.fn is not None:
            owners.append((self.fn, self))
        elif self.cls is not None:
            owners.append((self.cls, self))
        owners.append((self.module, self.at()))
        for owner, sc in owners:
            if name in self.binds(owner):
                v = self.single(owner, name)
                return (v, sc) if v is not None else None
        return None

    def resolve_attr(self, node):
        """(value node, scope) of self.X / cls.X / Class.X bound once in the class body, else None"""
        if not (isinstance(node, ast.Attribute) and isinstance(node.value, ast.Name)):
            return None
        base = node.value.id
        cls = None
        if base in ("self", "cls") and self.cls is not None:
            cls = self.cls
        elif self.class_node(base) is not None and (self.fn is None or base not in self.binds(self.fn)):
            cls = self.class_node(base)
        if cls is None:
            return None
        v = self.single(cls, node.attr)
        if v is None:
            return None
        for n in ast.walk(cls):  # an instance attribute of the same name shadows it
            if (isinstance(n, ast.Attribute) and n.attr == node.attr and isinstance(n.ctx, (ast.Store, ast.Del))
                    and isinstance(n.value, ast.Name) and n.value.id in ("self", "cls", cls.name)):
                return None
        return v, self.at(cls=cls)

    def deref(self, node, depth=8):
        """look through names / class attributes bound once (hoisted sub-expressions, renamed locals)"""
        while depth > 0:
            depth -= 1
            r = None
            if isinstance(node, ast.Name) and isinstance(node.ctx, ast.Load):
                r = self.resolve_name(node.id)
            elif isinstance(node, ast.Attribute):
                r = self.resolve_attr(node)
            if r is None:
                return node, self
            node, self = r
        return node, self


# ------------------------------------------------------------------------------------ constants
_FUNCS = {
    "len": len, "str": str, "int": int, "float": float, "bool": bool, "max": max, "min": min, "sum": sum,
    "abs": abs, "round": round, "range": range, "tuple": tuple, "list": list, "set": set,
    "frozenset": frozenset, "dict": dict, "sorted": sorted, "reversed": lambda x: list(reversed(x)),
    "chr": chr, "ord": ord, "repr": repr, "format": format, "any": any, "all": all, "divmod": divmod,
    "enumerate": lambda *a: list(enumerate(*a)), "zip": lambda *a: list(zip(*a)),
}
_METHODS = {
    str: {"format", "join", "upper", "lower", "strip", "lstrip", "rstrip", "ljust", "rjust", "center",
          "replace", "split", "rsplit", "splitlines", "zfill", "title", "capitalize", "startswith",
          "endswith", "count", "find", "index", "isdigit", "isalpha", "expandtabs", "swapcase", "casefold"},
    dict: {"keys", "values", "items", "get"},
    list: {"index", "count"},
    tuple: {"index", "count"},
    set: {"union", "intersection", "difference", "issubset", "issuperset"},
    frozenset: {"union", "intersection", "difference", "issubset", "issuperset"},
}
_BIN = {
    ast.Add: lambda a, b: a + b, ast.Sub: lambda a, b: a - b, ast.Mult: lambda a, b: a * b,
    ast.Div: lambda a, b: a / b, ast.FloorDiv: lambda a, b: a // b, ast.Mod: lambda a, b: a % b,
    ast.BitOr: lambda a, b: a | b, ast.BitAnd: lambda a, b: a & b, ast.BitXor: lambda a, b: a ^ b,
    ast.LShift: lambda a, b: a << b, ast.RShift: lambda a, b: a >> b,
}
_CMP = {
    ast.Eq: lambda a, b: a == b, ast.NotEq: lambda a, b: a != b, ast.Lt: lambda a, b: a < b,
    ast.LtE: lambda a, b: a <= b, ast.Gt: lambda a, b: a > b, ast.GtE: lambda a, b: a >= b,
    ast.In: lambda a, b: a in b, ast.NotIn: lambda a, b: a not in b, ast.Is: lambda a, b: a is b,
    ast.IsNot: lambda a, b: a is not b,
}
_LIMIT = 1 << 20


def _small(v):
    if isinstance(v, (str, bytes, list, tuple)) and len(v) > _LIMIT:
        raise NotConst("value too large")
    if isinstance(v, int) and not isinstance(v, bool) and abs(v) > 1 << 256:
        raise NotConst("value too large")
    return v


def const_eval(node, scope, env=None, _depth=0):
    """value of a constant expression, NotConst otherwise.  env: name -> python value (wins over the scope)"""
    env = env or {}
    if _depth > 60:
        raise NotConst("too deep")
    ev = lambda n, e=env, s=scope: const_eval(n, s, e, _depth + 1)  # noqa: E731
    try:
        if isinstance(node, ast.Constant):
            return node.value
        if isinstance(node, ast.Name):
            if node.id in env:
                return env[node.id]
            r = scope.resolve_name(node.id)
            if r is None:
                raise NotConst("name %s is not bound once to a value" % node.id)
            return const_eval(r[0], r[1], None, _depth + 1)
        if isinstance(node, ast.Attribute):
            if isinstance(node.value, ast.Name) and node.value.id not in env:
                base = node.value.id
                r = scope.resolve_attr(node)
                if r is not None:
                    return const_eval(r[0], r[1], None, _depth + 1)
                shadow = (scope.fn is not None and base in scope.binds(scope.fn))
                if base in scope.ext and not shadow and node.attr in scope.ext[base]:
                    return scope.ext[base][node.attr]
                if (base == "string" and not shadow and scope.binds(scope.module).get("string", [("", 0)])[0][0] == "import"
                        and isinstance(getattr(_string, node.attr, None), str)):
                    return getattr(_string, node.attr)
            raise NotConst("attribute %s" % node.attr)
        if isinstance(node, ast.JoinedStr):
            out = []
            for v in node.values:
                if isinstance(v, ast.Constant):
                    out.append(v.value)
                else:
                    x = ev(v.value)
                    if v.conversion in (ord("s"), ord("r"), ord("a")):
                        x = {"s": str, "r": repr, "a": ascii}[chr(v.conversion)](x)
                    out.append(format(x, ev(v.format_spec) if v.format_spec is not None else ""))
            return "".join(out)
        if isinstance(node, ast.BinOp):
            a, b = ev(node.left), ev(node.right)
            if isinstance(node.op, ast.Pow):
                if isinstance(b, int) and abs(b) > 4096:
                    raise NotConst("exponent")
                return _small(a ** b)
            if isinstance(node.op, ast.Mult):
                for x, y in ((a, b), (b, a)):
                    if isinstance(x, (str, list, tuple)) and isinstance(y, int) and len(x) * max(y, 0) > _LIMIT:
                        raise NotConst("value too large")
            if type(node.op) not in _BIN:
                raise NotConst("operator")
            return _small(_BIN[type(node.op)](a, b))
        if isinstance(node, ast.UnaryOp):
            v = ev(node.operand)
            if isinstance(node.op, ast.USub):
                return -v
            if isinstance(node.op, ast.UAdd):
                return +v
            if isinstance(node.op, ast.Not):
                return not v
            return ~v
        if isinstance(node, ast.BoolOp):
            v = None
            for x in node.values:
                v = ev(x)
                if isinstance(node.op, ast.And) and not v:
                    return v
                if isinstance(node.op, ast.Or) and v:
                    return v
            return v
        if isinstance(node, ast.Compare):
            left = ev(node.left)
            for op, c in zip(node.ops, node.comparators):
                right = ev(c)
                if not _CMP[type(op)](left, right):
                    return False
                left = right
            return True
        if isinstance(node, ast.IfExp):
            return ev(node.body) if ev(node.test) else ev(node.orelse)
        if isinstance(node, (ast.Tuple, ast.List, ast.Set)):
            vals = []
            for e in node.elts:
                if isinstance(e, ast.Starred):
                    vals.extend(ev(e.value))
                else:
                    vals.append(ev(e))
            return tuple(vals) if isinstance(node, ast.Tuple) else (vals if isinstance(node, ast.List) else set(vals))
        if isinstance(node, ast.Dict):
            d = {}
            for k, v in zip(node.keys, node.values):
                if k is None:
                    d.update(ev(v))
                else:
                    d[ev(k)] = ev(v)
            return d
        if isinstance(node, ast.Subscript):
            base = ev(node.value)
            if isinstance(node.slice, ast.Slice):
                s = node.slice
                return base[slice(*(ev(x) if x is not None else None for x in (s.lower, s.upper, s.step)))]
            return base[ev(node.slice)]
        if isinstance(node, (ast.ListComp, ast.SetComp, ast.GeneratorExp, ast.DictComp)):
            res = []

            def loop(i, e):
                if i == len(node.generators):
                    if isinstance(node, ast.DictComp):
                        res.append((const_eval(node.key, scope, e, _depth + 1), const_eval(node.value, scope, e, _depth + 1)))
                    else:
                        res.append(const_eval(node.elt, scope, e, _depth + 1))
                    return
                g = node.generators[i]
                if g.is_async:
                    raise NotConst("async")
                for item in const_eval(g.iter, scope, e, _depth + 1):
                    e2 = dict(e)
                    _bind(g.target, item, e2)
                    if all(const_eval(c, scope, e2, _depth + 1) for c in g.ifs):
                        loop(i + 1, e2)
                    if len(res) > _LIMIT:
                        raise NotConst("too many")

            loop(0, dict(env))
            if isinstance(node, ast.DictComp):
                return dict(res)
            return set(res) if isinstance(node, ast.SetComp) else res
        if isinstance(node, ast.Call):
            if any(isinstance(a, ast.Starred) for a in node.args) or any(k.arg is None for k in node.keywords):
                raise NotConst("star arguments")
            f = node.func
            if isinstance(f, ast.Name) and f.id in _FUNCS and f.id not in env:
                if scope.resolve_name(f.id) is not None or (scope.fn is not None and f.id in scope.binds(scope.fn)) \
                        or f.id in scope.binds(scope.module):
                    raise NotConst("builtin %s is shadowed" % f.id)
                args = [ev(a) for a in node.args]
                kw = {k.arg: ev(k.value) for k in node.keywords}
                if f.id == "range" and args and (len(range(*args)) > _LIMIT):
                    raise NotConst("range too long")
                if f.id in ("sorted", "max", "min") and "key" in kw:
                    raise NotConst("key function")
                return _small(_FUNCS[f.id](*args, **kw))
            if isinstance(f, ast.Attribute):
                recv = ev(f.value)
                for t, names in _METHODS.items():
                    if type(recv) is t and f.attr in names:
                        args = [ev(a) for a in node.args]
                        kw = {k.arg: ev(k.value) for k in node.keywords}
                        r = getattr(recv, f.attr)(*args, **kw)
                        if f.attr in ("keys", "values", "items"):
                            r = list(r)
                        return _small(r)
            raise NotConst("call")
    except NotConst:
        raise
    except RecursionError:
        raise NotConst("recursion")
    except Exception as ex:  # evaluation of a constant expression failed (1/0, bad index, ...)
        raise NotConst("%s: %s" % (type(ex).__name__, ex))
    raise NotConst(type(node).__name__)


def _bind(target, value, env):
    if isinstance(target, ast.Name):
        env[target.id] = value
    elif isinstance(target, (ast.Tuple, ast.List)):
        vals = list(value)
        if len(vals) != len(target.elts):
            raise NotConst("unpack")
        for t, v in zip(target.elts, vals):
            _bind(t, v, env)
    else:
        raise NotConst("target")


def is_const(node, scope, env=None):
    try:
        const_eval(node, scope, env)
        return True
    except NotConst:
        return False


def const_or_fail(node, scope, what, types=None, env=None):
    try:
        v = const_eval(node, scope, env)
    except NotConst as ex:
        raise TranslateError("%s: not a constant expression at line %s (%s)" % (what, getattr(node, "lineno", "?"), ex))
    if types is not None and (not isinstance(v, types) or (isinstance(v, bool) and bool not in _astuple(types))):
        raise TranslateError("%s: constant of unexpected type %s at line %s" % (what, type(v).__name__, getattr(node, "lineno", "?")))
    return v


def _astuple(t):
    return t if isinstance(t, tuple) else (t,)


def cdump(node):
    """structural identity of an expression (load/store context ignored)"""
    return ast.dump(node).replace("ctx=Store()", "ctx=Load()").replace("ctx=Del()", "ctx=Load()")


def _copy(x):
    import copy

    return copy.deepcopy(x)


def rdump(node, scope):
    """structural identity after looking through names bound once (hoisted sub-expressions);
    constant sub-expressions are replaced by their value"""
    class R(ast.NodeTransformer):
        def generic_visit(self, n):
            if isinstance(n, ast.expr) and not isinstance(n, ast.Constant):
                try:
                    v = const_eval(n, scope)
                    if isinstance(v, (int, float, str, bool, type(None))):
                        return ast.Constant(value=v)
                except NotConst:
                    pass
            return super().generic_visit(n)

        def visit_Name(self, n):
            if isinstance(n.ctx, ast.Load):
                r = scope.resolve_name(n.id)
                if r is not None and r[1].fn is scope.fn and r[1].cls is scope.cls:
                    return self.visit(_copy(r[0]))
            return self.generic_visit(n)

    try:
        return cdump(R().visit(_copy(node)))
    except RecursionError:
        return cdump(node)


# ------------------------------------------------------------------------------------ templates
class Field:
    """one replacement field: expression node, conversion ('r', 'a' or None; 's' with an empty spec is
    None as well) and format spec (a template itself: list of str / Field)"""

    def __init__(self, expr, conv=None, spec=None):
        self.expr, self.conv, self.spec = expr, conv, spec or []

    def spec_text(self):
        return "".join(p if isinstance(p, str) else "{}" for p in self.spec)

    def __repr__(self):
        return "Field(%s,%r,%r)" % (ast.unparse(self.expr) if self.expr is not None else None, self.conv, self.spec_text())


_PCT = re.compile(r"%(?:\((\w+)\))?([#0\- +]*)(\*|\d+)?(?:\.(\*|\d+))?[hlL]?([diouxXeEfFgGcrsa%])")


def _merge(parts):
    out = []
    for p in parts:
        if isinstance(p, str):
            if not p:
                continue
            if out and isinstance(out[-1], str):
                out[-1] += p
                continue
        out.append(p)
    return out


class Templates:
    """template normal forms inside one scope (function)"""

    def __init__(self, scope, env=None):
        self.scope = scope
        self.env = env or {}

    # -- helpers
    def _const(self, node):
        return const_eval(node, self.scope, self.env)

    def _field(self, expr, conv=None, spec=None):
        """a field, folded into text when value and spec are constants"""
        spec = _merge(spec or [])
        if conv == "s" and not spec:
            conv = None
        if all(isinstance(p, str) for p in spec):
            try:
                v = self._const(expr)
                if conv:
                    v = {"s": str, "r": repr, "a": ascii}[conv](v)
                return [format(v, "".join(spec))]
            except NotConst:
                pass
            except Exception as ex:
                raise TranslateError("format of a constant fails at line %s: %s" % (getattr(expr, "lineno", "?"), ex))
        return [Field(expr, conv, spec)]

    def _operand(self, node):
        """a `+` operand / interpolated value: its template if it has one, else one plain field"""
        t = self.tmpl(node)
        if t is not None:
            return t
        if (isinstance(node, ast.Call) and isinstance(node.func, ast.Name) and node.func.id == "str"
                and len(node.args) == 1 and not node.keywords):
            return self._field(node.args[0])
        return self._field(node)

    def _parse_format(self, text, args, kwargs, counter):
        import string

        parts = []
        for lit, name, spec, conv in string.Formatter().parse(text):
            if lit:
                parts.append(lit)
            if name is None:
                continue
            if name == "":
                if counter[1] == "manual":
                    raise TranslateError("format string mixes automatic and manual numbering")
                counter[1] = "auto"
                idx = counter[0]
                counter[0] += 1
                expr = args[idx] if idx < len(args) else None
            elif name.isdigit():
                if counter[1] == "auto":
                    raise TranslateError("format string mixes automatic and manual numbering")
                counter[1] = "manual"
                expr = args[int(name)] if int(name) < len(args) else None
            elif name.isidentifier():
                expr = kwargs.get(name)
            else:
                return None  # {0.attr} / {a[0]}: not normalised, the caller treats the call as opaque
            if expr is None:
                raise TranslateError("format string refers to a missing argument %r" % name)
            sp = self._parse_format(spec, args, kwargs, counter) if spec else []
            if sp is None:
                return None
            parts.extend(self._field(expr, conv, sp))
        return parts

    def _parse_percent(self, text, right):
        args = list(right.elts) if isinstance(right, ast.Tuple) else [right]
        parts, pos, i = [], 0, 0
        for m in _PCT.finditer(text):
            parts.append(text[pos:m.start()])
            pos = m.end()
            key, flags, width, prec, typ = m.groups()
            if typ == "%":
                parts.append("%")
                continue
            if key is not None or width == "*" or prec == "*" or typ in "cioua" or i >= len(args):
                return None
            expr = args[i]
            i += 1
            conv = typ if typ in "rs" else None
            spec = ""
            if "-" in flags:
                spec += "<"
            elif conv and width:
                spec += ">"
            if "+" in flags:
                spec += "+"
            elif " " in flags:
                spec += " "
            if "#" in flags:
                spec += "#"
            if "0" in flags and "-" not in flags and not conv:
                spec += "0"
            spec += (width or "") + ("." + prec if prec is not None else "") + ("" if conv else typ)
            parts.extend(self._field(expr, conv, [spec] if spec else []))
        if "%" in text[pos:] or i != len(args):
            return None
        parts.append(text[pos:])
        return parts

    # -- the normal form
    def tmpl(self, node, _depth=0):
        """normal form (list of str / Field) of a string-building expression, None if node is not one"""
        if _depth > 40:
            return None
        try:
            v = self._const(node)
            return [v] if isinstance(v, str) else None
        except NotConst:
            pass
        if isinstance(node, ast.JoinedStr):
            parts = []
            for v in node.values:
                if isinstance(v, ast.Constant):
                    parts.append(v.value)
                else:
                    conv = chr(v.conversion) if v.conversion and v.conversion > 0 else None
                    spec = self.tmpl(v.format_spec, _depth + 1) if v.format_spec is not None else []
                    if conv is None and not spec:
                        parts.extend(self._operand(v.value))
                    else:
                        parts.extend(self._field(v.value, conv, spec))
            return _merge(parts)
        if isinstance(node, ast.Call) and isinstance(node.func, ast.Attribute) and node.func.attr == "format":
            try:
                text = self._const(node.func.value)
            except NotConst:
                return None
            if not isinstance(text, str) or any(isinstance(a, ast.Starred) for a in node.args) \
                    or any(k.arg is None for k in node.keywords):
                return None
            p = self._parse_format(text, node.args, {k.arg: k.value for k in node.keywords}, [0, None])
            return _merge(p) if p is not None else None
        if isinstance(node, ast.BinOp) and isinstance(node.op, ast.Mod):
            try:
                text = self._const(node.left)
            except NotConst:
                return None
            if not isinstance(text, str):
                return None
            p = self._parse_percent(text, node.right)
            return _merge(p) if p is not None else None
        if isinstance(node, ast.BinOp) and isinstance(node.op, ast.Add):
            lt, rt = self.tmpl(node.left, _depth + 1), self.tmpl(node.right, _depth + 1)
            if lt is None and rt is None:
                return None
            return _merge((lt if lt is not None else self._operand(node.left))
                          + (rt if rt is not None else self._operand(node.right)))
        if isinstance(node, ast.Name) and isinstance(node.ctx, ast.Load) and node.id not in self.env:
            r = self.scope.resolve_name(node.id)
            if r is not None and r[1].fn is self.scope.fn:
                return self.tmpl(r[0], _depth + 1)
        return None

    def roots(self, owner):
        """[(node, template)] of the maximal string-building expressions below owner, in source order;
        a bare string constant is not one"""
        out, seen = [], set()

        def fields(t):
            for p in t:
                if isinstance(p, Field):
                    yield p
                    yield from fields(p.spec)

        def visit(n):
            if isinstance(n, ast.expr) and not isinstance(n, (ast.Constant, ast.Name, ast.Attribute)):
                t = self.tmpl(n)
                if t is not None:
                    if id(n) not in seen:
                        seen.add(id(n))
                        out.append((n, t))
                    for f in fields(t):
                        if f.expr is not None and id(f.expr) not in seen:
                            visit(f.expr)
                    return
            for c in ast.iter_child_nodes(n):
                visit(c)

        for c in ast.iter_child_nodes(owner):
            visit(c)
        return out


def skeleton(t):
    """a template in str.format syntax, fields without their expressions"""
    out = []
    for p in t:
        if isinstance(p, str):
            out.append(p.replace("{", "{{").replace("}", "}}"))
        else:
            s = p.spec_text()
            out.append("{" + ("!" + p.conv if p.conv else "") + (":" + s if s else "") + "}")
    return "".join(out)


def fields_of(t):
    return [p for p in t if isinstance(p, Field)]


# ------------------------------------------------------------------------------------ arithmetic
def linear(node, scope, env=None):
    """(terms, const): node == sum(coeff * atom) + const over the integers;
    terms: structural identity of the atom -> (coeff, atom node)"""
    try:
        v = const_eval(node, scope, env)
        if isinstance(v, int) and not isinstance(v, bool):
            return {}, v
    except NotConst:
        pass

    def scale(tc, k):
        return {a: (c * k, n) for a, (c, n) in tc[0].items() if c * k}, tc[1] * k

    def add(x, y):
        terms = dict(x[0])
        for a, (c, n) in y[0].items():
            c0 = terms.get(a, (0, n))[0] + c
            if c0:
                terms[a] = (c0, n)
            else:
                terms.pop(a, None)
        return terms, x[1] + y[1]

    if isinstance(node, ast.BinOp) and isinstance(node.op, (ast.Add, ast.Sub)):
        l, r = linear(node.left, scope, env), linear(node.right, scope, env)
        return add(l, scale(r, -1) if isinstance(node.op, ast.Sub) else r)
    if isinstance(node, ast.UnaryOp) and isinstance(node.op, (ast.USub, ast.UAdd)):
        return scale(linear(node.operand, scope, env), -1 if isinstance(node.op, ast.USub) else 1)
    if isinstance(node, ast.BinOp) and isinstance(node.op, ast.Mult):
        l, r = linear(node.left, scope, env), linear(node.right, scope, env)
        if not l[0]:
            return scale(r, l[1])
        if not r[0]:
            return scale(l, r[1])
    if isinstance(node, ast.Name) and isinstance(node.ctx, ast.Load) and not (env and node.id in env):
        r = scope.resolve_name(node.id)
        if r is not None and r[1].fn is scope.fn:
            return linear(r[0], r[1], env)
    return {rdump(node, scope): (1, node)}, 0


# ------------------------------------------------------------------------------------ tests
_FLIP = {ast.Lt: ast.Gt, ast.LtE: ast.GtE, ast.Gt: ast.Lt, ast.GtE: ast.LtE, ast.Eq: ast.Eq, ast.NotEq: ast.NotEq}
_NEG = {ast.Lt: ast.GtE, ast.LtE: ast.Gt, ast.Gt: ast.LtE, ast.GtE: ast.Lt, ast.Eq: ast.NotEq, ast.NotEq: ast.Eq,
        ast.In: ast.NotIn, ast.NotIn: ast.In, ast.Is: ast.IsNot, ast.IsNot: ast.Is}


class Lit:
    """literal of a test: `expr` is truthy (pos) / falsy (not pos); for a single comparison `cmp` is
    (op class, left node, right node) with the negation already applied to the operator"""

    def __init__(self, pos, expr, cmp=None):
        self.pos, self.expr, self.cmp = pos, expr, cmp

    def __repr__(self):
        if self.cmp:
            return "Lit(%s %s %s)" % (ast.unparse(self.cmp[1]), self.cmp[0].__name__, ast.unparse(self.cmp[2]))
        return "Lit(%s%s)" % ("" if self.pos else "not ", ast.unparse(self.expr))


def bool_lits(test, scope, negate=False):
    """('and' | 'or', [Lit]) negation normal form of a test, flat; names bound once to a test are looked
    through; mixed and/or nestings stay one opaque literal"""
    node = test
    if isinstance(node, ast.Name):
        r = scope.resolve_name(node.id)
        if r is not None and r[1].fn is scope.fn and isinstance(r[0], (ast.BoolOp, ast.Compare, ast.UnaryOp)):
            node = r[0]
    if isinstance(node, ast.UnaryOp) and isinstance(node.op, ast.Not):
        return bool_lits(node.operand, scope, not negate)
    if isinstance(node, ast.Call) and isinstance(node.func, ast.Name) and node.func.id == "bool" \
            and len(node.args) == 1 and not node.keywords:
        return bool_lits(node.args[0], scope, negate)
    if isinstance(node, ast.IfExp):
        try:
            b, o = const_eval(node.body, scope), const_eval(node.orelse, scope)
            if b is True and o is False:
                return bool_lits(node.test, scope, negate)
            if b is False and o is True:
                return bool_lits(node.test, scope, not negate)
        except NotConst:
            pass
    if isinstance(node, ast.BoolOp):
        kind = "and" if isinstance(node.op, ast.And) != negate else "or"
        lits = []
        for v in node.values:
            k, ls = bool_lits(v, scope, negate)
            if len(ls) > 1 and k != kind:
                return kind if len(node.values) > 1 else k, [Lit(not negate, node)]
            lits.extend(ls)
        return kind, lits
    if isinstance(node, ast.Compare) and len(node.ops) == 1:
        op = type(node.ops[0])
        if negate:
            op = _NEG[op]
        return "and", [Lit(True, node, (op, node.left, node.comparators[0]))]
    return "and", [Lit(not negate, node)]


def norm_compare(cmp):
    """(op, left, right) with < and <= turned round into > and >="""
    op, l, r = cmp
    if op in (ast.Lt, ast.LtE):
        return _FLIP[op], r, l
    return op, l, r


def branches(node, scope):
    """for an `if` statement or conditional expression: (kind, lits, then-part, else-part) of its test"""
    kind, lits = bool_lits(node.test, scope)
    return kind, lits, node.body, node.orelse


# ------------------------------------------------------------------------------------ regexes
_RE_FUNCS = {"match", "search", "fullmatch", "findall", "finditer", "sub", "subn", "split"}


def regex_uses(fn, scope, module_alias="re"):
    """[(method, pattern text, flags node or None, call node)] for re.<method>(pattern, ...) and
    <compiled>.<method>(...) where <compiled> is bound once (function, class, module) to re.compile(...).
    A pattern that is no constant is a TranslateError."""
    out = []
    for n in walk_in_order(fn):
        if not (isinstance(n, ast.Call) and isinstance(n.func, ast.Attribute) and n.func.attr in _RE_FUNCS):
            continue
        recv = n.func.value
        if isinstance(recv, ast.Name) and recv.id == module_alias:
            if not n.args:
                continue
            pat = const_or_fail(n.args[0], scope, "regex pattern", str)
            npos = {"sub": 3, "subn": 3}.get(n.func.attr, 2)
            flags = n.args[npos] if len(n.args) > npos else None
            for k in n.keywords:
                if k.arg == "flags":
                    flags = k.value
            out.append((n.func.attr, pat, flags, n))
            continue
        d, sc = scope.deref(recv)
        if (isinstance(d, ast.Call) and isinstance(d.func, ast.Attribute) and d.func.attr == "compile"
                and isinstance(d.func.value, ast.Name) and d.func.value.id == module_alias and d.args):
            pat = const_or_fail(d.args[0], sc, "regex pattern", str)
            flags = d.args[1] if len(d.args) > 1 else None
            for k in d.keywords:
                if k.arg == "flags":
                    flags = k.value
            out.append((n.func.attr, pat, flags, n))
    return out


def regex_tree(pattern):
    """the parsed pattern as nested tuples; a character class is ('IN', negated, frozenset of code points /
    category names), so the spelling of a class does not matter"""
    try:
        import re._parser as sp  # Python >= 3.11
    except ImportError:  # pragma: no cover
        import sre_parse as sp
    try:
        parsed = sp.parse(pattern)
    except Exception as ex:
        raise TranslateError("regex %r does not parse: %s" % (pattern, ex))

    def conv(x):
        if isinstance(x, sp.SubPattern):
            return tuple(conv(i) for i in x)
        if isinstance(x, tuple) and len(x) == 2 and str(x[0]) == "IN":
            neg, items = False, set()
            for k, v in x[1]:
                k = str(k)
                if k == "NEGATE":
                    neg = True
                elif k == "LITERAL":
                    items.add(v)
                elif k == "RANGE":
                    if v[1] - v[0] > 4096:
                        items.add(("RANGE", v))
                    else:
                        items.update(range(v[0], v[1] + 1))
                else:
                    items.add((k, str(v)))
            return ("IN", neg, frozenset(items))
        if isinstance(x, tuple) and len(x) == 2 and str(x[0]) == "LITERAL":
            return ("IN", False, frozenset([x[1]]))  # a literal is a one-element class
        if isinstance(x, (tuple, list)):
            return tuple(conv(i) for i in x)
        if isinstance(x, (int, str)) or x is None:
            return x if not hasattr(x, "name") else str(x)
        return str(x)

    return conv(parsed)


# ------------------------------------------------------------------------------------ sandbox
SAFE_BUILTINS = {
    k: v for k, v in _FUNCS.items() if k not in ("reversed", "enumerate", "zip")
}
SAFE_BUILTINS.update({"reversed": reversed, "enumerate": enumerate, "zip": zip, "isinstance": isinstance,
                      "map": map, "filter": filter, "True": True, "False": False, "None": None,
                      "object": object, "type": type, "ValueError": ValueError, "TypeError": TypeError,
                      "KeyError": KeyError, "IndexError": IndexError, "Exception": Exception,
                      "__build_class__": __build_class__, "__name__": "sandbox"})


def module_constants(scope):
    """names bound once at module level to a constant expression"""
    out = {}
    for name, b in scope.binds(scope.module).items():
        if len(b) == 1 and b[0][0] == "assign":
            try:
                out[name] = const_eval(b[0][1], scope.at())
            except NotConst:
                pass
    return out


def class_constants(scope, cls):
    out = {}
    for name, b in scope.binds(cls).items():
        if len(b) == 1 and b[0][0] == "assign":
            try:
                out[name] = const_eval(b[0][1], scope.at(cls=cls))
            except NotConst:
                pass
    return out


def sandbox_function(fn, scope, extra=None):
    """the function `fn` of the source compiled alone: globals are white-listed builtins, the module's
    constants and `extra`.  Decorators, annotations and the doc string are dropped."""
    import copy

    f = copy.deepcopy(fn)
    f.decorator_list = []
    f.returns = None
    for a in f.args.posonlyargs + f.args.args + f.args.kwonlyargs + [x for x in (f.args.vararg, f.args.kwarg) if x]:
        a.annotation = None
    mod = ast.Module(body=[f], type_ignores=[])
    ast.fix_missing_locations(mod)
    g = {"__builtins__": dict(SAFE_BUILTINS)}
    g.update(module_constants(scope))
    g.update(extra or {})
    try:
        exec(compile(mod, "<sandbox:%s>" % fn.name, "exec"), g)
    except Exception as ex:
        raise TranslateError("%s: cannot be compiled in isolation: %s: %s" % (fn.name, type(ex).__name__, ex))
    return g[fn.name]


def call_pure(what, f, *args, **kw):
    try:
        return f(*args, **kw)
    except Exception as ex:
        raise TranslateError("%s: not executable in isolation: %s: %s" % (what, type(ex).__name__, ex))


class Stub:
    """stand-in for `self`: only what the plug-in put on it exists"""

    def __init__(self, **kw):
        self.__dict__.update(kw)


def find_class(tree, name):
    for n in tree.body:
        if isinstance(n, ast.ClassDef) and n.name == name:
            return n
    raise TranslateError("class %s not found" % name)


def find_method(cls, name):
    hits = [n for n in cls.body if isinstance(n, ast.FunctionDef) and n.name == name]
    if len(hits) != 1:
        raise TranslateError("function %s.%s not found (or defined twice)" % (cls.name, name))
    return hits[0]


def canon_order(items, preferred, key=lambda x: x):
    """order-free reading of a collection whose order has no effect: `preferred` first (in that
    order), everything else after it, sorted"""
    pref = {p: i for i, p in enumerate(preferred)}
    return sorted(items, key=lambda x: (pref.get(key(x), len(pref)), key(x)))
