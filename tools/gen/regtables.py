"""Gen/RegTables.lean: register alias tables of the two parsers (C12, C03).

The tables are read by MEANING (helpers in astutil_G3.py), not by spelling:

* every table / pattern / slice bound may be a literal, a constant expression, a local bound once
  (any name), a class attribute (`self.X`, `ParserX86ATT.X`) or a module constant;
* a collection whose order cannot influence the result is emitted in ONE canonical order whatever
  the order in the source: the x86 alias groups and their members (used only as `a in g and b in g`
  for some group g), the vector names (right side of `in`), the prefixes of `is_basic_gpr` (inside
  `any(...)` / `str.startswith(tuple)`), the AArch64 prefix classes (an any-of test).  If the use of
  the alias groups is NOT of that order-free form (a group is indexed, the loop variable is used for
  anything but `in`), the source order is kept, so a reordering shows in the output;
  the canonical order is "the pinned order first, unknown entries after it, sorted" (`canon_order`);
* the regex of the numbered GPRs is parsed (`re._parser`): `[DWB]` = `[BDW]`, raw or plain string,
  given directly / through a local / through a compiled pattern; what is required is
  <one letter> ( <ASCII digits>+ ) <optional one of a letter class>, used with `re.match`, no flags;
* the name comparisons are found through hoisted locals (`tail_a = reg_a_name[1:]`) and in `==` / `!=`
  form, in an `if`, a guard clause or a returned expression.

Still required (a TranslateError otherwise, the check then searches): the functions exist under
their names in their classes; exactly one alias-group table, one regex shape, one slice bound;
the AArch64 classes are strings tested with `in`; both name operands are folded the same way.
No code of the analysed tree is executed here.
"""
import ast
import os
import sys



def _load_helpers():
    """astutil_G3.py from this directory, without putting the directory on sys.path"""
    import importlib.util

    if "astutil_G3" not in sys.modules:
        path = os.path.join(os.path.dirname(os.path.abspath(__file__)), "astutil_G3.py")
        spec = importlib.util.spec_from_file_location("astutil_G3", path)
        mod = importlib.util.module_from_spec(spec)
        sys.modules["astutil_G3"] = mod
        try:
            spec.loader.exec_module(mod)
        except BaseException:
            del sys.modules["astutil_G3"]
            raise
    return sys.modules["astutil_G3"]


A = _load_helpers()
from translate import TranslateError, generator, parse, txt_list, HEADER  # noqa: E402

X86 = "osaca/parser/parser_x86att.py"
A64 = "osaca/parser/parser_AArch64.py"

# the pinned order of the order-free collections (see module doc string)
PREF_GPR = ["RAX", "EAX", "AX", "AH", "AL", "RBX", "EBX", "BX", "BH", "BL", "RCX", "ECX", "CX", "CH", "CL",
            "RDX", "EDX", "DX", "DH", "DL", "RSP", "ESP", "SP", "SPL", "RBP", "EBP", "BP", "BPL",
            "RSI", "ESI", "SI", "SIL", "RDI", "EDI", "DI", "DIL"]
PREF_SUFFIX = ["D", "W", "B"]
PREF_A64 = ["wx", "bhsdqvz", "p"]


def _is_strs(v, kinds=(list, tuple, set, frozenset)):
    return isinstance(v, kinds) and len(v) > 0 and all(isinstance(x, str) for x in v)


def _parents(fn):
    par = {}
    for n in ast.walk(fn):
        for c in ast.iter_child_nodes(n):
            par[id(c)] = n
    return par


def _const(node, sc):
    try:
        return A.const_eval(node, sc)
    except A.NotConst:
        return None


def _equality(fn, n, par):
    """is the comparison n an equality test?  `a == b`, or `a != b` as the test of a guard clause
    `if a != b: return False`.  Any other use of `!=` is not the code the model describes."""
    if isinstance(n.ops[0], ast.Eq):
        return True
    p = par.get(id(n))
    if (isinstance(p, ast.If) and p.test is n and len(p.body) == 1 and isinstance(p.body[0], ast.Return)
            and isinstance(p.body[0].value, ast.Constant) and p.body[0].value.value is False):
        return True
    raise TranslateError("%s: names compared with `!=` outside a guard clause `if a != b: return False`" % fn.name)


# --------------------------------------------------------------------------- x86 alias groups
def _group_table(v):
    """list of groups (each a list, or a set) if v is a table of register-name groups"""
    if isinstance(v, dict):
        v = list(v.values())
    if isinstance(v, (list, tuple)) and len(v) > 0 and all(_is_strs(g) for g in v):
        return [g if isinstance(g, (set, frozenset)) else list(g) for g in v]
    return None


def x86_groups(fn, sc):
    par = _parents(fn)
    found = []  # (groups, node) of every maximal expression of the function that is such a table
    for n in A.walk_in_order(fn):
        if not isinstance(n, ast.expr) or isinstance(getattr(n, "ctx", None), ast.Store):
            continue
        g = _group_table(_const(n, sc))
        if g is None:
            continue
        p = par.get(id(n))
        # X.values() / list(X.values()): the table is the whole call
        if isinstance(p, ast.Attribute) and p.attr in ("values", "items", "keys"):
            continue
        found.append((g, n))
    # keep maximal nodes only
    ids = {id(n) for _, n in found}

    def inside(n):
        p = par.get(id(n))
        while p is not None:
            if id(p) in ids:
                return True
            p = par.get(id(p))
        return False

    found = [(g, n) for g, n in found if not inside(n)]
    distinct = []
    for g, _ in found:
        key = sorted(tuple(sorted(x)) for x in g)
        if key not in [k for k, _ in distinct]:
            distinct.append((key, g))
    if len(distinct) != 1:
        raise TranslateError("x86 is_reg_dependend_of: expected one table of register-name groups, found %d" % len(distinct))
    groups = distinct[0][1]

    # is the table used in the order-free form only?  every use must be the iterable of a loop /
    # comprehension whose variable is used only on the right of `in` / `not in`
    order_free = True
    uses = [n for _, n in found if not isinstance(n, (ast.Dict, ast.List, ast.Tuple))
            or not isinstance(par.get(id(n)), (ast.Assign, ast.AnnAssign))]
    if not uses:
        order_free = False
    for n in uses:
        p = par.get(id(n))
        while isinstance(p, ast.Call) and isinstance(p.func, ast.Name) and p.func.id in ("list", "tuple", "sorted") \
                and len(p.args) == 1:
            n, p = p, par.get(id(p))
        if isinstance(p, (ast.For, ast.comprehension)) and p.iter is n and isinstance(p.target, ast.Name):
            var = p.target.id
            owner = p if isinstance(p, ast.For) else par.get(id(p))
            for m in ast.walk(owner):
                if isinstance(m, ast.Name) and m.id == var and isinstance(m.ctx, ast.Load):
                    q = par.get(id(m))
                    if not (isinstance(q, ast.Compare) and len(q.ops) == 1 and isinstance(q.ops[0], (ast.In, ast.NotIn))
                            and q.comparators[0] is m):
                        order_free = False
        else:
            order_free = False
    if order_free:
        gs = [A.canon_order(g, PREF_GPR) for g in groups]
        pref = {p: i for i, p in enumerate(PREF_GPR)}
        gs.sort(key=lambda g: (min(pref.get(x, len(pref)) for x in g), g))
        return gs
    # order may matter: source order (a set has none: canonical)
    return [A.canon_order(g, PREF_GPR) if isinstance(g, (set, frozenset)) else list(g) for g in groups]


# --------------------------------------------------------------------------- x86 regex
def x86_regex(fn, sc):
    uses = A.regex_uses(fn, sc)
    if not uses:
        raise TranslateError("x86 is_reg_dependend_of: no regex use found")
    shapes = set()
    digits = frozenset(range(48, 58))
    for method, pat, flags, call in uses:
        if method != "match":
            raise TranslateError("x86 is_reg_dependend_of: regex used with re.%s, expected re.match" % method)
        if flags is not None and _const(flags, sc) != 0:
            raise TranslateError("x86 is_reg_dependend_of: regex used with flags")
        t = A.regex_tree(pat)
        ok = (
            len(t) == 3
            and t[0][0] == "IN" and not t[0][1] and len(t[0][2]) == 1
            and t[1][0] == "SUBPATTERN" and t[1][1][0] == 1 and t[1][1][1] == 0 and t[1][1][2] == 0
            and len(t[1][1][3]) == 1 and t[1][1][3][0][0] == "MAX_REPEAT"
            and t[1][1][3][0][1][0] == 1 and str(t[1][1][3][0][1][1]) == "MAXREPEAT"
            and t[1][1][3][0][1][2] == (("IN", False, digits),)
            and t[2][0] == "MAX_REPEAT" and t[2][1][0] == 0 and t[2][1][1] == 1
            and len(t[2][1][2]) == 1 and t[2][1][2][0][0] == "IN" and not t[2][1][2][0][1]
        )
        if not ok:
            raise TranslateError("x86 is_reg_dependend_of: unexpected regex %r" % pat)
        (head,) = t[0][2]
        suf = t[2][1][2][0][2]
        if not all(isinstance(c, int) and chr(c).isascii() and chr(c).isupper() for c in list(suf) + [head]):
            raise TranslateError("x86 is_reg_dependend_of: unexpected regex %r" % pat)
        shapes.add((chr(head), "".join(A.canon_order([chr(c) for c in suf], PREF_SUFFIX))))
    if len(shapes) != 1:
        raise TranslateError("x86 is_reg_dependend_of: expected one regex shape, got %r" % sorted(shapes))
    return shapes.pop()


# --------------------------------------------------------------------------- x86 vector slice
def x86_drop(fn, sc):
    """k of `reg_a_name[k:] == reg_b_name[k:]`: every slice of the function is `[k:]` with one k, and two
    of them (possibly through locals) are compared with == / !="""
    slices = [n for n in ast.walk(fn) if isinstance(n, ast.Subscript) and isinstance(n.slice, ast.Slice)]
    if len(slices) != 2:
        raise TranslateError("x86 is_reg_dependend_of: expected two name slices")
    drops = set()
    for s in slices:
        sl = s.slice
        if sl.upper is not None or (sl.step is not None and _const(sl.step, sc) != 1) or sl.lower is None:
            raise TranslateError("x86 is_reg_dependend_of: unexpected slice shape")
        k = A.const_or_fail(sl.lower, sc, "x86 is_reg_dependend_of: slice bound", int)
        if isinstance(k, bool) or k < 0:
            raise TranslateError("x86 is_reg_dependend_of: unexpected slice bound %r" % (k,))
        drops.add(k)
    if len(drops) != 1:
        raise TranslateError("x86 is_reg_dependend_of: slices differ")
    compared = False
    par = _parents(fn)
    for n in ast.walk(fn):
        if isinstance(n, ast.Compare) and len(n.ops) == 1 and isinstance(n.ops[0], (ast.Eq, ast.NotEq)):
            l, _ = sc.deref(n.left)
            r, _ = sc.deref(n.comparators[0])
            if l in slices and r in slices and l is not r and _equality(fn, n, par):
                compared = True
    if not compared:
        raise TranslateError("x86 is_reg_dependend_of: the two name slices are not compared with each other")
    return drops.pop()


# --------------------------------------------------------------------------- string collections
def str_collections(fn, sc, what):
    """the distinct constant collections of strings a function tests against: right side of `in`,
    iterable of a loop / comprehension, argument of .startswith / .endswith; (values, order_free)"""
    par = _parents(fn)
    hits = []
    for n in A.walk_in_order(fn):
        cand = []
        if isinstance(n, ast.Compare) and len(n.ops) == 1 and isinstance(n.ops[0], (ast.In, ast.NotIn)):
            cand.append((n.comparators[0], True))
        elif isinstance(n, ast.comprehension):
            owner = par.get(id(n))
            call = par.get(id(owner))
            free = (isinstance(call, ast.Call) and isinstance(call.func, ast.Name) and call.func.id in ("any", "all")
                    and isinstance(owner, (ast.GeneratorExp, ast.ListComp, ast.SetComp)))
            cand.append((n.iter, free))
        elif isinstance(n, ast.For):
            # `for x in names: if <test on x>: return <constant>` is an any-of test as well
            b = n.body
            free = (not n.orelse and len(b) == 1 and isinstance(b[0], ast.If) and not b[0].orelse
                    and len(b[0].body) == 1 and isinstance(b[0].body[0], ast.Return)
                    and isinstance(b[0].body[0].value, ast.Constant))
            cand.append((n.iter, free))
        elif (isinstance(n, ast.Call) and isinstance(n.func, ast.Attribute) and n.func.attr in ("startswith", "endswith")
              and len(n.args) == 1):
            cand.append((n.args[0], True))
        for node, free in cand:
            v = _const(node, sc)
            if _is_strs(v):
                hits.append((v, free or isinstance(v, (set, frozenset))))
    distinct = []
    for v, free in hits:
        key = sorted(v) if free else list(v)
        if key not in [k for k, _, _ in distinct]:
            distinct.append((key, v, free))
    if len(distinct) != 1:
        raise TranslateError("%s: expected one constant collection of names, found %d" % (what, len(distinct)))
    _, v, free = distinct[0]
    if len(set(v)) != len(v):
        raise TranslateError("%s: duplicate names" % what)
    return sorted(v) if free else list(v)


# --------------------------------------------------------------------------- AArch64
def a64_classes(fn, sc):
    classes = []
    for n in A.walk_in_order(fn):
        if not (isinstance(n, ast.Compare) and len(n.ops) == 1 and isinstance(n.ops[0], ast.In)):
            continue
        c = n.comparators[0]
        v = _const(c, sc)
        if isinstance(v, str):
            vals = [v]
        elif isinstance(c, ast.Name):
            # the variable of a loop / comprehension over a constant collection of class strings
            vals = None
            for m in ast.walk(fn):
                if isinstance(m, (ast.For, ast.comprehension)) and isinstance(m.target, ast.Name) and m.target.id == c.id:
                    it = _const(m.iter, sc)
                    if _is_strs(it):
                        vals = list(it) if not isinstance(it, (set, frozenset)) else sorted(it)
            if vals is None:
                continue
        else:
            continue
        for x in vals:
            if x not in classes:
                classes.append(x)
    if not classes:
        raise TranslateError("AArch64 is_reg_dependend_of: no prefix class strings")
    return A.canon_order(classes, PREF_A64)


def a64_fold(fn, sc):
    def kind(e):
        e, _ = sc.deref(e)
        if isinstance(e, ast.Attribute) and e.attr == "name":
            return "plain"
        if (isinstance(e, ast.Call) and isinstance(e.func, ast.Attribute) and e.func.attr in ("lower", "upper")
                and not e.args and not e.keywords):
            v, _ = sc.deref(e.func.value)
            if isinstance(v, ast.Attribute) and v.attr == "name":
                return "fold:" + e.func.attr
        return None

    kinds = set()
    par = _parents(fn)
    for n in ast.walk(fn):
        if isinstance(n, ast.Compare) and len(n.ops) == 1 and isinstance(n.ops[0], (ast.Eq, ast.NotEq)):
            kl, kr = kind(n.left), kind(n.comparators[0])
            if kl and kr and _equality(fn, n, par):
                if kl != kr:
                    raise TranslateError("AArch64 is_reg_dependend_of: the two names are folded differently")
                kinds.add(kl.split(":")[0])
    if len(kinds) != 1:
        raise TranslateError("AArch64 is_reg_dependend_of: name comparison not found")
    return kinds.pop() == "fold"


@generator("RegTables", [X86, A64])
def gen_regtables():
    tx = parse(X86)
    cx = A.find_class(tx, "ParserX86ATT")
    base = A.Scope(tx)
    fn = A.find_method(cx, "is_reg_dependend_of")
    sc = base.at(cls=cx, fn=fn)
    groups = x86_groups(fn, sc)
    head, suffixes = x86_regex(fn, sc)
    drop = x86_drop(fn, sc)
    fv = A.find_method(cx, "is_vector_register")
    vec = str_collections(fv, base.at(cls=cx, fn=fv), "is_vector_register")
    fb = A.find_method(cx, "is_basic_gpr")
    excl = str_collections(fb, base.at(cls=cx, fn=fb), "is_basic_gpr")

    ta = parse(A64)
    ca = A.find_class(ta, "ParserAArch64")
    fa = A.find_method(ca, "is_reg_dependend_of")
    sa = A.Scope(ta, ca, fa)
    classes = a64_classes(fa, sa)
    fold = a64_fold(fa, sa)

    out = [HEADER, "namespace OsacaVerif.Gen\n"]
    out.append("/-- x86 `gpr_groups` of `is_reg_dependend_of` (dict values, in order). -/")
    out.append("def gprGroups : List (List (List Nat)) := [")
    out.append(",\n".join("  " + txt_list(g) for g in groups))
    out.append("]\n")
    out.append("/-- names accepted by `is_vector_register` after `rstrip(digits).lower()` -/")
    out.append("def vectorNames : List (List Nat) := %s\n" % txt_list(vec))
    out.append("/-- prefixes that exclude a name from `is_basic_gpr` -/")
    out.append("def basicGprExcluded : List (List Nat) := %s\n" % txt_list(excl))
    out.append("/-- head letter of the regex `%s([0-9]+)[%s]?` (used with `re.match`) -/" % (head, suffixes))
    out.append("def otherGprHead : Nat := %d\n" % ord(head))
    out.append("/-- `reg_a_name[k:] == reg_b_name[k:]` for vector registers -/")
    out.append("def vectorNameDrop : Nat := %d\n" % drop)
    out.append("/-- AArch64 prefix classes (`prefixes_gpr`, `prefixes_vec`, ...) in source order -/")
    out.append("def a64PrefixClasses : List (List Nat) := %s\n" % txt_list(classes))
    out.append("/-- whether the AArch64 register-name comparison is case-folded -/")
    out.append("def a64NameFold : Bool := %s\n" % ("true" if fold else "false"))
    out.append("end OsacaVerif.Gen\n")
    return "\n".join(out)
