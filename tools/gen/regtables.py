"""Gen/RegTables.lean: register alias tables of the two parsers (C12, C03)."""
import ast

import translate as T
from translate import TranslateError, generator, parse, find_func, const_str, str_list, txt, txt_list, HEADER


@generator("RegTables", ["osaca/parser/parser_x86att.py", "osaca/parser/parser_AArch64.py"])
def gen_regtables():
    import re as _re

    tx = parse("osaca/parser/parser_x86att.py")
    fn = find_func(tx, "is_reg_dependend_of", "ParserX86ATT")
    # the dict literal of string lists inside is_reg_dependend_of (located by shape, not by name)
    groups = None
    for node in ast.walk(fn):
        if isinstance(node, ast.Dict) and node.values and all(
            isinstance(v, (ast.List, ast.Tuple)) for v in node.values
        ):
            groups = [str_list(v) for v in node.values]
    if groups is None:
        raise TranslateError("x86 is_reg_dependend_of: no dict literal of register-name lists")
    # regexes used with re.match inside the function: all must be <L>([0-9]+)[...]?
    heads = set()
    for node in ast.walk(fn):
        if (
            isinstance(node, ast.Call)
            and isinstance(node.func, ast.Attribute)
            and node.func.attr == "match"
            and node.args
        ):
            pat = const_str(node.args[0])
            m = _re.fullmatch(r"([A-Z])\(\[0-9\]\+\)\[([A-Z]+)\]\?", pat)
            if not m:
                raise TranslateError("x86 is_reg_dependend_of: unexpected regex %r" % pat)
            heads.add((m.group(1), m.group(2)))
    if len(heads) != 1:
        raise TranslateError("x86 is_reg_dependend_of: expected one regex shape, got %r" % heads)
    (head, suffixes), = heads
    # shape of the equality / slice comparison: reg_a_name[1:] == reg_b_name[1:]
    slices = [
        n for n in ast.walk(fn) if isinstance(n, ast.Subscript) and isinstance(n.slice, ast.Slice)
    ]
    if len(slices) != 2:
        raise TranslateError("x86 is_reg_dependend_of: expected two name slices")
    drops = set()
    for s in slices:
        sl = s.slice
        if sl.upper is not None or sl.step is not None or not isinstance(sl.lower, ast.Constant):
            raise TranslateError("x86 is_reg_dependend_of: unexpected slice shape")
        drops.add(sl.lower.value)
    if len(drops) != 1:
        raise TranslateError("x86 is_reg_dependend_of: slices differ")
    (drop,) = drops
    # vector names: list literal inside is_vector_register
    fv = find_func(tx, "is_vector_register", "ParserX86ATT")
    vec = None
    for node in ast.walk(fv):
        if isinstance(node, ast.List) and node.elts and all(
            isinstance(e, ast.Constant) and isinstance(e.value, str) for e in node.elts
        ):
            vec = str_list(node)
    if vec is None:
        raise TranslateError("is_vector_register: no list literal of names")
    fb = find_func(tx, "is_basic_gpr", "ParserX86ATT")
    excl = None
    for node in ast.walk(fb):
        if isinstance(node, ast.List) and node.elts and all(
            isinstance(e, ast.Constant) and isinstance(e.value, str) for e in node.elts
        ):
            excl = str_list(node)
    if excl is None:
        raise TranslateError("is_basic_gpr: no list literal of prefixes")

    ta = parse("osaca/parser/parser_AArch64.py")
    fa = find_func(ta, "is_reg_dependend_of", "ParserAArch64")
    # prefix classes: every string constant assigned to a local name that is later used on the
    # right of `in`; order of assignment is kept.
    classes = []
    for node in fa.body:
        if (
            isinstance(node, ast.Assign)
            and len(node.targets) == 1
            and isinstance(node.targets[0], ast.Name)
            and isinstance(node.value, ast.Constant)
            and isinstance(node.value.value, str)
        ):
            classes.append((node.targets[0].id, node.value.value))
    if not classes:
        raise TranslateError("AArch64 is_reg_dependend_of: no prefix class strings")
    used = set()
    for node in ast.walk(fa):
        if isinstance(node, ast.Compare) and any(isinstance(o, ast.In) for o in node.ops):
            for c in node.comparators:
                if isinstance(c, ast.Name):
                    used.add(c.id)
    classes = [(n, v) for (n, v) in classes if n in used]
    # is the name comparison case-folded?  (reg_a.name == reg_b.name  vs  .lower()/.upper())
    fold = None
    for node in ast.walk(fa):
        if isinstance(node, ast.If) and isinstance(node.test, ast.Compare):
            t = node.test
            if len(t.ops) == 1 and isinstance(t.ops[0], ast.Eq):
                l, r = t.left, t.comparators[0]

                def kind(e):
                    if isinstance(e, ast.Attribute) and e.attr == "name":
                        return "plain"
                    if (
                        isinstance(e, ast.Call)
                        and isinstance(e.func, ast.Attribute)
                        and e.func.attr in ("lower", "upper")
                        and isinstance(e.func.value, ast.Attribute)
                        and e.func.value.attr == "name"
                    ):
                        return "fold"
                    return None

                kl, kr = kind(l), kind(r)
                if kl and kl == kr:
                    fold = kl == "fold"
    if fold is None:
        raise TranslateError("AArch64 is_reg_dependend_of: name comparison not found")

    out = [HEADER, "namespace OsacaVerif.Gen\n"]
    out.append("/-- x86 `gpr_groups` of `is_reg_dependend_of` (dict values, in order). -/")
    out.append("def gprGroups : List (List (List Nat)) := [")
    out.append(",\n".join("  " + txt_list(g) + "  -- " + " ".join(g) for g in groups[:-1]))
    if len(groups) > 1:
        out[-1] = ",\n".join("  " + txt_list(g) for g in groups)
    else:
        out[-1] = "  " + txt_list(groups[0])
    out.append("]\n")
    out.append("/-- names accepted by `is_vector_register` after `rstrip(digits).lower()` -/")
    out.append("def vectorNames : List (List Nat) := %s\n" % txt_list(vec))
    out.append("/-- prefixes that exclude a name from `is_basic_gpr` -/")
    out.append("def basicGprExcluded : List (List Nat) := %s\n" % txt_list(excl))
    out.append("/-- head letter of the regex `%s([0-9]+)[%s]?` (used with `re.match`) -/" % (head, suffixes))
    out.append("def otherGprHead : Nat := %d\n" % ord(head))
    out.append("/-- `reg_a_name[k:] == reg_b_name[k:]` for vector registers -/")
    out.append("def vectorNameDrop : Nat := %d\n" % drop)
    out.append("/-- AArch64 prefix classes (`prefixes_gpr`, `prefixes_vec`, ...) in source order -/")
    out.append("def a64PrefixClasses : List (List Nat) := %s\n" % txt_list([v for _, v in classes]))
    out.append("/-- whether the AArch64 register-name comparison is case-folded -/")
    out.append("def a64NameFold : Bool := %s\n" % ("true" if fold else "false"))
    out.append("end OsacaVerif.Gen\n")
    return "\n".join(out)


