"""Gen/Operations.lean, Gen/IsaDb_x86.lean, Gen/IsaDb_aarch64.lean (C03 roles / C06 register changes).

* Operations: every distinct `operation` string of the two ISA databases, parsed with Python's `ast` into the
  `IsaOp.Prog` datatype (assignments to opN['value'] / opN['name']; right-hand sides built from opM['value'],
  integer literals, + and -; `+=` / `-=` written out).  Any other shape raises TranslateError.  Plus the
  literals of `get_reg_changes` and of the default-role functions the model depends on (located by structure).
* IsaDb_<isa>: the entries of osaca/data/isa/<isa>.yml in `MachineModel`'s post-expansion order, reduced to what
  the model consumes: upper-cased mnemonic, operand patterns (as `operand_to_class` keeps them), per-operand
  source/destination flags, hidden operands, the zero-idiom flag and the operation (by reference into Operations).
"""
import ast
import os

import translate as T
from translate import TranslateError, generator, parse, find_func, txt, HEADER

ISA_PY = "osaca/semantics/isa_semantics.py"
ISA_FILES = {"x86": "osaca/data/isa/x86.yml", "aarch64": "osaca/data/isa/aarch64.yml"}


def load_yaml(rel):
    import ruamel.yaml

    y = ruamel.yaml.YAML(typ="safe")
    with open(os.path.join(T.REPO, rel), encoding="utf-8") as f:
        return y.load(f)


# --------------------------------------------------------------------------- operation strings
def _opnum(node):
    if isinstance(node, ast.Name) and node.id.startswith("op") and node.id[2:].isdigit() and str(int(node.id[2:])) == node.id[2:]:
        return int(node.id[2:])
    raise TranslateError("operation: expected an operand name opN, found %s" % ast.dump(node))


def _sub(node):
    """opN['key'] -> (N, key)"""
    if isinstance(node, ast.Subscript) and isinstance(node.slice, ast.Constant) and node.slice.value in ("value", "name"):
        return _opnum(node.value), node.slice.value
    raise TranslateError("operation: expected opN['value'|'name'], found %s" % ast.dump(node))


def _expr(node):
    if isinstance(node, ast.Constant) and isinstance(node.value, int) and not isinstance(node.value, bool):
        return "(.lit %d)" % node.value if node.value >= 0 else "(.lit (%d))" % node.value
    if isinstance(node, ast.UnaryOp) and isinstance(node.op, ast.USub) and isinstance(node.operand, ast.Constant) \
            and isinstance(node.operand.value, int) and not isinstance(node.operand.value, bool):
        return "(.lit (-%d))" % node.operand.value
    if isinstance(node, ast.Subscript):
        n, key = _sub(node)
        if key != "value":
            raise TranslateError("operation: opN['name'] inside an arithmetic expression")
        return "(.val %d)" % n
    if isinstance(node, ast.BinOp) and isinstance(node.op, (ast.Add, ast.Sub)):
        return "(.%s %s %s)" % ("add" if isinstance(node.op, ast.Add) else "sub", _expr(node.left), _expr(node.right))
    raise TranslateError("operation: unsupported expression %s" % ast.dump(node))


def translate_operation(text):
    """-> list of Lean `Stmt` terms"""
    try:
        tree = ast.parse(text, mode="exec")
    except SyntaxError as e:
        raise TranslateError("operation %r does not parse: %s" % (text, e))
    out = []
    for st in tree.body:
        if isinstance(st, ast.Assign) and len(st.targets) == 1:
            n, key = _sub(st.targets[0])
            if key == "value":
                out.append(".setValue %d %s" % (n, _expr(st.value)))
            else:
                m, k2 = _sub(st.value)
                if k2 != "name":
                    raise TranslateError("operation %r: opN['name'] assigned from something else than opM['name']" % text)
                out.append(".setName %d %d" % (n, m))
        elif isinstance(st, ast.AugAssign) and isinstance(st.op, (ast.Add, ast.Sub)):
            n, key = _sub(st.target)
            if key != "value":
                raise TranslateError("operation %r: augmented assignment to opN['name']" % text)
            out.append(".setValue %d (.%s (.val %d) %s)" % (n, "add" if isinstance(st.op, ast.Add) else "sub", n, _expr(st.value)))
        else:
            raise TranslateError("operation %r: unsupported statement %s" % (text, ast.dump(st)))
    if not out:
        raise TranslateError("operation %r is empty" % text)
    return out


def raw_forms(isa):
    d = load_yaml(ISA_FILES[isa])
    forms = d.get("instruction_forms")
    if not isinstance(forms, list):
        raise TranslateError("%s: instruction_forms is not a list" % ISA_FILES[isa])
    return forms


def operation_table():
    """distinct operation strings of both databases, in order of first appearance (x86 first)"""
    out = []
    for isa in ("x86", "aarch64"):
        for e in raw_forms(isa):
            op = e.get("operation")
            if op is None:
                continue
            if not isinstance(op, str):
                raise TranslateError("%s: operation of %r is not a string" % (isa, e.get("name")))
            if op not in out:
                out.append(op)
    return out


# --------------------------------------------------------------------------- literals of the Python code
def _const_int(node, what):
    if isinstance(node, ast.Constant) and isinstance(node.value, int) and not isinstance(node.value, bool):
        return node.value
    if isinstance(node, ast.UnaryOp) and isinstance(node.op, ast.USub) and isinstance(node.operand, ast.Constant) \
            and isinstance(node.operand.value, int):
        return -node.operand.value
    raise TranslateError("%s: expected an integer literal" % what)


def _opt_int(node, what):
    return None if node is None else _const_int(node, what)


def reg_changes_literals(tree):
    fn = find_func(tree, "get_reg_changes", "ISASemantics")
    fmt = []
    for node in ast.walk(fn):
        if isinstance(node, ast.Call) and isinstance(node.func, ast.Attribute) and node.func.attr == "format" \
                and isinstance(node.func.value, ast.Constant) and node.func.value.value == "op{}":
            a = node.args
            if len(a) == 1 and isinstance(a[0], ast.BinOp) and isinstance(a[0].op, ast.Add) and isinstance(a[0].left, ast.Name):
                fmt.append(_const_int(a[0].right, '"op{}".format(i + k)'))
            else:
                raise TranslateError('get_reg_changes: "op{}".format(...) is not of the form i + k')
    if len(fmt) != 1:
        raise TranslateError('get_reg_changes: expected exactly one "op{}".format(i + k), found %d' % len(fmt))
    # {"name": o_reg_name, "value": <init>} for a register operand
    inits = []
    for node in ast.walk(fn):
        if isinstance(node, ast.Dict) and len(node.keys) == 2 and all(isinstance(k, ast.Constant) for k in node.keys) \
                and [k.value for k in node.keys] == ["name", "value"] and isinstance(node.values[0], ast.Name) \
                and node.values[0].id == "o_reg_name":
            inits.append(_const_int(node.values[1], "initial register value"))
    if len(inits) != 1:
        raise TranslateError("get_reg_changes: initial operand state of a register not found")
    # pre-indexed: reg_operand_names = {base_name: "op<k>"}
    pre = []
    for node in ast.walk(fn):
        if isinstance(node, ast.Assign) and len(node.targets) == 1 and isinstance(node.targets[0], ast.Name) \
                and node.targets[0].id == "reg_operand_names" and isinstance(node.value, ast.Dict) and len(node.value.keys) == 1:
            v = node.value.values[0]
            if isinstance(v, ast.Constant) and isinstance(v.value, str) and v.value.startswith("op") and v.value[2:].isdigit():
                pre.append(int(v.value[2:]))
            else:
                raise TranslateError("get_reg_changes: pre-indexed operand name is not 'op<k>'")
    if len(pre) != 1:
        raise TranslateError("get_reg_changes: pre-indexed name map not found")
    # `if o_reg_name not in reg_operand_names or isa_data.operands[i].destination`
    ok = False
    for node in ast.walk(fn):
        if isinstance(node, ast.If) and isinstance(node.test, ast.BoolOp) and isinstance(node.test.op, ast.Or) and len(node.test.values) == 2:
            a, b = node.test.values
            if isinstance(a, ast.Compare) and len(a.ops) == 1 and isinstance(a.ops[0], ast.NotIn) and isinstance(b, ast.Attribute) \
                    and b.attr == "destination":
                ok = True
    if not ok:
        raise TranslateError("get_reg_changes: `name not in reg_operand_names or <entry operand>.destination` not found")
    # the post-indexed value is reported with its own sign: {"value": o.post_indexed["value"]}
    post = 0
    for node in ast.walk(fn):
        if isinstance(node, ast.Dict):
            for k, v in zip(node.keys, node.values):
                if isinstance(k, ast.Constant) and k.value == "value" and isinstance(v, ast.Subscript) \
                        and isinstance(v.value, ast.Attribute) and v.value.attr == "post_indexed":
                    post += 1
    if post != 1:
        raise TranslateError("get_reg_changes: post-indexed change is not `\"value\": o.post_indexed[\"value\"]`")
    # ... and only if there is one: a post-index without "value" (post-indexed by a register, `ld1 {v0.4s}, [x0], x1`) is
    # reported as an unknown change -- `if "value" not in o.post_indexed: return {base_name: None}` (Isa.Val.absent)
    guard = 0
    for node in ast.walk(fn):
        if isinstance(node, ast.If) and isinstance(node.test, ast.Compare) and len(node.test.ops) == 1 \
                and isinstance(node.test.ops[0], ast.NotIn) and isinstance(node.test.left, ast.Constant) and node.test.left.value == "value" \
                and isinstance(node.test.comparators[0], ast.Attribute) and node.test.comparators[0].attr == "post_indexed" \
                and not node.orelse and len(node.body) == 1 and isinstance(node.body[0], ast.Return) \
                and isinstance(node.body[0].value, ast.Dict) and len(node.body[0].value.values) == 1 \
                and isinstance(node.body[0].value.values[0], ast.Constant) and node.body[0].value.values[0].value is None:
            guard += 1
    if guard != 1:
        raise TranslateError("get_reg_changes: no `if \"value\" not in o.post_indexed: return {base_name: None}` before the "
                             "post-indexed change (a post-index by a register would raise KeyError)")
    return fmt[0], inits[0], pre[0]


def default_role_literals(tree):
    """slices of `_get_regular_source_operands` / `_get_regular_destination_operands` per ISA"""
    out = {}
    for fname, kind in (("_get_regular_source_operands", "Src"), ("_get_regular_destination_operands", "Dst")):
        fn = find_func(tree, fname, "ISASemantics")
        single = None
        for node in ast.walk(fn):
            if not isinstance(node, ast.If) or not isinstance(node.test, ast.Compare) or len(node.test.ops) != 1:
                continue
            t = node.test
            rets = [n for st in node.body for n in ast.walk(st) if isinstance(n, ast.Return)]
            is_len = isinstance(t.left, ast.Call) and isinstance(t.left.func, ast.Name) and t.left.func.id == "len"
            if (is_len or isinstance(t.left, ast.Name)) and isinstance(t.ops[0], ast.Eq) \
                    and isinstance(t.comparators[0], ast.Constant) and t.comparators[0].value == 1:
                if len(rets) != 1 or not isinstance(rets[0].value, ast.List):
                    raise TranslateError("%s: single-operand rule does not return a list literal" % fname)
                elts = rets[0].value.elts
                if len(elts) == 0:
                    single = False
                elif len(elts) == 1 and isinstance(elts[0], ast.Subscript) and _const_int(elts[0].slice, "operands[0]") == 0:
                    single = True
                else:
                    raise TranslateError("%s: unexpected single-operand rule" % fname)
            elif isinstance(t.left, ast.Attribute) and t.left.attr == "_isa" and isinstance(t.ops[0], ast.Eq) \
                    and isinstance(t.comparators[0], ast.Constant):
                isa = t.comparators[0].value
                sl = [n for r in rets for n in ast.walk(r) if isinstance(n, ast.Subscript) and isinstance(n.slice, ast.Slice)]
                if len(sl) != 1 or sl[0].slice.step is not None:
                    raise TranslateError("%s: expected one slice of the operand list for %s" % (fname, isa))
                out[(isa, kind)] = (_opt_int(sl[0].slice.lower, fname), _opt_int(sl[0].slice.upper, fname))
        if single is None:
            raise TranslateError("%s: single-operand rule not found" % fname)
        out[("single", kind)] = single
    for isa in ("x86", "aarch64"):
        for kind in ("Src", "Dst"):
            if (isa, kind) not in out:
                raise TranslateError("default roles of %s (%s) not found" % (isa, kind))
    return out


def apply_literals(tree):
    """`_apply_found_ISA_data`: the idiom test `operands[1:] == operands[:-1]` and the role tests"""
    fn = find_func(tree, "_apply_found_ISA_data", "ISASemantics")
    found = False
    for node in ast.walk(fn):
        if isinstance(node, ast.Compare) and len(node.ops) == 1 and isinstance(node.ops[0], ast.Eq):
            l, r = node.left, node.comparators[0]
            if isinstance(l, ast.Subscript) and isinstance(r, ast.Subscript) and isinstance(l.slice, ast.Slice) and isinstance(r.slice, ast.Slice):
                a = (_opt_int(l.slice.lower, "idiom"), _opt_int(l.slice.upper, "idiom"))
                b = (_opt_int(r.slice.lower, "idiom"), _opt_int(r.slice.upper, "idiom"))
                if {a, b} != {(1, None), (None, -1)}:
                    raise TranslateError("_apply_found_ISA_data: idiom test is not operands[1:] == operands[:-1] (%r, %r)" % (a, b))
                found = True
    if not found:
        raise TranslateError("_apply_found_ISA_data: idiom test not found")
    # the loop: `if op.source and op.destination` -> src_dst ; `if op.source` -> source ; `if op.destination` -> destination
    loop = [n for n in ast.walk(fn) if isinstance(n, ast.For) and isinstance(n.iter, ast.Call)
            and isinstance(n.iter.func, ast.Name) and n.iter.func.id == "enumerate"]
    if len(loop) != 1:
        raise TranslateError("_apply_found_ISA_data: loop over the entry operands not found")
    tests = []
    for st in loop[0].body:
        if not isinstance(st, ast.If):
            raise TranslateError("_apply_found_ISA_data: unexpected statement in the operand loop")
        t = st.test
        if isinstance(t, ast.BoolOp) and isinstance(t.op, ast.And) and all(isinstance(v, ast.Attribute) for v in t.values):
            cond = "and:" + ",".join(v.attr for v in t.values)
        elif isinstance(t, ast.Attribute):
            cond = t.attr
        else:
            raise TranslateError("_apply_found_ISA_data: unexpected role test %s" % ast.dump(t))
        keys = [n.slice.value for n in ast.walk(st.body[0]) if isinstance(n, ast.Subscript) and isinstance(n.slice, ast.Constant)
                and isinstance(n.slice.value, str)]
        has_continue = any(isinstance(x, ast.Continue) for x in st.body)
        tests.append((cond, keys[0] if keys else None, has_continue))
    want = [("and:source,destination", "src_dst", True), ("source", "source", True), ("destination", "destination", True)]
    if tests != want:
        raise TranslateError("_apply_found_ISA_data: role tests are %r, expected %r" % (tests, want))


def lean_opt_int(v):
    if v is None:
        return "none"
    return "(some %d)" % v if v >= 0 else "(some (%d))" % v


@generator("Operations", [ISA_PY, ISA_FILES["x86"], ISA_FILES["aarch64"]])
def gen_operations():
    table = operation_table()
    tree = parse(ISA_PY)
    base, init, pre = reg_changes_literals(tree)
    dr = default_role_literals(tree)
    apply_literals(tree)
    if base < 0 or pre < 0:
        raise TranslateError("negative operand numbering")
    out = [HEADER, "import OsacaVerif.Model.IsaOp\n", "namespace OsacaVerif.Gen", "open OsacaVerif.IsaOp\n"]
    for i, text in enumerate(table):
        stmts = translate_operation(text)
        out.append("/-- `%s` -/" % text.replace("-/", "- /"))
        out.append("def opText%d : List Nat := %s" % (i, txt(text)))
        out.append("def op%d : Prog := [%s]\n" % (i, ", ".join(stmts)))
    out.append("/-- every distinct `operation` string of isa/x86.yml and isa/aarch64.yml with its program -/")
    out.append("def operations : List (List Nat × Prog) := [%s]\n" % ", ".join("(opText%d, op%d)" % (i, i) for i in range(len(table))))
    out.append('/-- `"op{}".format(i + k)` in `get_reg_changes`: number of the first operand -/')
    out.append("def opIndexBase : Nat := %d\n" % base)
    out.append('/-- `{"name": o_reg_name, "value": v}`: initial value of a register operand -/')
    out.append("def regInitValue : Int := %d\n" % init)
    out.append("/-- `reg_operand_names = {base_name: \"op<k>\"}` of a pre-indexed access -/")
    out.append("def preIndexedOp : Nat := %d\n" % pre)
    for isa, nm in (("x86", "X86"), ("aarch64", "A64")):
        for kind in ("Src", "Dst"):
            lo, hi = dr[(isa, kind)]
            out.append("/-- `_get_regular_%s_operands` (%s): `operands[lo:hi]` -/" % ("source" if kind == "Src" else "destination", isa))
            out.append("def default%s%s : Option Int × Option Int := (%s, %s)\n" % (kind, nm, lean_opt_int(lo), lean_opt_int(hi)))
    out.append("/-- a single operand is a source (`[operands[0]]`) and not a destination (`[]`) -/")
    out.append("def singleIsSource : Bool := %s" % ("true" if dr[("single", "Src")] else "false"))
    out.append("def singleIsDestination : Bool := %s\n" % ("true" if dr[("single", "Dst")] else "false"))
    out.append("end OsacaVerif.Gen\n")
    return "\n".join(out)


# --------------------------------------------------------------------------- ISA databases
def expand(forms):
    """MachineModel.__init__: single-name forms in file order, then one form per alias of every list-named form"""
    out, tail = [], []
    for e in forms:
        if not isinstance(e, dict) or "name" not in e:
            raise TranslateError("ISA entry without a name: %r" % (e,))
        if isinstance(e["name"], list):
            for n in e["name"]:
                if not isinstance(n, str):
                    raise TranslateError("alias %r is not a string" % (n,))
                tail.append((n, e))
        elif isinstance(e["name"], str):
            out.append((e["name"], e))
        else:
            raise TranslateError("ISA entry name %r" % (e["name"],))
    return out + tail


def opt_txt(v, lower=False):
    if v is None or v == "" or v is False:
        return "none"
    if not isinstance(v, str):
        raise TranslateError("expected a string or null, found %r" % (v,))
    return "(some %s)" % txt(v.lower() if lower else v)


def y_lit(v):
    if v is None:
        return ".null"
    if isinstance(v, bool):
        return "(.bool %s)" % ("true" if v else "false")
    if isinstance(v, int):
        return "(.num (%d))" % v
    if isinstance(v, str):
        return "(.str %s)" % txt(v)
    raise TranslateError("unsupported scalar %r in a memory pattern" % (v,))


def flag_of(o, key, where):
    v = o.get(key, False)
    if not isinstance(v, bool):
        raise TranslateError("%s: `%s` is not a boolean: %r" % (where, key, v))
    return v


def role(o, where):
    return "⟨%s, %s⟩" % ("true" if flag_of(o, "source", where) else "false", "true" if flag_of(o, "destination", where) else "false")


def entry_operand(o, where):
    """the operand pattern as `operand_to_class` keeps it (only what the matcher reads)"""
    if not isinstance(o, dict) or "class" not in o:
        raise TranslateError("%s: operand without class" % where)
    c = o["class"]
    if c == "register":
        name = o.get("name")
        if name is not None and not isinstance(name, str):
            raise TranslateError("%s: register name %r" % (where, name))
        return ".reg %s %s %s" % ("none" if name is None else "(some %s)" % txt(name), opt_txt(o.get("prefix"), True),
                                  opt_txt(o.get("shape"), True))
    if c == "memory":
        for k in ("base", "offset", "index", "scale"):
            if k not in o:
                raise TranslateError("%s: memory pattern without %s" % (where, k))
        return ".mem %s %s %s %s %s %s" % (y_lit(o["base"]), y_lit(o["offset"]), y_lit(o["index"]), y_lit(o["scale"]),
                                           y_lit(o.get("pre_indexed", False)), y_lit(o.get("post_indexed", False)))
    if c == "immediate":
        if "imd" not in o:
            raise TranslateError("%s: immediate without imd" % where)
        return ".imm %s" % y_lit(o["imd"])
    if c == "identifier":
        return ".ident"
    if c == "condition":
        if not isinstance(o.get("ccode"), str):
            raise TranslateError("%s: condition without ccode" % where)
        return ".cond %s" % txt(o["ccode"].upper())
    if c == "flag":
        if "name" not in o:
            raise TranslateError("%s: flag without name" % where)
        return ".flag"
    raise TranslateError("%s: operand class %r is outside the model (its role attributes are not defined)" % (where, c))


def hidden_operand(o, where):
    if not isinstance(o, dict) or "class" not in o:
        raise TranslateError("%s: hidden operand without class" % where)
    c = o["class"]
    if c == "register":
        if not isinstance(o.get("name"), str):
            raise TranslateError("%s: hidden register without a name" % where)
        for k in ("pre_indexed", "post_indexed"):
            if o.get(k):
                raise TranslateError("%s: hidden register with %s" % (where, k))
        return ".reg %s %s" % (opt_txt(o.get("prefix"), True), txt(o["name"]))
    if c == "flag":
        if not isinstance(o.get("name"), str):
            raise TranslateError("%s: flag without a name" % where)
        return ".flag %s" % txt(o["name"])
    if c == "memory":
        for k in ("base", "offset", "index", "scale"):
            if k not in o:
                raise TranslateError("%s: hidden memory operand without %s" % (where, k))
        for k in ("pre_indexed", "post_indexed"):
            if o.get(k):
                raise TranslateError("%s: hidden memory operand with %s" % (where, k))
        b, i, s = o["base"], o["index"], o["scale"]
        if b is None:
            base = "none"
        elif isinstance(b, dict) and isinstance(b.get("name"), str):
            base = "(some %s)" % txt(b["name"])
        else:
            raise TranslateError("%s: hidden memory base %r" % (where, b))
        if i is None:
            index = "none"
        elif isinstance(i, dict) and isinstance(i.get("name"), str):
            index = "(some (%s, %s))" % (opt_txt(i.get("prefix"), True), txt(i["name"]))
        else:
            raise TranslateError("%s: hidden memory index %r" % (where, i))
        if not isinstance(s, int) or isinstance(s, bool):
            raise TranslateError("%s: hidden memory scale %r" % (where, s))
        return ".mem %s %s (%d) %s" % (base, index, s, "false" if o["offset"] is None else "true")
    raise TranslateError("%s: hidden operand class %r is outside the model" % (where, c))


def gen_isadb(isa, lean_name):
    table = operation_table()
    forms = expand(raw_forms(isa))
    out = [HEADER, "import OsacaVerif.Model.Isa", "import OsacaVerif.Gen.Operations\n", "namespace OsacaVerif.Gen",
           "open OsacaVerif OsacaVerif.Operand OsacaVerif.Isa\n",
           "/-- osaca/data/isa/%s.yml in `MachineModel`'s post-expansion order -/" % isa,
           "def %s : List IsaEntry := [" % lean_name]
    rows = []
    for k, (name, e) in enumerate(forms):
        where = "%s entry %d (%s)" % (isa, k, name)
        ops = e.get("operands")
        if not isinstance(ops, list):
            raise TranslateError("%s: operands is not a list" % where)
        hid = e.get("hidden_operands", [])
        if not isinstance(hid, list):
            raise TranslateError("%s: hidden_operands is not a list" % where)
        brk = e.get("breaks_dependency_on_equal_operands", False)
        if not isinstance(brk, bool):
            raise TranslateError("%s: breaks_dependency_on_equal_operands is not a boolean" % where)
        op = e.get("operation")
        parts = ["e := { name := %s, operands := [%s] }" % (txt(name.upper()), ", ".join(entry_operand(o, where) for o in ops)),
                 "roles := [%s]" % ", ".join(role(o, where) for o in ops)]
        if hid:
            parts.append("hidden := [%s]" % ", ".join("(%s, %s)" % (hidden_operand(o, where), role(o, where)) for o in hid))
        if brk:
            parts.append("brk := true")
        if op is not None:
            parts.append("operation := some op%d" % table.index(op))
        rows.append("  { " + ", ".join(parts) + " }")
    out.append(",\n".join(rows))
    out.append("]\n")
    out.append("end OsacaVerif.Gen\n")
    return "\n".join(out)


@generator("IsaDb_x86", [ISA_FILES["x86"], ISA_FILES["aarch64"]])
def gen_isadb_x86():
    return gen_isadb("x86", "isaDbX86")


@generator("IsaDb_aarch64", [ISA_FILES["x86"], ISA_FILES["aarch64"]])
def gen_isadb_a64():
    return gen_isadb("aarch64", "isaDbA64")
