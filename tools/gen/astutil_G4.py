"""Shared helpers of the plug-ins a64grammar.py and x86parser.py (work package G4).

The plug-ins read the OSACA parsers *semantically*: what a piece of code computes, not how it is
spelt.  Three tools live here, all purely static (nothing of OSACA is imported or executed):

  * `Interp`: a small abstract interpreter over the Python AST.  It evaluates constant expressions
    (literals, arithmetic, `10 ** 3`, string concatenation / `%` / `.format` / f-strings, tuples, lists,
    dicts, sets, `range`, comprehensions over constants, names bound at function, class or module
    level, `self.X` / `cls.X` / `Class.X`, lambdas and local one-expression helpers) and it *symbolically
    executes a pyparsing grammar construction* (`construct_parser`): every `pp.<Ctor>(...)`, every
    `+ | ^`, `.setResultsName(..)`/`(..)`, `.suppress()` yields a `PNode`; names are looked up in the
    environment, so local variable names, hoisted or split sub-expressions, helper lists folded with
    `reduce`, loops over constant tables and the snake_case aliases of pyparsing never show.
    Whatever is not understood raises `TranslateError` (no catch-all).
  * `PNode` queries (`walk`, `named`, `literals`, `words`, `sig`) with which the plug-ins navigate the grammar
    by *structure and results names* (the keys the post-processing code reads), not by variable names.
  * readers of plain code: `read_parse_file` (the loop *or* comprehension of `BaseParser.parse_file`),
    `keyed_blocks` (`if "k" in d:` blocks, unrolled loops over constant key tables, guard clauses,
    comprehensions), `linear` (integer linear forms), `local_env` (constants and single assignments of a
    function), `blank_test`.
"""
import ast
import string as _string

from translate import TranslateError

PP_CLASSES = ("alphas", "alphanums", "nums", "hexnums", "printables", "alphas8bit", "punc8bit")

# pyparsing spells most things twice (camelCase / snake_case); one canonical name each
KIND_ALIASES = {
    "Opt": "Optional", "one_of": "oneOf", "delimited_list": "delimitedList", "DelimitedList": "delimitedList",
    "quoted_string": "quotedString", "dbl_quoted_string": "dblQuotedString", "sgl_quoted_string": "sglQuotedString",
    "line_end": "lineEnd", "string_end": "stringEnd", "rest_of_line": "restOfLine",
}
KW_ALIASES = {
    "exclude_chars": "excludeChars", "join_string": "joinString", "init_chars": "initChars",
    "body_chars": "bodyChars", "match_string": "matchString", "ident_chars": "identChars",
    "word_chars": "wordChars", "as_keyword": "asKeyword", "list_all_matches": "listAllMatches",
    "use_regex": "useRegex", "as_string": "asString",
}
METHOD_ALIASES = {"set_results_name": "setResultsName", "parse_string": "parseString"}

OPS = {ast.Add: "And", ast.BitXor: "Or", ast.BitOr: "MatchFirst"}
ENHANCE = {"Optional", "Suppress", "Group", "ZeroOrMore", "OneOrMore", "Combine", "delimitedList",
           "FollowedBy", "NotAny", "Dict", "Forward", "Located", "SkipTo"}
NARY = {"And", "Or", "MatchFirst", "Each"}
TOKENS = {"Literal", "CaselessLiteral", "Keyword", "CaselessKeyword", "Word", "Regex", "oneOf", "WordEnd",
          "WordStart", "Empty", "LineEnd", "LineStart", "StringEnd", "StringStart", "White", "CharsNotIn",
          "Char", "NoMatch"}
ATOMS = {"quotedString", "dblQuotedString", "sglQuotedString", "lineEnd", "stringEnd", "restOfLine", "empty"}


def _where(node):
    return "line %s" % getattr(node, "lineno", "?")


def _src(node):
    try:
        s = ast.unparse(node)
    except Exception:  # pragma: no cover
        s = type(node).__name__
    return s if len(s) < 70 else s[:67] + "..."


# ------------------------------------------------------------------------------------ symbolic values
class CharClass:
    """`pp.alphas + "_."`: parts in the order written, each ("pp", name) or ("lit", text)"""

    def __init__(self, parts):
        self.parts = list(parts)

    def __add__(self, o):
        return CharClass(self.parts + _cc_parts(o))

    def __radd__(self, o):
        return CharClass(_cc_parts(o) + self.parts)

    def sig(self):
        return ("CharClass", tuple(self.parts))

    def split(self):
        """([names of pp classes in order], literal characters in order of first appearance)"""
        names, extra = [], ""
        for k, v in self.parts:
            if k == "pp":
                if v not in names:
                    names.append(v)
            else:
                for c in v:
                    if c not in extra:
                        extra += c
        # the same set written differently: alphas + nums is alphanums; all characters of a class spelt out
        if "alphas" in names and "nums" in names:
            names[names.index("alphas")] = "alphanums"
            names.remove("nums")
        if not names:
            for cls in ("printables", "alphanums", "hexnums", "alphas", "nums"):
                if set(_PP_SETS[cls]) <= set(extra):
                    names = [cls]
                    break
        have = set("".join(_PP_SETS.get(n, "") for n in names))
        extra = "".join(c for c in extra if c not in have)
        return names, extra


_PP_SETS = {"nums": _string.digits, "alphas": _string.ascii_letters, "alphanums": _string.ascii_letters + _string.digits,
            "hexnums": _string.digits + "ABCDEFabcdef",
            "printables": "".join(c for c in _string.printable if c not in _string.whitespace)}


def _cc_parts(o):
    if isinstance(o, CharClass):
        return o.parts
    if isinstance(o, str):
        return [("lit", o)] if o else []
    raise TranslateError("character class: cannot add %r" % (o,))


def charclass(v, what):
    """value of a character-set argument -> (names, extra)"""
    if isinstance(v, CharClass):
        return v.split()
    if isinstance(v, str):
        return CharClass([("lit", v)]).split()
    raise TranslateError("%s: unexpected character-set expression %r" % (what, v))


class PNode:
    """one pyparsing element of a symbolically constructed grammar"""
    _n = 0

    def __init__(self, kind, args=(), kw=None, kids=(), name=None, origin=None, lineno=0, raw=False):
        PNode._n += 1
        self.uid = PNode._n
        self.kind = kind
        self.args = tuple(args)          # constant positional arguments (strings, CharClass, ...)
        self.kw = dict(kw or {})         # constant keyword arguments
        self.kids = list(kids)           # sub-elements
        self.name = name                 # results name
        self.list_all = False
        self.origin = origin if origin is not None else self.uid   # survives `.setResultsName` copies
        self.lineno = lineno
        self.raw = raw                   # built by an operator / And([...]): may be flattened into a parent

    def named(self, name, list_all=False):
        n = PNode(self.kind, self.args, self.kw, self.kids, name, self.origin, self.lineno, False)
        n.list_all = list_all
        return n

    def same(self, other):
        """the same element up to results name"""
        return isinstance(other, PNode) and (self.origin == other.origin or sig(self, False) == sig(other, False))

    def __repr__(self):
        return show(self)


def _sigval(v):
    if isinstance(v, CharClass):
        return v.sig()
    if isinstance(v, PNode):
        return sig(v)
    if isinstance(v, (list, tuple)):
        return tuple(_sigval(x) for x in v)
    if isinstance(v, (set, frozenset)):
        return ("set",) + tuple(sorted(map(repr, v)))
    if isinstance(v, dict):
        return ("dict",) + tuple(sorted((repr(k), _sigval(x)) for k, x in v.items()))
    return v


def sig(n, with_name=True):
    """hashable structural signature (deep)"""
    return (n.kind, tuple(_sigval(a) for a in n.args), tuple(sorted((k, _sigval(v)) for k, v in n.kw.items())),
            (n.name, n.list_all) if with_name else None, tuple(sig(k) for k in n.kids))


def show(n, depth=0):
    """compact one-line rendering, for error messages"""
    s = n.kind
    if n.args or n.kw:
        s += "(" + ", ".join([repr(a.parts if isinstance(a, CharClass) else a) for a in n.args]
                             + ["%s=%r" % kv for kv in sorted(n.kw.items())]) + ")"
    if n.kids:
        s += "[" + (", ".join(show(k, depth + 1) for k in n.kids) if depth < 3 else "...") + "]"
    if n.name is not None:
        s += "→%s" % n.name
    return s


def walk(n, descend=None):
    """pre-order; `descend(node)` False stops below that node (the node itself is still yielded)"""
    yield n
    if descend is None or descend(n):
        for k in n.kids:
            yield from walk(k, descend)


def below(n, descend=None):
    """pre-order over the proper descendants of n"""
    for k in n.kids:
        yield from walk(k, descend)


def named(n, name, descend=None):
    return [x for x in below(n, descend) if x.name == name]


def of_kind(n, kinds, descend=None, include_self=True):
    kinds = (kinds,) if isinstance(kinds, str) else tuple(kinds)
    it = walk(n, descend) if include_self else below(n, descend)
    return [x for x in it if x.kind in kinds]


def strarg(n, what):
    if not n.args or not isinstance(n.args[0], str):
        raise TranslateError("%s: expected a string argument, got %s" % (what, show(n)))
    return n.args[0]


def literals(n, descend=None, kinds=("Literal",)):
    return [strarg(x, "literal") for x in of_kind(n, kinds, descend)]


def only(lst, what):
    if len(lst) != 1:
        raise TranslateError("%s: expected exactly one, found %d" % (what, len(lst)))
    return lst[0]


def expect(n, kind, what, nkids=None):
    if not isinstance(n, PNode) or n.kind != kind or (nkids is not None and len(n.kids) != nkids):
        raise TranslateError("%s: expected %s%s, got %s" % (
            what, kind, "" if nkids is None else " of %d" % nkids, show(n) if isinstance(n, PNode) else repr(n)))
    return n


def unwrap(n, kind, what):
    """the single child of an enhancing element of that kind"""
    expect(n, kind, what, 1)
    return n.kids[0]


def strip_kinds(n, kinds):
    """peel `Group(...)`, `Optional(...)`, ... wrappers"""
    while n.kind in kinds and len(n.kids) == 1:
        n = n.kids[0]
    return n


class Closure:
    def __init__(self, interp, params, body, defaults, is_expr, self_name=None):
        self.interp, self.params, self.body, self.defaults, self.is_expr = interp, params, body, defaults, is_expr
        self.self_name = self_name      # set for a method of the class called as self.<method>(...)
        self.vararg = None


class _PPRef:
    """reference to `pyparsing.<attr>` that is neither a character class nor an atom: a constructor"""
    def __init__(self, attr):
        self.attr = attr


class _Bound:
    def __init__(self, obj, attr):
        self.obj, self.attr = obj, attr


class _Builtin:
    def __init__(self, name):
        self.name = name


class _Return(Exception):
    def __init__(self, value):
        self.value = value


_SAFE_STR_METHODS = {"join", "upper", "lower", "format", "split", "rsplit", "strip", "lstrip", "rstrip", "replace",
                     "startswith", "endswith", "title", "capitalize", "zfill", "ljust", "rjust", "center",
                     "swapcase", "casefold", "splitlines", "partition", "isdigit", "isalpha", "count", "find", "index"}
_SAFE_BUILTINS = {"range": range, "len": len, "int": int, "str": str, "float": float, "bool": bool, "sorted": sorted,
                  "list": list, "tuple": tuple, "set": set, "frozenset": frozenset, "dict": dict, "min": min,
                  "max": max, "sum": sum, "abs": abs, "chr": chr, "ord": ord, "enumerate": enumerate, "zip": zip,
                  "reversed": reversed, "round": round, "repr": repr, "divmod": divmod, "any": any, "all": all}
_OPERATOR_FUNCS = {"xor": ast.BitXor, "or_": ast.BitOr, "add": ast.Add, "concat": ast.Add, "and_": ast.BitAnd,
                   "mul": ast.Mult, "sub": ast.Sub}
_CONCRETE = (int, float, str, bool, type(None), tuple, list, dict, set, frozenset, range, bytes, complex)

import operator as _op
_BIN = {ast.Add: _op.add, ast.Sub: _op.sub, ast.Mult: _op.mul, ast.Div: _op.truediv, ast.FloorDiv: _op.floordiv,
        ast.Mod: _op.mod, ast.Pow: _op.pow, ast.LShift: _op.lshift, ast.RShift: _op.rshift, ast.BitOr: _op.or_,
        ast.BitAnd: _op.and_, ast.BitXor: _op.xor}
_CMP = {ast.Eq: _op.eq, ast.NotEq: _op.ne, ast.Lt: _op.lt, ast.LtE: _op.le, ast.Gt: _op.gt, ast.GtE: _op.ge,
        ast.Is: _op.is_, ast.IsNot: _op.is_not, ast.In: lambda a, b: a in b, ast.NotIn: lambda a, b: a not in b}


class Interp:
    """abstract interpreter: constants and pyparsing grammar construction (see module docstring)"""

    def __init__(self, module=None, classes=(), self_names=("self", "cls")):
        self.vars = {}
        self.selfattrs = {}
        self.lazy = {}            # module-level name -> value node
        self.classes = list(classes)      # ClassDef nodes, most derived first
        self.self_names = set(self_names)
        self.pp_mods, self.pp_direct = set(), {}
        self.mods = {}            # local alias -> real module name for string/operator/functools/re
        self._busy = set()
        self.depth = 0
        if module is not None:
            self._scan_module(module)
        else:
            self.pp_mods.add("pp")

    # -- set-up
    def _scan_module(self, module):
        for st in module.body:
            if isinstance(st, ast.Import):
                for a in st.names:
                    local = a.asname or a.name.split(".")[0]
                    if a.name == "pyparsing":
                        self.pp_mods.add(local)
                    elif a.name in ("string", "operator", "functools", "re"):
                        self.mods[local] = a.name
            elif isinstance(st, ast.ImportFrom):
                for a in st.names:
                    if st.module == "pyparsing":
                        self.pp_direct[a.asname or a.name] = a.name
                    elif st.module in ("operator", "functools", "string"):
                        self.vars[a.asname or a.name] = self._module_attr(st.module, a.name, st)
            elif isinstance(st, ast.Assign) and len(st.targets) == 1 and isinstance(st.targets[0], ast.Name):
                self.lazy[st.targets[0].id] = st.value
            elif isinstance(st, ast.AnnAssign) and isinstance(st.target, ast.Name) and st.value is not None:
                self.lazy[st.target.id] = st.value

    def class_attr(self, attr, node=None):
        for c in self.classes:
            found = None
            for st in c.body:
                if isinstance(st, ast.Assign):
                    for t in st.targets:
                        if isinstance(t, ast.Name) and t.id == attr:
                            found = st.value
                elif isinstance(st, ast.AnnAssign) and isinstance(st.target, ast.Name) and st.target.id == attr \
                        and st.value is not None:
                    found = st.value
            if found is not None:
                key = ("class", c.name, attr)
                if key in self._busy:
                    raise TranslateError("cyclic class attribute %s" % attr)
                self._busy.add(key)
                try:
                    # class-level expressions see class-level names
                    sub = Interp.__new__(Interp)
                    sub.__dict__.update(self.__dict__)
                    sub.vars = _ClassScope(self, c)
                    return sub.eval(found)
                finally:
                    self._busy.discard(key)
        raise TranslateError("attribute %s not found in %s (%s)" % (
            attr, "/".join(c.name for c in self.classes) or "<no class>", _where(node) if node else ""))

    def _method(self, name):
        """a plain method of the class (helper into which a part of the construction was extracted)"""
        for c in self.classes:
            for st in c.body:
                if isinstance(st, ast.FunctionDef) and st.name == name:
                    a = st.args
                    static = [d for d in st.decorator_list if isinstance(d, ast.Name) and d.id == "staticmethod"]
                    if a.vararg or a.kwarg or a.kwonlyargs or a.posonlyargs or len(static) != len(st.decorator_list) \
                            or (not static and not a.args):
                        raise TranslateError("helper method %s: signature not modelled (%s)" % (name, _where(st)))
                    params = [x.arg for x in a.args]
                    return Closure(self, params if static else params[1:], body_without_docstring(st),
                                   [self.eval(d) for d in a.defaults], False, None if static else params[0])
                if isinstance(st, ast.Assign) and any(isinstance(t, ast.Name) and t.id == name for t in st.targets):
                    return None
        return None

    def _module_attr(self, mod, attr, node):
        if mod == "string":
            v = getattr(_string, attr, None)
            if isinstance(v, str):
                return v
        elif mod == "operator" and attr in _OPERATOR_FUNCS:
            return _Builtin("operator." + attr)
        elif mod == "functools" and attr == "reduce":
            return _Builtin("reduce")
        raise TranslateError("cannot evaluate %s.%s (%s)" % (mod, attr, _where(node)))

    # -- pyparsing
    def _pp(self, attr, node):
        attr = KIND_ALIASES.get(attr, attr)
        if attr in PP_CLASSES:
            return CharClass([("pp", attr)])
        if attr in ATOMS:
            return PNode(attr, lineno=getattr(node, "lineno", 0))
        return _PPRef(attr)

    def _as_elem(self, v, node):
        if isinstance(v, PNode):
            return v
        if isinstance(v, str):
            return PNode("Literal", (v,), lineno=getattr(node, "lineno", 0))
        raise TranslateError("expected a pyparsing element, got %r (%s)" % (v, _where(node)))

    def _nary(self, kind, elems, node):
        kids = []
        for e in elems:
            # pyparsing's streamline(): an unnamed nested And/Or/MatchFirst of the same kind is the same language
            if e.kind == kind and e.raw and e.name is None:
                kids += e.kids
            else:
                kids.append(e)
        return PNode(kind, (), None, kids, lineno=getattr(node, "lineno", 0), raw=True)

    def _construct(self, kind, args, kw, node):
        ln = getattr(node, "lineno", 0)
        kw = {KW_ALIASES.get(k, k): v for k, v in kw.items()}
        for k, v in kw.items():
            if isinstance(v, (PNode, Closure, _PPRef, _Bound)) and not (kind == "delimitedList" and k == "delim"):
                raise TranslateError("%s(%s=<element>) is not modelled (%s)" % (kind, k, _where(node)))
        if kind in NARY:
            if len(args) != 1 or not isinstance(args[0], (list, tuple)):
                raise TranslateError("%s(...): expected one list of elements (%s)" % (kind, _where(node)))
            n = self._nary(kind, [self._as_elem(a, node) for a in args[0]], node)
            n.kw = kw
            return n
        if kind in ENHANCE:
            if not args:
                if kind == "Forward":
                    raise TranslateError("recursive grammars (Forward) are not modelled (%s)" % _where(node))
                raise TranslateError("%s(): missing element (%s)" % (kind, _where(node)))
            child = self._as_elem(args[0], node)
            rest = list(args[1:])
            if kind == "delimitedList":
                if rest:
                    kw.setdefault("delim", rest.pop(0))
                kw.setdefault("delim", ",")
                if isinstance(kw["delim"], PNode):
                    d = kw["delim"]
                    if d.kind != "Literal":
                        raise TranslateError("delimitedList: delimiter element not modelled (%s)" % _where(node))
                    kw["delim"] = d.args[0]
            if kind == "Combine" and rest:
                kw.setdefault("joinString", rest.pop(0))
            if rest:
                raise TranslateError("%s: extra positional arguments (%s)" % (kind, _where(node)))
            return PNode(kind, (), kw, [child], lineno=ln)
        if kind in TOKENS:
            args = list(args)
            if kind == "oneOf":
                if not args:
                    raise TranslateError("oneOf(): no alternatives (%s)" % _where(node))
                a0 = args[0]
                if isinstance(a0, str):
                    a0 = a0.split()
                elif isinstance(a0, (list, tuple)) and all(isinstance(x, str) for x in a0):
                    a0 = list(a0)
                else:
                    raise TranslateError("oneOf: alternatives are not constant strings (%s)" % _where(node))
                if len(args) > 1:
                    kw.setdefault("caseless", args[1])
                if len(args) > 2:
                    raise TranslateError("oneOf: extra positional arguments (%s)" % _where(node))
                args = [tuple(a0)]
            if kind == "Word":
                # Word(init, body=None, min=1, max=0, exact=0, ...)
                names = ["bodyChars", "min", "max", "exact", "asKeyword", "excludeChars"]
                for nm, v in zip(names, args[1:]):
                    kw.setdefault(nm, v)
                args = args[:1]
                if "initChars" in kw and not args:
                    args = [kw.pop("initChars")]
            for a in args:
                if not isinstance(a, (str, int, float, bool, CharClass, tuple, type(None))):
                    raise TranslateError("%s: argument %r is not a constant (%s)" % (kind, a, _where(node)))
            return PNode(kind, args, kw, lineno=ln)
        raise TranslateError("pyparsing.%s is not modelled (%s)" % (kind, _where(node)))

    def _elem_method(self, elem, attr, args, kw, node):
        attr = METHOD_ALIASES.get(attr, attr)
        kw = {KW_ALIASES.get(k, k): v for k, v in kw.items()}
        if attr in ("setResultsName", "__call__"):
            vals = list(args)
            if "name" in kw:
                vals.insert(0, kw.pop("name"))
            la = kw.pop("listAllMatches", vals[1] if len(vals) > 1 else False)
            if kw or not vals or len(vals) > 2 or not isinstance(vals[0], str):
                raise TranslateError("setResultsName: unexpected arguments (%s)" % _where(node))
            nm = vals[0]
            if nm.endswith("*"):
                nm, la = nm[:-1], True
            return elem.named(nm, bool(la))
        if attr == "suppress" and not args and not kw:
            return PNode("Suppress", (), None, [elem], lineno=getattr(node, "lineno", 0))
        if attr == "copy" and not args and not kw:
            return elem.named(elem.name, elem.list_all)
        raise TranslateError("element method .%s(...) is not modelled (%s)" % (attr, _where(node)))

    # -- lookup
    def lookup(self, name, node=None):
        if name in self.vars:
            return self.vars[name]
        if name in self.pp_direct:
            return self._pp(self.pp_direct[name], node)
        if name in self.lazy:
            key = ("mod", name)
            if key in self._busy:
                raise TranslateError("cyclic definition of %s" % name)
            self._busy.add(key)
            try:
                sub = Interp.__new__(Interp)
                sub.__dict__.update(self.__dict__)
                sub.vars = {}
                v = sub.eval(self.lazy[name])
            finally:
                self._busy.discard(key)
            return v
        if name in _SAFE_BUILTINS or name in ("isinstance", "map", "filter"):
            return _Builtin(name)
        raise TranslateError("name %r is not bound to anything readable (%s)" % (name, _where(node) if node else "?"))

    # -- expressions
    def eval(self, node):
        self.depth += 1
        if self.depth > 200:
            raise TranslateError("expression too deep")
        try:
            return self._eval(node)
        except TranslateError:
            raise
        except RecursionError:
            raise TranslateError("expression too deep")
        except Exception as e:   # arithmetic on constants that raises (ZeroDivisionError, TypeError ...)
            raise TranslateError("cannot evaluate `%s` (%s): %s: %s" % (_src(node), _where(node), type(e).__name__, e))
        finally:
            self.depth -= 1

    def _eval(self, node):
        if isinstance(node, ast.Constant):
            return node.value
        if isinstance(node, ast.Name):
            return self.lookup(node.id, node)
        if isinstance(node, ast.JoinedStr):
            out = ""
            for part in node.values:
                if isinstance(part, ast.Constant):
                    out += str(part.value)
                else:
                    v = self._concrete(self.eval(part.value), part)
                    if part.conversion == ord("r"):
                        v = repr(v)
                    elif part.conversion == ord("s"):
                        v = str(v)
                    elif part.conversion == ord("a"):
                        v = ascii(v)
                    spec = self.eval(part.format_spec) if part.format_spec is not None else ""
                    out += format(v, spec)
            return out
        if isinstance(node, ast.Tuple):
            return tuple(self._elts(node.elts))
        if isinstance(node, ast.List):
            return list(self._elts(node.elts))
        if isinstance(node, ast.Set):
            return set(self._elts(node.elts))
        if isinstance(node, ast.Dict):
            d = {}
            for k, v in zip(node.keys, node.values):
                if k is None:
                    d.update(self._concrete(self.eval(v), v))
                else:
                    d[self.eval(k)] = self.eval(v)
            return d
        if isinstance(node, ast.Attribute):
            return self._attribute(node)
        if isinstance(node, ast.BinOp):
            return self._binop(type(node.op), self.eval(node.left), self.eval(node.right), node)
        if isinstance(node, ast.UnaryOp):
            v = self._concrete(self.eval(node.operand), node) if not isinstance(node.op, ast.Not) else self.eval(node.operand)
            if isinstance(node.op, ast.USub):
                return -v
            if isinstance(node.op, ast.UAdd):
                return +v
            if isinstance(node.op, ast.Invert):
                return ~v
            return not self._truth(v, node)
        if isinstance(node, ast.BoolOp):
            v = None
            for e in node.values:
                v = self.eval(e)
                t = self._truth(v, e)
                if isinstance(node.op, ast.And) and not t:
                    return v
                if isinstance(node.op, ast.Or) and t:
                    return v
            return v
        if isinstance(node, ast.Compare):
            left = self.eval(node.left)
            for op, c in zip(node.ops, node.comparators):
                right = self.eval(c)
                if isinstance(op, (ast.Is, ast.IsNot)):
                    if not (left is None or right is None):
                        raise TranslateError("identity test between non-None values (%s)" % _where(node))
                    r = _CMP[type(op)](left, right)
                else:
                    r = _CMP[type(op)](self._concrete(left, node), self._concrete(right, node))
                if not r:
                    return False
                left = right
            return True
        if isinstance(node, ast.IfExp):
            return self.eval(node.body if self._truth(self.eval(node.test), node.test) else node.orelse)
        if isinstance(node, ast.Call):
            return self._call(node)
        if isinstance(node, (ast.ListComp, ast.GeneratorExp, ast.SetComp)):
            out = []
            self._comp(node.generators, 0, lambda: out.append(self.eval(node.elt)))
            return set(out) if isinstance(node, ast.SetComp) else out
        if isinstance(node, ast.DictComp):
            out = {}
            def put():
                out[self.eval(node.key)] = self.eval(node.value)
            self._comp(node.generators, 0, put)
            return out
        if isinstance(node, ast.Subscript):
            v = self._concrete(self.eval(node.value), node, allow_elems=True)
            if isinstance(node.slice, ast.Slice):
                s = node.slice
                return v[slice(*(None if x is None else self.eval(x) for x in (s.lower, s.upper, s.step)))]
            return v[self.eval(node.slice)]
        if isinstance(node, ast.Lambda):
            a = node.args
            if a.kwarg or a.kwonlyargs or a.posonlyargs:
                raise TranslateError("lambda with ** / keyword-only parameters is not modelled (%s)" % _where(node))
            c = Closure(self, [x.arg for x in a.args], node.body, [self.eval(d) for d in a.defaults], True)
            c.vararg = a.vararg.arg if a.vararg else None
            return c
        if isinstance(node, ast.Starred):
            raise TranslateError("unexpected * expression (%s)" % _where(node))
        raise TranslateError("cannot evaluate `%s` (%s)" % (_src(node), _where(node)))

    def _elts(self, elts):
        for e in elts:
            if isinstance(e, ast.Starred):
                yield from self._concrete(self.eval(e.value), e, allow_elems=True)
            else:
                yield self.eval(e)

    def _comp(self, gens, i, emit):
        if i == len(gens):
            emit()
            return
        g = gens[i]
        if g.is_async:
            raise TranslateError("async comprehension")
        it = self._concrete(self.eval(g.iter), g.iter, allow_elems=True)
        saved = dict(self.vars) if isinstance(self.vars, dict) else None
        for v in it:
            self.bind(g.target, v)
            if all(self._truth(self.eval(c), c) for c in g.ifs):
                self._comp(gens, i + 1, emit)
        if saved is not None:   # comprehension variables are local to the comprehension
            for t in ast.walk(g.target):
                if isinstance(t, ast.Name):
                    if t.id in saved:
                        self.vars[t.id] = saved[t.id]
                    else:
                        self.vars.pop(t.id, None)

    def _truth(self, v, node):
        if isinstance(v, (PNode, CharClass, Closure)):
            return True
        if isinstance(v, _CONCRETE):
            return bool(v)
        raise TranslateError("truth value of `%s` is not known statically (%s)" % (_src(node), _where(node)))

    def _concrete(self, v, node, allow_elems=False):
        if isinstance(v, _CONCRETE):
            if not allow_elems and isinstance(v, (list, tuple)) and any(isinstance(x, PNode) for x in v):
                raise TranslateError("`%s` is a list of elements where a constant is needed (%s)" % (_src(node), _where(node)))
            return v
        raise TranslateError("`%s` is not a constant (%s)" % (_src(node), _where(node)))

    def _attribute(self, node):
        base = node.value
        if isinstance(base, ast.Name):
            if base.id in self.pp_mods and base.id not in self.vars:
                return self._pp(node.attr, node)
            if base.id in self.self_names and base.id not in self.vars:
                if node.attr in self.selfattrs:
                    return self.selfattrs[node.attr]
                m = self._method(node.attr)
                if m is not None:
                    return m
                return self.class_attr(node.attr, node)
            if base.id in [c.name for c in self.classes] and base.id not in self.vars:
                return self.class_attr(node.attr, node)
            if base.id in self.mods and base.id not in self.vars:
                return self._module_attr(self.mods[base.id], node.attr, node)
        v = self.eval(base)
        if isinstance(v, PNode):
            return _Bound(v, node.attr)
        if isinstance(v, (str, list, dict, set, tuple)):
            return _Bound(v, node.attr)
        raise TranslateError("cannot evaluate `%s` (%s)" % (_src(node), _where(node)))

    def _binop(self, op, l, r, node):
        if isinstance(l, PNode) or isinstance(r, PNode):
            if op not in OPS:
                raise TranslateError("operator %s on pyparsing elements is not modelled (%s)" % (op.__name__, _where(node)))
            return self._nary(OPS[op], [self._as_elem(l, node), self._as_elem(r, node)], node)
        if isinstance(l, CharClass) or isinstance(r, CharClass):
            if op is not ast.Add:
                raise TranslateError("character classes can only be concatenated (%s)" % _where(node))
            return l + r if isinstance(l, CharClass) else r.__radd__(l)
        l, r = self._concrete(l, node), self._concrete(r, node)
        if op is ast.Pow and isinstance(r, (int, float)) and isinstance(l, (int, float)) and abs(r) > 4096:
            raise TranslateError("exponent too large (%s)" % _where(node))
        if op in (ast.Mult, ast.LShift) and isinstance(r, int) and isinstance(l, (str, list, tuple, int)) \
                and not isinstance(l, bool) and abs(r) > 10 ** 6 and not isinstance(l, int):
            raise TranslateError("repetition too large (%s)" % _where(node))
        if op is ast.LShift and isinstance(r, int) and r > 4096:
            raise TranslateError("shift too large (%s)" % _where(node))
        if op not in _BIN:
            raise TranslateError("operator %s not modelled (%s)" % (op.__name__, _where(node)))
        return _BIN[op](l, r)

    def _call(self, node):
        args = []
        for a in node.args:
            if isinstance(a, ast.Starred):
                args += list(self._concrete(self.eval(a.value), a, allow_elems=True))
            else:
                args.append(self.eval(a))
        kw = {}
        for k in node.keywords:
            if k.arg is None:
                kw.update(self._concrete(self.eval(k.value), k.value))
            else:
                kw[k.arg] = self.eval(k.value)
        f = self.eval(node.func)
        return self.apply(f, args, kw, node)

    def apply(self, f, args, kw, node):
        if isinstance(f, _PPRef):
            return self._construct(f.attr, args, kw, node)
        if isinstance(f, PNode):
            return self._elem_method(f, "__call__", args, kw, node)
        if isinstance(f, _Bound):
            if isinstance(f.obj, PNode):
                return self._elem_method(f.obj, f.attr, args, kw, node)
            if isinstance(f.obj, str) and f.attr in _SAFE_STR_METHODS:
                cargs = [self._concrete(a, node) for a in args]
                ckw = {k: self._concrete(v, node) for k, v in kw.items()}
                return getattr(f.obj, f.attr)(*cargs, **ckw)
            if isinstance(f.obj, list) and f.attr in ("append", "extend", "insert") and not kw:
                getattr(f.obj, f.attr)(*args)
                return None
            if isinstance(f.obj, dict) and f.attr in ("get", "keys", "values", "items") and not kw:
                r = getattr(f.obj, f.attr)(*args)
                return r if f.attr == "get" else list(r)
            if isinstance(f.obj, (tuple, list)) and f.attr in ("index", "count") and not kw:
                return getattr(f.obj, f.attr)(*args)
            raise TranslateError("method .%s of %s is not modelled (%s)" % (f.attr, type(f.obj).__name__, _where(node)))
        if isinstance(f, Closure):
            return f.interp._call_closure(f, args, kw, node)
        if isinstance(f, _Builtin):
            if f.name == "reduce":
                if kw or len(args) not in (2, 3):
                    raise TranslateError("reduce: unexpected arguments (%s)" % _where(node))
                seq = list(args[1])
                if len(args) == 3:
                    seq.insert(0, args[2])
                if not seq:
                    raise TranslateError("reduce of an empty sequence (%s)" % _where(node))
                acc = seq[0]
                for x in seq[1:]:
                    acc = self.apply(args[0], [acc, x], {}, node)
                return acc
            if f.name.startswith("operator."):
                if kw or len(args) != 2:
                    raise TranslateError("%s: two operands expected (%s)" % (f.name, _where(node)))
                return self._binop(_OPERATOR_FUNCS[f.name[9:]], args[0], args[1], node)
            if f.name in ("map", "filter"):
                if kw or len(args) != 2:
                    raise TranslateError("%s: unexpected arguments (%s)" % (f.name, _where(node)))
                seq = list(self._concrete(args[1], node, allow_elems=True))
                if f.name == "map":
                    return [self.apply(args[0], [x], {}, node) for x in seq]
                return [x for x in seq if self._truth(self.apply(args[0], [x], {}, node) if args[0] is not None else x, node)]
            if f.name == "isinstance":
                raise TranslateError("isinstance() is not evaluated statically (%s)" % _where(node))
            fn = _SAFE_BUILTINS[f.name]
            elems_ok = f.name in ("list", "tuple", "reversed", "len", "enumerate", "zip")
            cargs = [self._concrete(a, node, allow_elems=elems_ok) for a in args]
            ckw = {k: self._concrete(v, node) for k, v in kw.items()}
            if f.name == "range" and cargs and max(abs(x) for x in cargs if isinstance(x, int)) > 10 ** 6:
                raise TranslateError("range too large (%s)" % _where(node))
            r = fn(*cargs, **ckw)
            if f.name in ("range", "enumerate", "zip", "reversed"):
                r = list(r)
            return r
        raise TranslateError("cannot call `%s` (%s)" % (_src(node.func) if hasattr(node, "func") else "?", _where(node)))

    def _call_closure(self, c, args, kw, node):
        frame = {}
        if len(args) > len(c.params):
            if c.vararg is None:
                raise TranslateError("too many arguments for local helper (%s)" % _where(node))
            frame[c.vararg] = tuple(args[len(c.params):])
            args = args[:len(c.params)]
        elif c.vararg is not None:
            frame[c.vararg] = ()
        nd = len(c.defaults)
        for i, p in enumerate(c.params):
            if i < len(args):
                frame[p] = args[i]
            elif p in kw:
                frame[p] = kw[p]
            elif i >= len(c.params) - nd:
                frame[p] = c.defaults[i - (len(c.params) - nd)]
            else:
                raise TranslateError("missing argument %s of local helper (%s)" % (p, _where(node)))
        if set(kw) - set(c.params):
            raise TranslateError("unexpected keyword for local helper (%s)" % _where(node))
        sub = Interp.__new__(Interp)
        sub.__dict__.update(self.__dict__)
        sub.vars = _Chain(frame, self.vars)
        if c.self_name is not None:
            sub.vars = _Chain(frame, {})          # a method sees its own locals (and the module), not the caller's
            sub.self_names = set(self.self_names) | {c.self_name}
        if c.is_expr:
            return sub.eval(c.body)
        try:
            sub.run(c.body)
        except _Return as r:
            return r.value
        return None

    # -- statements
    def bind(self, target, value, node=None):
        if isinstance(target, ast.Name):
            self.vars[target.id] = value
        elif isinstance(target, ast.Attribute) and isinstance(target.value, ast.Name) and target.value.id in self.self_names:
            self.selfattrs[target.attr] = value
        elif isinstance(target, (ast.Tuple, ast.List)):
            vals = list(value) if isinstance(value, (list, tuple)) else None
            if vals is None or len(vals) != len(target.elts) or any(isinstance(t, ast.Starred) for t in target.elts):
                raise TranslateError("cannot unpack (%s)" % _where(target))
            for t, v in zip(target.elts, vals):
                self.bind(t, v)
        elif isinstance(target, ast.Subscript):
            obj = self.eval(target.value)
            if not isinstance(obj, (list, dict)):
                raise TranslateError("item assignment on a non-constant (%s)" % _where(target))
            obj[self.eval(target.slice)] = value
        else:
            raise TranslateError("unsupported assignment target `%s` (%s)" % (_src(target), _where(target)))

    def run(self, stmts):
        for st in stmts:
            self.exec(st)

    def exec(self, st):
        if isinstance(st, ast.Assign):
            v = self.eval(st.value)
            for t in st.targets:
                self.bind(t, v)
        elif isinstance(st, ast.AnnAssign):
            if st.value is not None:
                self.bind(st.target, self.eval(st.value))
        elif isinstance(st, ast.AugAssign):
            load = ast.copy_location(_as_load(st.target), st.target)
            self.bind(st.target, self._binop(type(st.op), self.eval(load), self.eval(st.value), st))
        elif isinstance(st, ast.Expr):
            if isinstance(st.value, ast.Constant):
                return
            if isinstance(st.value, ast.Call):
                f = st.value.func
                # only mutation of a local list is a statement we understand
                if isinstance(f, ast.Attribute) and f.attr in ("append", "extend", "insert"):
                    self.eval(st.value)
                    return
            raise TranslateError("statement `%s` is not modelled (%s)" % (_src(st), _where(st)))
        elif isinstance(st, ast.If):
            self.run(st.body if self._truth(self.eval(st.test), st.test) else st.orelse)
        elif isinstance(st, ast.For):
            if st.orelse:
                raise TranslateError("for/else is not modelled (%s)" % _where(st))
            it = self._concrete(self.eval(st.iter), st.iter, allow_elems=True)
            for v in list(it):
                self.bind(st.target, v)
                try:
                    self.run(st.body)
                except _Continue:
                    continue
                except _Break:
                    break
        elif isinstance(st, ast.Continue):
            raise _Continue()
        elif isinstance(st, ast.Break):
            raise _Break()
        elif isinstance(st, (ast.Pass, ast.Assert)):
            pass            # an assertion does not build anything
        elif isinstance(st, ast.FunctionDef):
            a = st.args
            if a.kwarg or a.kwonlyargs or a.posonlyargs or st.decorator_list:
                raise TranslateError("local helper %s: signature not modelled (%s)" % (st.name, _where(st)))
            c = Closure(self, [x.arg for x in a.args], body_without_docstring(st), [self.eval(d) for d in a.defaults], False)
            c.vararg = a.vararg.arg if a.vararg else None
            self.vars[st.name] = c
        elif isinstance(st, ast.Return):
            raise _Return(self.eval(st.value) if st.value is not None else None)
        elif isinstance(st, (ast.Import, ast.ImportFrom)):
            mod = ast.Module(body=[st], type_ignores=[])
            self._scan_module(mod)
        else:
            raise TranslateError("statement `%s` is not modelled (%s)" % (_src(st).split("\n")[0], _where(st)))


class _Continue(Exception):
    pass


class _Break(Exception):
    pass


def _as_load(t):
    n = ast.parse(ast.unparse(t), mode="eval").body
    return n


class _Chain(dict):
    """local frame in front of an enclosing scope (reads fall through, writes stay local)"""

    def __init__(self, frame, outer):
        super().__init__(frame)
        self.outer = outer

    def __contains__(self, k):
        return dict.__contains__(self, k) or k in self.outer

    def __getitem__(self, k):
        if dict.__contains__(self, k):
            return dict.__getitem__(self, k)
        return self.outer[k]


class _ClassScope(dict):
    """names of a class body (evaluated on demand)"""

    def __init__(self, interp, cls):
        super().__init__()
        self.interp, self.cls = interp, cls
        self.names = set()
        for st in cls.body:
            if isinstance(st, ast.Assign):
                self.names |= {t.id for t in st.targets if isinstance(t, ast.Name)}
            elif isinstance(st, ast.AnnAssign) and isinstance(st.target, ast.Name):
                self.names.add(st.target.id)

    def __contains__(self, k):
        return k in self.names

    def __getitem__(self, k):
        return self.interp.class_attr(k)


# ------------------------------------------------------------------------------------ plain-code readers
def class_node(tree, name):
    for n in ast.walk(tree):
        if isinstance(n, ast.ClassDef) and n.name == name:
            return n
    raise TranslateError("class %s not found" % name)


def method(cls, name):
    found = None
    for st in cls.body:
        if isinstance(st, ast.FunctionDef) and st.name == name:
            found = st
    if found is None:
        raise TranslateError("function %s.%s not found" % (cls.name, name))
    return found


def body_without_docstring(fn):
    b = fn.body
    if b and isinstance(b[0], ast.Expr) and isinstance(b[0].value, ast.Constant) and isinstance(b[0].value.value, str):
        return b[1:]
    return b


def construct(module, classes, fname="construct_parser"):
    """symbolically execute <classes[0]>.<fname>; returns the interpreter (selfattrs / vars hold PNodes)"""
    fn = method(classes[0], fname)
    it = Interp(module, classes)
    if len(fn.args.args) != 1:
        raise TranslateError("%s: unexpected parameters" % fname)
    it.self_names = {fn.args.args[0].arg, "cls"}
    try:
        it.run(body_without_docstring(fn))
    except _Return as r:
        if r.value is not None:
            raise TranslateError("%s returns a value" % fname)
    except (_Continue, _Break):
        raise TranslateError("%s: stray continue/break" % fname)
    return it


class FnEnv:
    """constants and single assignments of one function (for resolving hoisted values / renamed locals)"""

    def __init__(self, fn, interp):
        self.fn = fn
        self.interp = interp
        self.assigns = {}   # name -> [value nodes]
        self.bindings = []  # (line, column, name, value node) of every `name = value`, tuple assignments split up
        for n in ast.walk(fn):
            if isinstance(n, ast.Assign):
                for t in n.targets:
                    if isinstance(t, ast.Name):
                        self.assigns.setdefault(t.id, []).append(n.value)
                        self.bindings.append((n.lineno, t.col_offset, t.id, n.value))
                    elif isinstance(t, (ast.Tuple, ast.List)) and isinstance(n.value, (ast.Tuple, ast.List)) \
                            and len(t.elts) == len(n.value.elts):
                        for a, b in zip(t.elts, n.value.elts):
                            if isinstance(a, ast.Name):
                                self.assigns.setdefault(a.id, []).append(b)
                                self.bindings.append((n.lineno, a.col_offset, a.id, b))
                    else:
                        for a in ast.walk(t):
                            if isinstance(a, ast.Name) and isinstance(a.ctx, ast.Store):
                                self.assigns.setdefault(a.id, []).append(None)
            elif isinstance(n, ast.AnnAssign) and isinstance(n.target, ast.Name) and n.value is not None:
                self.assigns.setdefault(n.target.id, []).append(n.value)
                self.bindings.append((n.lineno, n.target.col_offset, n.target.id, n.value))
            elif isinstance(n, (ast.AugAssign,)) and isinstance(n.target, ast.Name):
                self.assigns.setdefault(n.target.id, []).append(None)
            elif isinstance(n, (ast.For, ast.comprehension)):
                for a in ast.walk(n.target):
                    if isinstance(a, ast.Name):
                        self.assigns.setdefault(a.id, []).append(None)
            elif isinstance(n, ast.NamedExpr):
                self.assigns.setdefault(n.target.id, []).append(None)
            elif isinstance(n, (ast.With,)):
                for item in n.items:
                    if item.optional_vars is not None:
                        for a in ast.walk(item.optional_vars):
                            if isinstance(a, ast.Name):
                                self.assigns.setdefault(a.id, []).append(None)
        self.params = [a.arg for a in fn.args.args + fn.args.kwonlyargs]
        self.bindings.sort(key=lambda b: b[:2])

    def single(self, name):
        """the value node of a local assigned exactly once (and not a parameter), else None"""
        if name in self.params:
            return None
        v = self.assigns.get(name)
        if v and len(v) == 1 and v[0] is not None:
            return v[0]
        return None

    def resolve(self, node, depth=0):
        """follow `x` -> the expression x was (once) assigned, transitively"""
        while isinstance(node, ast.Name) and depth < 20:
            v = self.single(node.id)
            if v is None:
                break
            node, depth = v, depth + 1
        return node

    def const(self, node, bindings=None):
        """constant value of an expression; locals assigned once are looked through"""
        it = Interp.__new__(Interp)
        it.__dict__.update(self.interp.__dict__)
        it.vars = _FnScope(self, it, dict(bindings or {}), self.interp.vars)
        return it.eval(node)

    def try_const(self, node, bindings=None):
        try:
            return True, self.const(node, bindings)
        except TranslateError:
            return False, None


class _FnScope(dict):
    def __init__(self, fenv, interp, bindings, outer):
        super().__init__(bindings)
        self.fenv, self.interp, self.outer = fenv, interp, outer
        self.busy = set()

    def __contains__(self, k):
        return dict.__contains__(self, k) or self.fenv.single(k) is not None or k in self.outer

    def __getitem__(self, k):
        if dict.__contains__(self, k):
            return dict.__getitem__(self, k)
        v = self.fenv.single(k)
        if v is not None:
            if k in self.busy:
                raise TranslateError("cyclic local %s" % k)
            self.busy.add(k)
            try:
                return self.interp.eval(v)
            finally:
                self.busy.discard(k)
        return self.outer[k]


def const_strings(fn, fenv):
    """values of the maximal constant string expressions written in a function (`"a" "b"`, `"a" + "b"`, `"%s" % "a"`
    count once, as their value); the docstring is not one of them"""
    out = []

    def visit(node):
        if isinstance(node, ast.expr) and not isinstance(node, (ast.Name, ast.Attribute)) \
                and any(isinstance(x, ast.Constant) and isinstance(x.value, str) for x in ast.walk(node)):
            ok, v = fenv.try_const(node)
            if ok and isinstance(v, str):
                out.append(v)
                return
        for c in ast.iter_child_nodes(node):
            visit(c)

    for st in body_without_docstring(fn):
        visit(st)
    return out


def linear(node, fenv, bindings=None):
    """integer linear form of an expression: ({atom source: coefficient}, constant).
    Atoms are whatever is not +,-,unary -, a constant, or a local assigned once (looked through)."""
    terms, const = {}, 0

    def go(e, sign):
        nonlocal const
        if isinstance(e, ast.BinOp) and isinstance(e.op, (ast.Add, ast.Sub)):
            go(e.left, sign)
            go(e.right, sign if isinstance(e.op, ast.Add) else -sign)
            return
        if isinstance(e, ast.UnaryOp) and isinstance(e.op, (ast.USub, ast.UAdd)):
            go(e.operand, -sign if isinstance(e.op, ast.USub) else sign)
            return
        ok, v = fenv.try_const(e, bindings)
        if ok and isinstance(v, int) and not isinstance(v, bool):
            const += sign * v
            return
        if isinstance(e, ast.Name):
            r = fenv.single(e.id)
            if r is not None and not (bindings and e.id in bindings):
                go(r, sign)
                return
        key = ast.unparse(e)
        terms[key] = terms.get(key, 0) + sign
        if terms[key] == 0:
            del terms[key]

    go(node, 1)
    return terms, const


def is_call(node, attr=None, name=None):
    if not isinstance(node, ast.Call):
        return False
    if attr is not None:
        attrs = (attr,) if isinstance(attr, str) else attr
        return isinstance(node.func, ast.Attribute) and node.func.attr in attrs
    if name is not None:
        return isinstance(node.func, ast.Name) and node.func.id == name
    return True


def blank_test(test, fenv):
    """`<x>.strip() == ""` and its equivalents -> (x node, method, True if the test holds for BLANK lines)"""
    neg = False
    while isinstance(test, ast.UnaryOp) and isinstance(test.op, ast.Not):
        test, neg = test.operand, not neg
    test = fenv.resolve(test)
    call, blank_when = None, None
    if isinstance(test, ast.Compare) and len(test.ops) == 1:
        l, r, op = test.left, test.comparators[0], test.ops[0]
        for a, b in ((l, r), (r, l)):
            a = fenv.resolve(a)
            okb, vb = fenv.try_const(b)
            if not okb:
                continue
            if is_call(a, ("strip", "lstrip", "rstrip")) and not a.args and not a.keywords and vb == "":
                if isinstance(op, ast.Eq):
                    call, blank_when = a, True
                elif isinstance(op, ast.NotEq):
                    call, blank_when = a, False
            elif is_call(a, name="len") and len(a.args) == 1 and vb == 0 and not isinstance(vb, bool):
                inner = fenv.resolve(a.args[0])
                if is_call(inner, ("strip", "lstrip", "rstrip")) and not inner.args and not inner.keywords:
                    if isinstance(op, ast.Eq):
                        call, blank_when = inner, True
                    elif isinstance(op, (ast.NotEq,)) or (isinstance(op, ast.Gt) and a is fenv.resolve(l)) \
                            or (isinstance(op, ast.Lt) and a is fenv.resolve(r)):
                        call, blank_when = inner, False
            if call is not None:
                break
    elif is_call(test, ("strip", "lstrip", "rstrip")) and not test.args and not test.keywords:
        call, blank_when = test, False     # truthy = non-blank
    elif is_call(test, ("isspace",)):
        call = None                        # "".isspace() is False: not the same test
    if call is None:
        return None
    return call.func.value, call.func.attr, (blank_when != neg)


def read_parse_file(fn, interp):
    """BaseParser.parse_file, as a loop or as a comprehension.

    Returns dict(sep, enum_start, const, terms, blank, line_is_element): the text is split at `sep` (a plain
    `<parameter>.split(sep)`), the pieces are enumerated from `enum_start`, pieces whose `.blank()` is ""
    are skipped *inside* the enumeration (so they are counted), every other piece is passed to
    `self.parse_line(<piece>, <index> + const + <terms>)` and the results are returned in order.
    Terms are named canonically: the enumeration index is `i`, parameters keep their names."""
    fenv = FnEnv(fn, interp)
    params = [a.arg for a in fn.args.args]
    if len(params) < 2:
        raise TranslateError("parse_file: unexpected parameters")
    selfname, textparam = params[0], params[1]

    def is_parse_line(c):
        return is_call(c, "parse_line") and isinstance(c.func.value, ast.Name) and c.func.value.id == selfname

    calls = [n for n in ast.walk(fn) if is_parse_line(n)]
    if len(calls) != 1:
        raise TranslateError("parse_file: expected exactly one self.parse_line(...) call, found %d" % len(calls))
    call = calls[0]
    if len(call.args) != 2 or call.keywords:
        if len(call.args) == 1 and len(call.keywords) == 1 and call.keywords[0].arg == "line_number":
            a_line, a_no = call.args[0], call.keywords[0].value
        else:
            raise TranslateError("parse_file: parse_line(line, number) expected")
    else:
        a_line, a_no = call.args

    # the iteration that contains the call: a for statement or a comprehension
    parents = {}
    for p in ast.walk(fn):
        for c in ast.iter_child_nodes(p):
            parents[c] = p
    chain = []
    n = call
    while n in parents:
        n = parents[n]
        chain.append(n)
    conds = []
    acc_name = None
    result_ok = False
    it_node = None
    for k, n in enumerate(chain):
        if isinstance(n, (ast.ListComp, ast.GeneratorExp)):
            if len(n.generators) != 1 or n.elt is not call:
                raise TranslateError("parse_file: comprehension shape not understood")
            g = n.generators[0]
            conds += [(c, True) for c in g.ifs]
            it_node = (g.target, g.iter)
            # what happens to the comprehension: returned (possibly via list(...) or a single local)
            outer = chain[k + 1] if k + 1 < len(chain) else None
            if isinstance(n, ast.GeneratorExp):
                if not (is_call(outer, name="list") and len(outer.args) == 1):
                    raise TranslateError("parse_file: generator must be turned into a list")
                outer = chain[k + 2] if k + 2 < len(chain) else None
            if isinstance(outer, ast.Return):
                result_ok = True
            elif isinstance(outer, ast.Assign) and len(outer.targets) == 1 and isinstance(outer.targets[0], ast.Name):
                acc_name = outer.targets[0].id
                if fenv.single(acc_name) is None:
                    raise TranslateError("parse_file: result list is reassigned")
            else:
                raise TranslateError("parse_file: result of the comprehension is not returned")
            break
        if isinstance(n, ast.For):
            it_node = (n.target, n.iter)
            if n.orelse:
                raise TranslateError("parse_file: for/else")
            # path from the loop body to the call: enclosing ifs and preceding guard clauses
            inner = chain[:k]
            # the statement holding the call must be `<acc>.append(call)` (or acc += [call])
            holder = None
            for x in inner:
                if isinstance(x, (ast.Expr, ast.AugAssign)):
                    holder = x
            if isinstance(holder, ast.Expr) and is_call(holder.value, "append") and holder.value.args == [call] \
                    and isinstance(holder.value.func.value, ast.Name):
                acc_name = holder.value.func.value.id
            elif isinstance(holder, ast.AugAssign) and isinstance(holder.op, ast.Add) and isinstance(holder.target, ast.Name) \
                    and isinstance(holder.value, ast.List) and holder.value.elts == [call]:
                acc_name = holder.target.id
            else:
                raise TranslateError("parse_file: the parsed line is not appended to a result list")
            # conditions: walk block structure from loop body down to holder
            block = n.body
            path = [x for x in reversed(inner) if isinstance(x, ast.stmt)]
            for s in path:
                idx = None
                for j, b in enumerate(block):
                    if b is s:
                        idx = j
                if idx is None:
                    raise TranslateError("parse_file: loop structure not understood")
                for b in block[:idx]:
                    if isinstance(b, ast.If) and not b.orelse and len(b.body) == 1 and isinstance(b.body[0], ast.Continue):
                        conds.append((b.test, False))
                    elif isinstance(b, (ast.Assign, ast.AnnAssign)) and not any(is_parse_line(z) for z in ast.walk(b)):
                        pass      # hoisted sub-expression; looked through by FnEnv if assigned once
                    elif isinstance(b, ast.Expr) and isinstance(b.value, ast.Constant):
                        pass
                    else:
                        raise TranslateError("parse_file: statement `%s` in the loop is not understood" % _src(b).split("\n")[0])
                for b in block[idx + 1:]:
                    if not isinstance(b, (ast.Continue, ast.Pass)):
                        raise TranslateError("parse_file: statement `%s` after the append is not understood" % _src(b).split("\n")[0])
                if isinstance(s, ast.If):
                    nxt = path[path.index(s) + 1] if path.index(s) + 1 < len(path) else None
                    if nxt is not None and any(nxt is b for b in s.body):
                        conds.append((s.test, True))
                        if s.orelse and not all(isinstance(b, (ast.Continue, ast.Pass)) for b in s.orelse):
                            raise TranslateError("parse_file: else branch in the loop is not understood")
                        block = s.body
                    elif nxt is not None and any(nxt is b for b in s.orelse):
                        conds.append((s.test, False))
                        if not all(isinstance(b, (ast.Continue, ast.Pass)) for b in s.body):
                            raise TranslateError("parse_file: if branch in the loop is not understood")
                        block = s.orelse
                    else:
                        raise TranslateError("parse_file: loop structure not understood")
                elif s is not holder:
                    raise TranslateError("parse_file: `%s` around the append is not understood" % type(s).__name__)
            break
        if isinstance(n, (ast.While, ast.FunctionDef, ast.Lambda, ast.Try)) and n is not fn:
            raise TranslateError("parse_file: %s around parse_line is not understood" % type(n).__name__)
    if it_node is None:
        raise TranslateError("parse_file: no loop or comprehension around parse_line")

    # the accumulator must start empty and be what is returned
    if not result_ok:
        rets = [r for r in ast.walk(fn) if isinstance(r, ast.Return)]
        if len(rets) != 1 or not isinstance(rets[0].value, ast.Name) or rets[0].value.id != acc_name:
            raise TranslateError("parse_file: the result list is not what is returned")
        is_loop = any(isinstance(n, ast.For) for n in chain)
        if is_loop:
            ini = fenv.assigns.get(acc_name, [])
            if len(ini) != 1 or ini[0] is None or not (
                    (isinstance(ini[0], ast.List) and not ini[0].elts)
                    or (is_call(ini[0], name="list") and not ini[0].args and not ini[0].keywords)):
                raise TranslateError("parse_file: the result list does not start empty")
        # nothing else may touch the accumulator
        uses = [x for x in ast.walk(fn) if isinstance(x, ast.Name) and x.id == acc_name]
        if len(uses) != 3 - (0 if any(isinstance(n, ast.For) for n in chain) else 1):
            raise TranslateError("parse_file: the result list is used in an unexpected way")

    target, iter_node = it_node
    iter_node = fenv.resolve(iter_node)
    start_node = None
    if is_call(iter_node, name="enumerate"):
        if not (isinstance(target, ast.Tuple) and len(target.elts) == 2 and all(isinstance(e, ast.Name) for e in target.elts)):
            raise TranslateError("parse_file: enumerate target is not `index, line`")
        ivar, lvar = target.elts[0].id, target.elts[1].id
        if len(iter_node.args) > 2 or not iter_node.args:
            raise TranslateError("parse_file: enumerate arguments")
        start_node = iter_node.args[1] if len(iter_node.args) == 2 else None
        for kw in iter_node.keywords:
            if kw.arg == "start" and start_node is None:
                start_node = kw.value
            else:
                raise TranslateError("parse_file: enumerate keyword %s" % kw.arg)
        seq = fenv.resolve(iter_node.args[0])

        def is_element(e):
            e = fenv.resolve(e)
            return isinstance(e, ast.Name) and e.id == lvar
    elif is_call(iter_node, name="range") and len(iter_node.args) == 1 and not iter_node.keywords \
            and is_call(fenv.resolve(iter_node.args[0]), name="len") and isinstance(target, ast.Name):
        # for i in range(len(lines)): ... lines[i] ...
        ln = fenv.resolve(iter_node.args[0])
        if len(ln.args) != 1:
            raise TranslateError("parse_file: len() arguments")
        ivar = target.id
        seq = fenv.resolve(ln.args[0])

        def is_element(e):
            e = fenv.resolve(e)
            return isinstance(e, ast.Subscript) and isinstance(e.slice, ast.Name) and e.slice.id == ivar \
                and ast.dump(fenv.resolve(e.value)) == ast.dump(seq)
    else:
        raise TranslateError("parse_file: iteration is not over enumerate(...)")
    enum_start = 0
    start_terms = {}
    if start_node is not None:
        start_terms, enum_start = linear(start_node, fenv)
    # <text parameter>.split(<sep>) -- directly, nothing filtered or stripped before
    if not (is_call(seq, "split") and isinstance(seq.func.value, ast.Name) and seq.func.value.id == textparam
            and fenv.single(textparam) is None and textparam not in fenv.assigns):
        raise TranslateError("parse_file: lines are not `%s.split(<sep>)` (found `%s`)" % (textparam, _src(seq)))
    sep_nodes = list(seq.args) + [k.value for k in seq.keywords if k.arg == "sep"]
    if len(sep_nodes) != 1 or len(seq.args) + len(seq.keywords) != 1:
        raise TranslateError("parse_file: split(<sep>) with one argument expected")
    sep = fenv.const(sep_nodes[0])
    if not isinstance(sep, str):
        raise TranslateError("parse_file: split separator is not a string")

    # the single condition: the piece is not blank
    if len(conds) != 1:
        raise TranslateError("parse_file: expected exactly one blank-line condition, found %d" % len(conds))
    test, must_hold = conds[0]
    bt = blank_test(test, fenv)
    if bt is None:
        raise TranslateError("parse_file: blank-line test `%s` not understood" % _src(test))
    subject, meth, holds_for_blank = bt
    if not is_element(subject):
        raise TranslateError("parse_file: blank-line test is not about the line")
    if holds_for_blank == must_hold:
        raise TranslateError("parse_file: blank lines are parsed and the others skipped")

    line_is_element = is_element(a_line)
    terms, const = linear(a_no, fenv)
    if terms.get(ivar) != 1:
        raise TranslateError("parse_file: line number is not <index> + ... (found `%s`)" % _src(a_no))
    # the index may be used for nothing else
    iuses = [x for x in ast.walk(fn) if isinstance(x, ast.Name) and x.id == ivar and isinstance(x.ctx, ast.Load)
             and not isinstance(parents.get(x), ast.Subscript)]      # `lines[i]` of the index form is the element
    no_uses = [x for x in ast.walk(a_no) if isinstance(x, ast.Name) and x.id == ivar]
    only_number = len(iuses) == len(no_uses) or all(
        any(x is y for y in ast.walk(fenv.resolve(a_no))) for x in iuses)
    out_terms = []
    for t, c in sorted(terms.items()):
        if t == ivar:
            continue
        if c != 1 or t not in params or t in fenv.assigns:
            raise TranslateError("parse_file: unexpected term %s*%s in the line number" % (c, t))
        out_terms.append(t)
    # enumerate(lines, s) with `i + c`  ==  enumerate(lines) with `i + (s + c)` when i is only the number
    for t, c in sorted(start_terms.items()):
        if c != 1 or t not in params or t in fenv.assigns or not only_number:
            raise TranslateError("parse_file: unexpected enumerate start")
        out_terms.append(t)
    if enum_start != 0:
        if not only_number:
            raise TranslateError("parse_file: enumerate start with other uses of the index")
        const, enum_start = const + enum_start, 0
    if len(set(out_terms)) != len(out_terms):
        raise TranslateError("parse_file: repeated term in the line number")
    return dict(sep=sep, enum_start=enum_start, const=const, terms=sorted(["i"] + out_terms), blank=meth,
                line_is_element=line_is_element, params=params)


def keyed_blocks(fn, fenv, container=None, want=None):
    """[(key, [used keys])] in execution order for the blocks guarded by `key in <container>`:
    `if "k" in d: ...`, the same inside a loop over a constant table of keys (unrolled; keys may be built with
    %-formatting, .format or f-strings from the loop variable), `if "k" not in d: continue` guard clauses,
    and comprehensions `[f(d[k]) for k in KEYS if k in d]`.  `used` are the constant keys with which the
    container is subscripted inside the block.  `want(nodes)` selects the blocks of interest."""
    class _Out(list):
        def append(self, item):
            if item[2] is None or want is None or want(item[2]):
                list.append(self, item[:2])
    out = _Out()

    def in_test(test, b):
        neg = False
        while isinstance(test, ast.UnaryOp) and isinstance(test.op, ast.Not):
            test, neg = test.operand, not neg
        if isinstance(test, ast.Compare) and len(test.ops) == 1 and isinstance(test.ops[0], (ast.In, ast.NotIn)):
            ok, key = fenv.try_const(test.left, b)
            cont = test.comparators[0]
            if ok and isinstance(key, str) and isinstance(cont, ast.Name) and (container is None or cont.id == container):
                return key, cont.id, isinstance(test.ops[0], ast.In) != neg
        return None

    def used_keys(nodes, cont, b):
        used = []
        for st in nodes:
            subs = [s for s in ast.walk(st) if isinstance(s, ast.Subscript) and isinstance(s.value, ast.Name)
                    and s.value.id == cont]
            subs.sort(key=lambda s: (s.lineno, s.col_offset))
            for s in subs:
                ok, k = fenv.try_const(s.slice, b)
                if ok and isinstance(k, str):
                    used.append(k)
                else:
                    used.append("?" + _src(s.slice))
        return used

    def comps(st, b):
        for c in ast.walk(st):
            if isinstance(c, (ast.ListComp, ast.GeneratorExp)) and len(c.generators) == 1:
                g = c.generators[0]
                ok, vals = fenv.try_const(g.iter, b)
                if not ok or not isinstance(vals, (list, tuple, range)) or not isinstance(g.target, ast.Name):
                    continue
                for v in vals:
                    b2 = dict(b)
                    b2[g.target.id] = v
                    hit = [in_test(t, b2) for t in g.ifs]
                    if len(hit) == 1 and hit[0] and hit[0][2]:
                        out.append((hit[0][0], used_keys([c.elt], hit[0][1], b2), [c.elt]))

    def go(stmts, b):
        for idx, st in enumerate(stmts):
            if isinstance(st, ast.For):
                ok, vals = fenv.try_const(st.iter, b)
                if ok and isinstance(vals, (list, tuple, range)) and isinstance(st.target, ast.Name) and not st.orelse:
                    for v in vals:
                        b2 = dict(b)
                        b2[st.target.id] = v
                        go(st.body, b2)
                    continue
                go(st.body, b)
                go(st.orelse, b)
            elif isinstance(st, ast.If):
                m = in_test(st.test, b)
                if m and m[2]:
                    out.append((m[0], used_keys(st.body, m[1], b), st.body))
                    go(st.orelse, b)
                elif m and not m[2] and st.body and isinstance(st.body[-1], (ast.Continue, ast.Return, ast.Break)) \
                        and len(st.body) == 1 and not st.orelse:
                    rest = stmts[idx + 1:]
                    # the rest of the block runs only with the key present
                    inner = []
                    for r in rest:
                        if isinstance(r, ast.If) and in_test(r.test, b):
                            break
                        inner.append(r)
                    out.append((m[0], used_keys(inner, m[1], b), inner))
                    go(rest[len(inner):], b)
                    return
                elif m and not m[2] and st.orelse:
                    out.append((m[0], used_keys(st.orelse, m[1], b), st.orelse))
                    go(st.body, b)
                else:
                    go(st.body, b)
                    go(st.orelse, b)
            elif isinstance(st, (ast.While, ast.With)):
                go(st.body, b)
            elif isinstance(st, ast.Try):
                go(st.body, b)
                for h in st.handlers:
                    go(h.body, b)
                go(st.orelse, b)
                go(st.finalbody, b)
            else:
                comps(st, b)

    go(body_without_docstring(fn), {})
    return list(out)
