"""Shared AST helpers of the G1 plug-ins (cacheconsts, workers, importconsts, consts).

The plug-ins read *values and shapes*, not spellings.  This module supplies

  * scopes (`FnScope`, `ClsScope`, `ModScope`): which expression a name / `self.X` / `Class.X` /
    `module.X` is bound to (a name counts as bound only if it has exactly ONE plain assignment in
    its scope and no other binding form; anything else is opaque),
  * `Scope.ev`: a constant-expression evaluator (literals, arithmetic, `10 ** 3`, `1e-1`, string
    concatenation / `%` / `.format` / f-strings of constants, tuples/lists/sets/dicts, subscripts,
    `range`, a white-list of pure builtins and str methods, names and attributes resolved through
    the scopes; also through `from osaca.x import NAME` / `import osaca.x as m`),
  * `Scope.deref`: follow a local name to the expression it was bound to (hoisted sub-expressions,
    renamed locals),
  * `template_parts`: one normal form for `a + "x" + b`, `"%sx%s" % (a, b)`, `"{}x{}".format(a, b)`,
    `f"{a}x{b}"`, `"x".join([a, b])`,
  * `path_conditions`: what is known to hold where a node is evaluated (enclosing `if`/`else`,
    conditional expressions, `and`/`or` short-circuit, guard clauses with early exit, De Morgan),
  * `comp_view`: list comprehension or the equivalent `xs = []; for ..: xs.append(..)` loop,
  * `split_if_else`: `if c: A else: B`  ==  `if c: A; <exit>` followed by B.

Nothing here catches-all: what cannot be interpreted raises `NotConst` / `TranslateError`, which the
translator records as a failed generator.  No module of the analysed repository is imported or
executed; everything is read from the AST.  (Limit that follows: an attribute inherited from a base
class, or a value computed at import time by a function call outside the white-list, is opaque.)
"""
import ast
import os
import string

import translate as T
from translate import TranslateError


class NotConst(TranslateError):
    """The expression is not a constant the evaluator can read."""


# --------------------------------------------------------------------------- generic tree helpers
def parents(tree):
    par = {}
    for node in ast.walk(tree):
        for ch in ast.iter_child_nodes(node):
            par[ch] = node
    return par


def contains(root, node):
    return any(n is node for n in ast.walk(root))


def same(a, b):
    """structural equality of two expressions (positions ignored)"""
    return ast.dump(a) == ast.dump(b)


def walk_scope(node):
    """ast.walk that does not enter nested function / class / lambda bodies (other scopes)."""
    todo = list(ast.iter_child_nodes(node))
    while todo:
        n = todo.pop()
        yield n
        if isinstance(n, (ast.FunctionDef, ast.AsyncFunctionDef, ast.ClassDef, ast.Lambda)):
            continue
        todo.extend(ast.iter_child_nodes(n))


def call_name(n):
    """`f(...)` -> "f", `x.f(...)` -> "f", otherwise None"""
    if isinstance(n, ast.Call):
        if isinstance(n.func, ast.Attribute):
            return n.func.attr
        if isinstance(n.func, ast.Name):
            return n.func.id
    return None


def is_exit(stmt):
    return isinstance(stmt, (ast.Return, ast.Raise, ast.Continue, ast.Break))


def always_exits(stmts):
    """does this statement list always leave the enclosing block (return/raise/continue/break)?"""
    if not stmts:
        return False
    last = stmts[-1]
    if is_exit(last):
        return True
    if isinstance(last, ast.If) and last.orelse:
        return always_exits(last.body) and always_exits(last.orelse)
    return False


# --------------------------------------------------------------------------- bindings
def _bind_target(out, target, value, stmt):
    if isinstance(target, ast.Name):
        out.setdefault(target.id, []).append(("assign" if value is not None else "other", value, stmt))
    elif isinstance(target, (ast.Tuple, ast.List)):
        if isinstance(value, (ast.Tuple, ast.List)) and len(value.elts) == len(target.elts) \
                and not any(isinstance(e, ast.Starred) for e in list(value.elts) + list(target.elts)):
            for t, v in zip(target.elts, value.elts):
                _bind_target(out, t, v, stmt)
        else:
            for t in target.elts:
                _bind_target(out, t.value if isinstance(t, ast.Starred) else t, None, stmt)
    # attribute / subscript targets bind no name


def collect_bindings(owner, body=None):
    """name -> [(kind, value, stmt)] for one scope; kind 'assign' (plain `name = value`), 'param',
    or 'other' (loop target, augmented assignment, import, with/except alias, del, global ...)."""
    out = {}
    if isinstance(owner, (ast.FunctionDef, ast.AsyncFunctionDef)):
        a = owner.args
        for arg in list(a.posonlyargs) + list(a.args) + list(a.kwonlyargs) + [a.vararg, a.kwarg]:
            if arg is not None:
                out.setdefault(arg.arg, []).append(("param", None, owner))
    for n in walk_scope(owner):
        if isinstance(n, ast.Assign):
            for t in n.targets:
                _bind_target(out, t, n.value, n)
        elif isinstance(n, ast.AnnAssign):
            _bind_target(out, n.target, n.value, n)
        elif isinstance(n, ast.AugAssign):
            _bind_target(out, n.target, None, n)
        elif isinstance(n, (ast.For, ast.AsyncFor)):
            _bind_target(out, n.target, None, n)
        elif isinstance(n, ast.comprehension):
            pass  # comprehension targets live in their own scope
        elif isinstance(n, (ast.With, ast.AsyncWith)):
            for it in n.items:
                if it.optional_vars is not None:
                    _bind_target(out, it.optional_vars, None, n)
        elif isinstance(n, ast.ExceptHandler) and n.name:
            out.setdefault(n.name, []).append(("other", None, n))
        elif isinstance(n, (ast.Import, ast.ImportFrom)):
            for al in n.names:
                nm = al.asname or al.name.split(".")[0]
                out.setdefault(nm, []).append(("import", n, al))
        elif isinstance(n, ast.NamedExpr):
            _bind_target(out, n.target, None, n)
        elif isinstance(n, ast.Delete):
            for t in n.targets:
                _bind_target(out, t, None, n)
        elif isinstance(n, (ast.Global, ast.Nonlocal)):
            for nm in n.names:
                out.setdefault(nm, []).append(("other", None, n))
        elif isinstance(n, (ast.FunctionDef, ast.AsyncFunctionDef, ast.ClassDef)):
            out.setdefault(n.name, []).append(("def", n, n))
    return out


_MODS = {}


def mod_scope(rel):
    key = (T.REPO, rel)
    if key not in _MODS:
        _MODS[key] = ModScope(rel)
    return _MODS[key]


def reset_cache():
    _MODS.clear()
    _STORES.clear()


class Scope:
    """Common part: evaluation and dereferencing relative to a scope."""
    parent = None
    cls_scope = None
    bind = {}

    # -- names
    def single(self, name):
        """the one plain assignment of `name` in this scope -> value node; None if absent;
        raises NotConst if the name is bound in any other way here"""
        b = self.bind.get(name)
        if b is None:
            return None
        if len(b) == 1 and b[0][0] == "assign":
            return b[0][1]
        raise NotConst("%s: name %r is not bound by exactly one plain assignment" % (self.where(), name))

    def lookup(self, name):
        """-> (value node, scope to evaluate it in) | None (parameter, opaque, builtin, unknown)"""
        sc = self
        while sc is not None:
            b = sc.bind.get(name)
            if b is not None:
                if len(b) == 1 and b[0][0] == "assign":
                    return b[0][1], sc
                if len(b) == 1 and b[0][0] == "import":
                    return sc._imported(b[0][1], b[0][2])
                return None
            sc = sc.parent
        return None

    def is_param(self, name):
        b = self.bind.get(name)
        return bool(b) and len(b) == 1 and b[0][0] == "param"

    def _imported(self, stmt, alias):
        """`from osaca.utils import CACHE_DIR` -> that module's binding;  `import x.y as m` / `from x import y`
        (a module) -> ("module", ModScope)"""
        mod = self.module()
        if isinstance(stmt, ast.ImportFrom):
            base = _resolve_module(mod.rel, stmt.module, stmt.level)
            if base is None:
                return None
            sub = _module_file(base + [alias.name])
            if sub is not None:
                return ("module", mod_scope(sub)), None
            f = _module_file(base)
            if f is None:
                return None
            return mod_scope(f).lookup(alias.name)
        if alias.asname:
            f = _module_file(alias.name.split("."))
            if f is not None:
                return ("module", mod_scope(f)), None
        return None

    def module(self):
        sc = self
        while sc.parent is not None:
            sc = sc.parent
        return sc

    def where(self):
        return "?"

    # -- attributes: self.X / cls.X / Class.X / module.X
    def attr_binding(self, node):
        """-> (value node, scope) for a resolvable `X.attr`, else None"""
        if not (isinstance(node, ast.Attribute) and isinstance(node.value, ast.Name)):
            return None
        base = node.value.id
        cs = self.cls_scope
        if cs is not None and (base == cs.node.name or (base in ("self", "cls") and self.is_param(base))):
            return cs.class_attr(node.attr)
        r = self.lookup(base)
        if r is not None and isinstance(r[0], tuple) and r[0][0] == "module":
            return r[0][1].lookup(node.attr)
        # Class.X from outside the class (same module)
        m = self.module()
        b = m.bind.get(base)
        if b and len(b) == 1 and b[0][0] == "def" and isinstance(b[0][1], ast.ClassDef):
            return ClsScope(m, b[0][1]).class_attr(node.attr)
        return None

    def deref(self, node, depth=0):
        """Follow names (and class/module attributes) to the expression they are bound to."""
        if depth > 20:
            raise NotConst("%s: cyclic name binding" % self.where())
        if isinstance(node, ast.Name):
            r = self.lookup(node.id)
            if r is not None and isinstance(r[0], ast.AST) and r[1] is self:
                return self.deref(r[0], depth + 1)
        return node

    # -- constant evaluation
    def ev(self, node, depth=0):
        if depth > 40:
            raise NotConst("%s: expression too deep / cyclic" % self.where())
        d = depth + 1
        if isinstance(node, ast.Constant):
            return node.value
        if isinstance(node, ast.Name):
            if node.id in ("True", "False", "None"):
                return {"True": True, "False": False, "None": None}[node.id]
            r = self.lookup(node.id)
            if r is None or not isinstance(r[0], ast.AST):
                raise NotConst("%s: name %r is not a constant (line %s)" % (self.where(), node.id, getattr(node, "lineno", "?")))
            return r[1].ev(r[0], d)
        if isinstance(node, ast.Attribute):
            r = self.attr_binding(node)
            if r is None or not isinstance(r[0], ast.AST):
                raise NotConst("%s: attribute %s is not a constant" % (self.where(), ast.unparse(node)))
            return r[1].ev(r[0], d)
        if isinstance(node, ast.UnaryOp):
            v = self.ev(node.operand, d)
            try:
                if isinstance(node.op, ast.USub):
                    return -v
                if isinstance(node.op, ast.UAdd):
                    return +v
                if isinstance(node.op, ast.Not):
                    return not v
                if isinstance(node.op, ast.Invert):
                    return ~v
            except TypeError as e:
                raise NotConst(str(e))
        if isinstance(node, ast.BinOp):
            a, b = self.ev(node.left, d), self.ev(node.right, d)
            return _binop(node.op, a, b)
        if isinstance(node, ast.BoolOp):
            vals = [self.ev(v, d) for v in node.values]
            res = vals[0]
            for v in vals[1:]:
                if isinstance(node.op, ast.And):
                    res = res and v
                else:
                    res = res or v
            return res
        if isinstance(node, ast.Compare):
            left = self.ev(node.left, d)
            for op, c in zip(node.ops, node.comparators):
                right = self.ev(c, d)
                if not _compare(op, left, right):
                    return False
                left = right
            return True
        if isinstance(node, ast.IfExp):
            return self.ev(node.body, d) if self.ev(node.test, d) else self.ev(node.orelse, d)
        if isinstance(node, (ast.Tuple, ast.List, ast.Set)):
            items = []
            for e in node.elts:
                if isinstance(e, ast.Starred):
                    items.extend(self.ev(e.value, d))
                else:
                    items.append(self.ev(e, d))
            if isinstance(node, ast.Tuple):
                return tuple(items)
            if isinstance(node, ast.List):
                return items
            return frozenset(items)
        if isinstance(node, ast.Dict):
            out = {}
            for k, v in zip(node.keys, node.values):
                if k is None:
                    out.update(self.ev(v, d))
                else:
                    out[self.ev(k, d)] = self.ev(v, d)
            return out
        if isinstance(node, ast.JoinedStr):
            s = ""
            for p in node.values:
                if isinstance(p, ast.Constant):
                    s += p.value
                else:
                    v = self.ev(p.value, d)
                    if p.conversion == 115:
                        v = str(v)
                    elif p.conversion == 114:
                        v = repr(v)
                    elif p.conversion == 97:
                        v = ascii(v)
                    spec = self.ev(p.format_spec, d) if p.format_spec is not None else ""
                    s += format(v, spec)
            return s
        if isinstance(node, ast.Subscript):
            v = self.ev(node.value, d)
            sl = node.slice
            try:
                if isinstance(sl, ast.Slice):
                    lo = None if sl.lower is None else self.ev(sl.lower, d)
                    hi = None if sl.upper is None else self.ev(sl.upper, d)
                    st = None if sl.step is None else self.ev(sl.step, d)
                    return v[lo:hi:st]
                return v[self.ev(sl, d)]
            except (TypeError, KeyError, IndexError) as e:
                raise NotConst("%s: %s" % (type(e).__name__, e))
        if isinstance(node, ast.Call):
            return self._ev_call(node, d)
        raise NotConst("%s: not a constant expression: %s (line %s)"
                       % (self.where(), ast.unparse(node)[:60], getattr(node, "lineno", "?")))

    _PURE = {"int": int, "float": float, "str": str, "bool": bool, "len": len, "abs": abs, "round": round,
             "min": min, "max": max, "sum": sum, "pow": pow, "divmod": divmod, "range": range, "tuple": tuple,
             "list": list, "set": frozenset, "frozenset": frozenset, "sorted": sorted, "dict": dict, "chr": chr,
             "ord": ord, "repr": repr, "reversed": lambda x: list(reversed(x)), "hex": hex, "bin": bin, "oct": oct}
    _STR_METHODS = ("format", "join", "upper", "lower", "strip", "lstrip", "rstrip", "replace", "split",
                    "zfill", "ljust", "rjust", "center", "title", "capitalize", "encode", "startswith", "endswith")

    def _ev_call(self, node, d):
        args = []
        for a in node.args:
            if isinstance(a, ast.Starred):
                args.extend(self.ev(a.value, d))
            else:
                args.append(self.ev(a, d))
        kw = {}
        for k in node.keywords:
            if k.arg is None:
                kw.update(self.ev(k.value, d))
            else:
                kw[k.arg] = self.ev(k.value, d)
        f = node.func
        try:
            if isinstance(f, ast.Name) and f.id in self._PURE and self.lookup(f.id) is None and not self.is_param(f.id):
                if f.id == "pow" or f.id == "range":
                    _guard_size(args)
                return self._PURE[f.id](*args, **kw)
            if isinstance(f, ast.Attribute) and f.attr in self._STR_METHODS:
                recv = self.ev(f.value, d)
                if isinstance(recv, str):
                    return getattr(recv, f.attr)(*args, **kw)
        except NotConst:
            raise
        except Exception as e:  # the expression would raise at run time as well: not a constant
            raise NotConst("%s: %s: %s" % (ast.unparse(node)[:60], type(e).__name__, e))
        raise NotConst("%s: call is not a constant expression: %s (line %s)"
                       % (self.where(), ast.unparse(node)[:60], getattr(node, "lineno", "?")))

    # -- convenience
    def try_ev(self, node):
        """(True, value) | (False, None)"""
        try:
            return True, self.ev(node)
        except NotConst:
            return False, None

    def ev_typed(self, node, types, what):
        v = self.ev(node)
        if isinstance(v, bool) and bool not in (types if isinstance(types, tuple) else (types,)):
            raise TranslateError("%s: expected %s, got a bool (line %s)" % (what, _tn(types), getattr(node, "lineno", "?")))
        if not isinstance(v, types):
            raise TranslateError("%s: expected %s, got %r (line %s)" % (what, _tn(types), v, getattr(node, "lineno", "?")))
        return v

    def ev_int(self, node, what):
        """an int, or a float with an integral value used where Python compares by value"""
        return self.ev_typed(node, int, what)

    def ev_num(self, node, what):
        return self.ev_typed(node, (int, float), what)

    def ev_str(self, node, what):
        return self.ev_typed(node, str, what)


def _tn(types):
    if isinstance(types, tuple):
        return "/".join(t.__name__ for t in types)
    return types.__name__


def _guard_size(args):
    for a in args:
        if isinstance(a, (int, float)) and abs(a) > 10 ** 6:
            raise NotConst("constant too large to evaluate")


def _binop(op, a, b):
    try:
        if isinstance(op, ast.Add):
            return a + b
        if isinstance(op, ast.Sub):
            return a - b
        if isinstance(op, ast.Mult):
            if isinstance(a, (str, list, tuple)) or isinstance(b, (str, list, tuple)):
                _guard_size([x for x in (a, b) if isinstance(x, int)])
            return a * b
        if isinstance(op, ast.Div):
            return a / b
        if isinstance(op, ast.FloorDiv):
            return a // b
        if isinstance(op, ast.Mod):
            return a % b
        if isinstance(op, ast.Pow):
            if isinstance(b, (int, float)) and abs(b) > 4096:
                raise NotConst("exponent too large")
            return a ** b
        if isinstance(op, ast.LShift):
            if b > 4096:
                raise NotConst("shift too large")
            return a << b
        if isinstance(op, ast.RShift):
            return a >> b
        if isinstance(op, ast.BitOr):
            return a | b
        if isinstance(op, ast.BitAnd):
            return a & b
        if isinstance(op, ast.BitXor):
            return a ^ b
    except NotConst:
        raise
    except Exception as e:
        raise NotConst("%s: %s" % (type(e).__name__, e))
    raise NotConst("unsupported operator %s" % type(op).__name__)


def _compare(op, a, b):
    try:
        if isinstance(op, ast.Eq):
            return a == b
        if isinstance(op, ast.NotEq):
            return a != b
        if isinstance(op, ast.Lt):
            return a < b
        if isinstance(op, ast.LtE):
            return a <= b
        if isinstance(op, ast.Gt):
            return a > b
        if isinstance(op, ast.GtE):
            return a >= b
        if isinstance(op, ast.In):
            return a in b
        if isinstance(op, ast.NotIn):
            return a not in b
        if isinstance(op, ast.Is):
            if a is None or b is None or isinstance(a, bool) or isinstance(b, bool):
                return a is b
        if isinstance(op, ast.IsNot):
            if a is None or b is None or isinstance(a, bool) or isinstance(b, bool):
                return a is not b
    except Exception as e:
        raise NotConst("%s: %s" % (type(e).__name__, e))
    raise NotConst("unsupported comparison")


def _resolve_module(rel, module, level):
    """dotted parts of the module an `from ... import` names, relative imports resolved against `rel`"""
    parts = module.split(".") if module else []
    if level:
        pkg = rel.split("/")[:-1]
        if level - 1 > len(pkg):
            return None
        pkg = pkg[:len(pkg) - (level - 1)]
        return pkg + parts
    return parts


def _module_file(parts):
    if not parts:
        return None
    p = "/".join(parts)
    for cand in (p + ".py", p + "/__init__.py"):
        if os.path.isfile(os.path.join(T.REPO, cand)):
            return cand
    return None


_STORES = {}


def _stored_elsewhere(attr, own_rel):
    """does any other module of the package assign to `<x>.attr` (or setattr(.., "attr", ..))?  Textual scan."""
    import glob
    import re
    key = T.REPO
    if key not in _STORES:
        texts = {}
        for f in glob.glob(os.path.join(T.REPO, "osaca", "**", "*.py"), recursive=True):
            try:
                with open(f, encoding="utf-8") as fh:
                    texts[os.path.relpath(f, T.REPO)] = fh.read()
            except OSError:
                pass
        _STORES[key] = texts
    pat = re.compile(r"\.\s*%s\s*(=(?!=)|[-+*/%%|&^]=|//=|\*\*=|<<=|>>=)|setattr\([^)]*['\"]%s['\"]" % (re.escape(attr), re.escape(attr)))
    return any(rel != own_rel and pat.search(txt) for rel, txt in _STORES[key].items())


class ModScope(Scope):
    def __init__(self, rel, tree=None):
        self.rel = rel
        self.tree = tree if tree is not None else T.parse(rel)
        self.node = self.tree
        self.parent = None
        self.bind = collect_bindings(self.tree)
        # a module constant that some function re-binds through `global` is not a constant
        for n in ast.walk(self.tree):
            if isinstance(n, ast.Global):
                for nm in n.names:
                    self.bind.setdefault(nm, []).append(("other", None, n))

    def where(self):
        return self.rel

    def cls(self, name):
        for n in self.tree.body:
            if isinstance(n, ast.ClassDef) and n.name == name:
                return ClsScope(self, n)
        for n in ast.walk(self.tree):
            if isinstance(n, ast.ClassDef) and n.name == name:
                return ClsScope(self, n)
        raise TranslateError("class %s not found in %s" % (name, self.rel))

    def fn(self, name):
        for n in self.tree.body:
            if isinstance(n, (ast.FunctionDef, ast.AsyncFunctionDef)) and n.name == name:
                return FnScope(self, None, n)
        raise TranslateError("function %s not found in %s" % (name, self.rel))


class ClsScope(Scope):
    def __init__(self, mod, node):
        self.node = node
        self.parent = mod
        self.bind = collect_bindings(node)
        self.cls_scope = self

    def where(self):
        return "class %s" % self.node.name

    def methods(self):
        return {n.name: n for n in self.node.body if isinstance(n, (ast.FunctionDef, ast.AsyncFunctionDef))}

    def fn(self, name):
        m = self.methods()
        if name not in m:
            raise TranslateError("%s.%s not found" % (self.node.name, name))
        return FnScope(self.parent, self, m[name])

    def class_attr(self, attr):
        """value node of the class attribute `attr` if it is assigned exactly once in the class body and
        never re-bound through `self.attr = ...` / `Class.attr = ...` anywhere in the module"""
        b = self.bind.get(attr)
        if not b or len(b) != 1 or b[0][0] != "assign":
            return None
        for n in ast.walk(self.module().tree):
            if isinstance(n, ast.Attribute) and n.attr == attr and isinstance(n.ctx, (ast.Store, ast.Del)):
                return None
        if _stored_elsewhere(attr, self.module().rel):
            return None
        return b[0][1], self


class FnScope(Scope):
    def __init__(self, mod, cls, node):
        self.node = node
        self.parent = mod          # names: function, then module (class bodies are not enclosing scopes)
        self.cls_scope = cls
        self.bind = collect_bindings(node)
        self._par = None

    def where(self):
        return ("%s." % self.cls_scope.node.name if self.cls_scope else "") + self.node.name

    @property
    def par(self):
        if self._par is None:
            self._par = parents(self.node)
        return self._par


# --------------------------------------------------------------------------- string templates
def _merge(parts):
    out = []
    for k, v in parts:
        if k == "lit":
            if v == "":
                continue
            if out and out[-1][0] == "lit":
                out[-1] = ("lit", out[-1][1] + v)
                continue
        out.append((k, v))
    return out


def template_parts(node, sc, depth=0):
    """Normal form of a string-building expression: [("lit", text) | ("expr", node)], adjacent literals
    merged, empty literals dropped.  `expr` slots are inserted as `str(x)` / `format(x, "")` would
    (for the str operands of `+` that is the identity), so `str(x)` wrappers are removed.
    Format specs / conversions other than the plain `{}` / `{!s}` / `%s` on a non-constant raise."""
    if depth > 20:
        raise NotConst("template too deep")
    d = depth + 1
    ok, v = sc.try_ev(node)
    if ok:
        if not isinstance(v, str):
            raise NotConst("string template: constant %r is not a string" % (v,))
        return _merge([("lit", v)])
    if isinstance(node, ast.Name):
        tgt = sc.deref(node)
        if tgt is not node and _is_template_expr(tgt):
            return template_parts(tgt, sc, d)
        return [("expr", node)]
    if isinstance(node, ast.BinOp) and isinstance(node.op, ast.Add):
        return _merge(template_parts(node.left, sc, d) + template_parts(node.right, sc, d))
    if isinstance(node, ast.BinOp) and isinstance(node.op, ast.Mod):
        fmt = sc.ev_str(node.left, "%-format")
        right = node.right
        args = list(right.elts) if isinstance(right, ast.Tuple) else [right]
        return _merge(_percent(fmt, args, sc, d))
    if isinstance(node, ast.JoinedStr):
        parts = []
        for p in node.values:
            if isinstance(p, ast.Constant):
                parts.append(("lit", p.value))
            else:
                parts.extend(_slot(p.value, p.conversion, p.format_spec, sc, d))
        return _merge(parts)
    if isinstance(node, ast.Call) and isinstance(node.func, ast.Attribute):
        f = node.func
        if f.attr == "format":
            ok, fmt = sc.try_ev(f.value)
            if ok and isinstance(fmt, str):
                return _merge(_format(fmt, node, sc, d))
        if f.attr == "join" and len(node.args) == 1 and not node.keywords \
                and isinstance(sc.deref(node.args[0]), (ast.List, ast.Tuple)):
            ok, sep = sc.try_ev(f.value)
            if ok and isinstance(sep, str):
                parts = []
                for i, e in enumerate(sc.deref(node.args[0]).elts):
                    if isinstance(e, ast.Starred):
                        raise NotConst("string template: starred element in join")
                    if i:
                        parts.append(("lit", sep))
                    parts.extend(template_parts(e, sc, d))   # join needs str elements: identity
                return _merge(parts)
    if isinstance(node, ast.Call) and isinstance(node.func, ast.Name) and node.func.id == "str" \
            and len(node.args) == 1 and not node.keywords and sc.lookup("str") is None:
        return template_parts(node.args[0], sc, d)
    return [("expr", node)]


def _is_template_expr(n):
    return (isinstance(n, (ast.JoinedStr, ast.Constant))
            or (isinstance(n, ast.BinOp) and isinstance(n.op, (ast.Add, ast.Mod)))
            or (isinstance(n, ast.Call) and isinstance(n.func, ast.Attribute) and n.func.attr in ("format", "join"))
            or (isinstance(n, ast.Call) and isinstance(n.func, ast.Name) and n.func.id == "str"))


def _slot(value, conversion, spec_node, sc, d):
    """one `{value!c:spec}` slot"""
    spec = ""
    if spec_node is not None:
        spec = sc.ev(spec_node) if not isinstance(spec_node, str) else spec_node
    conv = {None: None, -1: None, 115: "s", 114: "r", 97: "a", "s": "s", "r": "r", "a": "a"}[conversion]
    ok, v = sc.try_ev(value)
    if ok:
        if conv == "s":
            v = str(v)
        elif conv == "r":
            v = repr(v)
        elif conv == "a":
            v = ascii(v)
        return [("lit", format(v, spec))]
    if spec != "" or conv not in (None, "s"):
        raise NotConst("string template: format spec/conversion on a non-constant: %s" % ast.unparse(value))
    return template_parts(value, sc, d) if _is_template_expr(sc.deref(value)) else [("expr", _unstr(value, sc))]


def _unstr(node, sc):
    while isinstance(node, ast.Call) and isinstance(node.func, ast.Name) and node.func.id == "str" \
            and len(node.args) == 1 and not node.keywords and sc.lookup("str") is None:
        node = node.args[0]
    return node


def _format(fmt, call, sc, d):
    if any(isinstance(a, ast.Starred) for a in call.args) or any(k.arg is None for k in call.keywords):
        raise NotConst("string template: star-arguments in .format()")
    kw = {k.arg: k.value for k in call.keywords}
    parts, auto = [], 0
    try:
        fields = list(string.Formatter().parse(fmt))
    except ValueError as e:
        raise NotConst("string template: bad format string %r: %s" % (fmt, e))
    for lit, field, spec, conv in fields:
        if lit:
            parts.append(("lit", lit))
        if field is None:
            continue
        if spec and ("{" in spec):
            raise NotConst("string template: nested format spec")
        # field: "" | "0" | "name", optionally followed by .attr chains
        head, _, rest = field.partition(".")
        if "[" in field:
            raise NotConst("string template: indexing in a format field")
        if head == "":
            idx, auto = auto, auto + 1
            arg = call.args[idx] if idx < len(call.args) else None
        elif head.isdigit():
            arg = call.args[int(head)] if int(head) < len(call.args) else None
        else:
            arg = kw.get(head)
        if arg is None:
            raise NotConst("string template: format field %r has no argument" % field)
        for a in ([x for x in rest.split(".")] if rest else []):
            arg = ast.copy_location(ast.Attribute(value=arg, attr=a, ctx=ast.Load()), arg)
        parts.extend(_slot(arg, conv, spec or "", sc, d))
    return parts


def _percent(fmt, args, sc, d):
    parts, i, n, k = [], 0, len(fmt), 0
    while i < n:
        j = fmt.find("%", i)
        if j < 0:
            parts.append(("lit", fmt[i:]))
            break
        parts.append(("lit", fmt[i:j]))
        e = j + 1
        while e < n and fmt[e] not in "diouxXeEfFgGcrsa%":
            e += 1
        if e >= n:
            raise NotConst("string template: bad %%-format %r" % fmt)
        spec = fmt[j:e + 1]
        if spec == "%%":
            parts.append(("lit", "%"))
        else:
            if "(" in spec or "*" in spec:
                raise NotConst("string template: mapping keys / * widths in %-format")
            if k >= len(args):
                raise NotConst("string template: not enough arguments for %r" % fmt)
            arg = args[k]
            k += 1
            ok, v = sc.try_ev(arg)
            if ok:
                try:
                    parts.append(("lit", spec % (v,)))
                except Exception as ex:
                    raise NotConst("string template: %s" % ex)
            elif spec == "%s":
                parts.extend(_slot(arg, None, "", sc, d))
            else:
                raise NotConst("string template: %s on a non-constant" % spec)
        i = e + 1
    if k != len(args):
        raise NotConst("string template: too many arguments for %r" % fmt)
    return parts


# --------------------------------------------------------------------------- path conditions
def _flip(op):
    return {ast.Eq: ast.NotEq, ast.NotEq: ast.Eq, ast.Lt: ast.GtE, ast.GtE: ast.Lt, ast.Gt: ast.LtE, ast.LtE: ast.Gt,
            ast.Is: ast.IsNot, ast.IsNot: ast.Is, ast.In: ast.NotIn, ast.NotIn: ast.In}[type(op)]


def atoms(test, pol):
    """What `test` being truthy (pol=True) / falsy (pol=False) implies, as a list of (atom, polarity).
    `a and b` true -> both; `a or b` false -> both false; `not a`; a single comparison `a != b` is stored as
    (`a == b`, False) etc. so that equivalent spellings give the same atom."""
    if isinstance(test, ast.UnaryOp) and isinstance(test.op, ast.Not):
        return atoms(test.operand, not pol)
    if isinstance(test, ast.BoolOp):
        if isinstance(test.op, ast.And) == pol:
            out = []
            for v in test.values:
                out.extend(atoms(v, pol))
            return out
        return []            # a disjunction that holds / a conjunction that fails: nothing definite
    if isinstance(test, ast.Compare) and len(test.ops) == 1:
        op = test.ops[0]
        if isinstance(op, (ast.NotEq, ast.IsNot, ast.NotIn)):
            pos = ast.Compare(left=test.left, ops=[_flip(op)()], comparators=test.comparators)
            return [(pos, not pol)]
        return [(test, pol)]
    if isinstance(test, ast.Compare) and pol:
        out, left = [], test.left
        for op, c in zip(test.ops, test.comparators):
            out.extend(atoms(ast.Compare(left=left, ops=[op], comparators=[c]), True))
            left = c
        return out
    return [(test, pol)]


def negate(t):
    """the expression `not t`, with a single comparison flipped instead of wrapped"""
    if isinstance(t, ast.UnaryOp) and isinstance(t.op, ast.Not):
        return t.operand
    if isinstance(t, ast.Compare) and len(t.ops) == 1:
        return ast.copy_location(ast.Compare(left=t.left, ops=[_flip(t.ops[0])()], comparators=t.comparators), t)
    return ast.copy_location(ast.UnaryOp(op=ast.Not(), operand=t), t)


def disjuncts(t, pol=True):
    """`t` (pol=True) or `not t` (pol=False) as a flat list of alternatives: `a or b`, `not (not a and not b)`, ...
    Negations are pushed onto the leaves (`not a < b` -> `a >= b`)."""
    if isinstance(t, ast.UnaryOp) and isinstance(t.op, ast.Not):
        return disjuncts(t.operand, not pol)
    if isinstance(t, ast.BoolOp) and isinstance(t.op, ast.Or) == pol:
        out = []
        for v in t.values:
            out.extend(disjuncts(v, pol))
        return out
    return [t if pol else negate(t)]


def _blocks(p):
    for f in ("body", "orelse", "finalbody"):
        b = getattr(p, f, None)
        if isinstance(b, list):
            yield f, b
    if isinstance(p, ast.Try):
        for h in p.handlers:
            yield "handler", h.body


def path_conditions(node, par):
    """[(atom, polarity)] known to hold whenever `node` is evaluated, from the enclosing `if` / `else`
    branches, conditional expressions, `and` / `or` short-circuits and preceding guard clauses
    (`if c: <always exits>` -> not c afterwards).  (No data flow: a variable re-assigned between the
    test and the use is not tracked; the plug-ins use this for names that are parameters or are bound once.)"""
    out = []
    ch = node
    while ch in par:
        p = par[ch]
        if isinstance(p, (ast.If, ast.While)) and not (ch is p.test):
            if any(ch is s for s in p.body):
                out.extend(atoms(p.test, True))
            elif isinstance(p, ast.If) and any(ch is s for s in p.orelse):
                out.extend(atoms(p.test, False))
        elif isinstance(p, ast.IfExp):
            if ch is p.body:
                out.extend(atoms(p.test, True))
            elif ch is p.orelse:
                out.extend(atoms(p.test, False))
        elif isinstance(p, ast.BoolOp):
            i = [k for k, v in enumerate(p.values) if v is ch][0]
            for v in p.values[:i]:
                out.extend(atoms(v, isinstance(p.op, ast.And)))
        elif isinstance(p, ast.comprehension) and any(ch is c for c in p.ifs):
            i = [k for k, v in enumerate(p.ifs) if v is ch][0]
            for v in p.ifs[:i]:
                out.extend(atoms(v, True))
        elif isinstance(p, (ast.ListComp, ast.SetComp, ast.GeneratorExp, ast.DictComp)) and not isinstance(ch, ast.comprehension):
            for g in p.generators:
                for v in g.ifs:
                    out.extend(atoms(v, True))
        # guard clauses before `ch` in the same statement list
        for _, block in _blocks(p):
            idx = [k for k, s in enumerate(block) if s is ch]
            if idx:
                for s in block[:idx[0]]:
                    if isinstance(s, ast.If):
                        if always_exits(s.body) and not always_exits(s.orelse):
                            out.extend(atoms(s.test, False))
                        elif s.orelse and always_exits(s.orelse) and not always_exits(s.body):
                            out.extend(atoms(s.test, True))
        if isinstance(p, (ast.FunctionDef, ast.AsyncFunctionDef, ast.Lambda)):
            break
        ch = p
    return out


def holds(conds, pred, pol=True):
    """is there an atom with polarity `pol` satisfying pred(atom)?"""
    return any(pl == pol and pred(a) for a, pl in conds)


# --------------------------------------------------------------------------- comprehension views
class Comp:
    """`[elt for target in iter if cond...]`"""
    def __init__(self, elt, target, iter, ifs, node):
        self.elt, self.target, self.iter, self.ifs, self.node = elt, target, iter, ifs, node


def comp_view(node, sc):
    """A single-generator list comprehension, or a name bound to one, or a name built by the loop
        xs = []            (or list())
        for t in it:       (body: `xs.append(e)`, optionally under `if c:` / after `if not c: continue`)
            xs.append(e)
    -> Comp; None if `node` is neither."""
    if isinstance(node, ast.Name):
        lc = _loop_comp(node.id, sc)
        if lc is not None:
            return lc
        tgt = sc.deref(node)
        return comp_view(tgt, sc) if tgt is not node else None
    if isinstance(node, ast.Call) and isinstance(node.func, ast.Name) and node.func.id == "list" \
            and len(node.args) == 1 and isinstance(node.args[0], ast.GeneratorExp):
        node = node.args[0]
    if isinstance(node, (ast.ListComp, ast.GeneratorExp)) and len(node.generators) == 1 \
            and not node.generators[0].is_async:
        g = node.generators[0]
        return Comp(node.elt, g.target, g.iter, list(g.ifs), node)
    return None


def _loop_comp(name, sc):
    b = sc.bind.get(name)
    if not b or len(b) != 1 or b[0][0] != "assign":
        return None
    init = b[0][1]
    empty = (isinstance(init, ast.List) and not init.elts) or (
        isinstance(init, ast.Call) and isinstance(init.func, ast.Name) and init.func.id == "list"
        and not init.args and not init.keywords)
    if not empty:
        return None
    # every other mention of the name before its first read must be `name.append(e)` in ONE for loop
    appends = [n for n in walk_scope(sc.node) if isinstance(n, ast.Call) and isinstance(n.func, ast.Attribute)
               and n.func.attr in ("append", "extend", "insert", "remove", "pop", "clear", "sort", "reverse")
               and isinstance(n.func.value, ast.Name) and n.func.value.id == name]
    if len(appends) != 1 or appends[0].func.attr != "append" or len(appends[0].args) != 1:
        return None
    call = appends[0]
    par = sc.par
    stmt = par.get(call)
    if not isinstance(stmt, ast.Expr):
        return None
    ifs = []
    holder = par.get(stmt)
    cur = stmt
    while isinstance(holder, ast.If):
        if holder.orelse or not any(cur is s for s in holder.body) or len(holder.body) != 1:
            return None
        ifs.insert(0, holder.test)
        cur, holder = holder, par.get(holder)
    if not isinstance(holder, ast.For) or holder.orelse or not any(cur is s for s in holder.body):
        return None
    body = list(holder.body)
    pre = body[:[k for k, s in enumerate(body) if s is cur][0]]
    if body[-1] is not cur:
        return None
    guards = []
    for s in pre:   # only `if c: continue` guards may precede
        if isinstance(s, ast.If) and not s.orelse and len(s.body) == 1 and isinstance(s.body[0], ast.Continue):
            guards.append(ast.UnaryOp(op=ast.Not(), operand=s.test))
        else:
            return None
    return Comp(call.args[0], holder.target, holder.iter, guards + ifs, holder)


# --------------------------------------------------------------------------- if / else normal form
def split_if_else(stmts):
    """A statement list that is one two-way decision -> (test, then-block, else-block):
         [if t: A else: B]                      -> (t, A, B)
         [if t: A(always exits), *B]            -> (t, A, B)
       None otherwise."""
    if not stmts or not isinstance(stmts[0], ast.If):
        return None
    s = stmts[0]
    if len(stmts) == 1 and s.orelse:
        return s.test, s.body, s.orelse
    if len(stmts) > 1 and not s.orelse and always_exits(s.body):
        return s.test, s.body, stmts[1:]
    return None


def strip_not(test):
    """`not not x` -> (x, True); `not x` -> (x, False)"""
    pol = True
    while isinstance(test, ast.UnaryOp) and isinstance(test.op, ast.Not):
        test, pol = test.operand, not pol
    return test, pol


# --------------------------------------------------------------------------- numbers
def dec_text(v):
    """decimal text of an int/float value (the shortest repr: `1e-2`, `0.01`, `1 / 100` all give '0.01')"""
    if isinstance(v, bool) or not isinstance(v, (int, float)):
        raise TranslateError("expected a number, got %r" % (v,))
    if isinstance(v, float) and (v != v or v in (float("inf"), float("-inf"))):
        raise TranslateError("non-finite constant %r" % (v,))
    return repr(v)


def fold_constants(node, sc):
    """copy of the expression with every constant-evaluable str/int/float sub-expression replaced by the
    literal (used before `ast.unparse` so that the text does not depend on how a constant is spelt)"""
    class F(ast.NodeTransformer):
        def visit(self, n):
            if isinstance(n, ast.expr) and not isinstance(n, (ast.Constant, ast.Name, ast.Attribute)):
                ok, v = sc.try_ev(n)
                if ok and isinstance(v, (str, int, float)) and not isinstance(v, bool):
                    return ast.copy_location(ast.Constant(value=v), n)
            return self.generic_visit(n)
    import copy
    return ast.fix_missing_locations(F().visit(copy.deepcopy(node)))
