"""Gen/A64Grammar.lean: literals of the AArch64 grammar and its post-processing (C10).

Everything the model `Model/ParseA64.lean` treats as a constant is read from the working tree's
`osaca/parser/parser_AArch64.py` and `base_parser.py`: comment/immediate symbols, the shift/extend
operator list and the subset that scales a memory index, the base of `scale = 2 ** n`, condition
codes, register prefix sets, lane digits, predication letters, the sp/zr alias regexes and the prefix
forced on them, prefetch keywords, character sets of mnemonic/identifier, the number of operand slots,
and the line-number base of `parse_file`.

How it reads (semantically, not by spelling; helpers in `astutil_G4.py`; nothing of OSACA is imported or run):

* The grammar: `construct_parser` is *symbolically executed* (`astutil_G4.Interp`): every pyparsing constructor,
  `+ | ^`, `.setResultsName()` becomes a node of an expression tree, names are looked up in the environment.
  The plug-in then navigates the tree from the attributes the parser really uses (`self.instruction_parser`,
  `self.comment`, `self.register`, `self.condition`) by structure and by results names -- the keys that
  `process_*` read.  Names of local variables, hoisted/split/inlined sub-expressions, constants bound to a
  local, class or module name, raw/plain/concatenated strings, `pp.Opt`/`one_of`/`set_results_name`/`elem("n")`
  spellings, alternatives built by a loop, comprehension, helper or `reduce` do not show.  The order of
  alternatives and of sequence members, every literal, character set, `exact=`/`caseless=` flag and results
  name do show.
* The post-processing functions: constants are evaluated (`FnEnv.const`: arithmetic, hoisted locals, class
  attributes), the tests that force a prefix on sp/zr are read through loops over constant tables, and variables
  are identified by the dictionary key they were read from, not by their name.
* Helper methods: before a post-processing function is read, calls of private / static helper methods of the
  class are replaced by the helper's statements (`astutil_G5.inline_helpers`: arguments substituted, locals renamed
  apart, guard clauses turned into if/else, the returned value bound to a local; two levels deep), so "extract
  method" (`self._force_x_prefix_for_alias(base, "sp")`, `self._copy_with_index(reg, index)`) reads like the
  inline code.  If the function still has not the expected shape, the public methods it calls are substituted too
  and the reading is tried once more (`_with_helpers`).
* `parse_file`: loop or comprehension (`astutil_G4.read_parse_file`).

Still insisted on (fails loudly otherwise): the six register alternatives in their order, the shapes of the two
operand alternatives, the three prefetch groups type/target/policy, single `**`, `<<`, `range(a, b + c)`.
"""
import ast
import os
import re as _re
import sys



def _load_util():
    """astutil_G4.py next to this file, loaded by path (sys.path is left alone)"""
    import importlib.util
    if "astutil_G4" in sys.modules:
        return sys.modules["astutil_G4"]
    spec = importlib.util.spec_from_file_location(
        "astutil_G4", os.path.join(os.path.dirname(os.path.abspath(__file__)), "astutil_G4.py"))
    mod = importlib.util.module_from_spec(spec)
    sys.modules["astutil_G4"] = mod
    spec.loader.exec_module(mod)
    return mod


def _load_g5():
    import importlib.util
    if "astutil_G5" in sys.modules:
        return sys.modules["astutil_G5"]
    spec = importlib.util.spec_from_file_location(
        "astutil_G5", os.path.join(os.path.dirname(os.path.abspath(__file__)), "astutil_G5.py"))
    mod = importlib.util.module_from_spec(spec)
    sys.modules["astutil_G5"] = mod
    try:
        spec.loader.exec_module(mod)
    except BaseException:
        del sys.modules["astutil_G5"]
        raise
    return mod


U = _load_util()
G5 = _load_g5()
expect, only, unwrap = U.expect, U.only, U.unwrap
from translate import TranslateError, generator, parse, txt, txt_list, HEADER  # noqa: E402

SRC = "osaca/parser/parser_AArch64.py"
BASE = "osaca/parser/base_parser.py"

NO_GROUP = lambda n: n.kind != "Group"  # noqa: E731


def _alias_regex(pat, what):
    """`(?P<prefix>[a-zA-Z])?(?P<name>(sp|SP))` read from its parse tree (so `[A-Za-z]`, a missing inner group, a raw
    string are the same): an optional group `prefix` of one ASCII letter, then a group `name` that matches a finite
    list of words -> the words in order"""
    try:
        import re._parser as sp
    except ImportError:  # Python < 3.11
        import sre_parse as sp
    try:
        t = sp.parse(pat)
    except Exception as e:
        raise TranslateError("%s: regex %r does not parse: %s" % (what, pat, e))
    bad = TranslateError("%s: unexpected regex %r" % (what, pat))
    if t.state.flags & ~_re.UNICODE or dict(t.state.groupdict) != {"prefix": 1, "name": 2} or len(t) != 2:
        raise bad

    def chars(items):
        out = []
        for op, av in items:
            if op == sp.LITERAL:
                out.append(chr(av))
            elif op == sp.RANGE and av[1] - av[0] < 64:
                out += [chr(c) for c in range(av[0], av[1] + 1)]
            else:
                raise bad
        return out

    def words(seq):
        res = [""]
        for op, av in seq:
            if op == sp.LITERAL:
                alts = [chr(av)]
            elif op == sp.IN:
                alts = chars(av)
            elif op == sp.SUBPATTERN:
                if av[1] or av[2]:
                    raise bad
                alts = words(av[3])
            elif op == sp.BRANCH:
                alts = [w for alt in av[1] for w in words(alt)]
            else:
                raise bad
            res = [a + b for a in res for b in alts]
            if len(res) > 64:
                raise bad
        return res

    (op1, av1), (op2, av2) = t[0], t[1]
    if op1 != sp.MAX_REPEAT or av1[0] != 0 or av1[1] != 1 or len(av1[2]) != 1 or av1[2][0][0] != sp.SUBPATTERN \
            or av1[2][0][1][0] != 1 or op2 != sp.SUBPATTERN or av2[0] != 2:
        raise bad
    pre = av1[2][0][1][3]
    if len(pre) != 1 or pre[0][0] != sp.IN or sorted(chars(pre[0][1])) != sorted(
            "abcdefghijklmnopqrstuvwxyzABCDEFGHIJKLMNOPQRSTUVWXYZ"):
        raise bad
    names = words([t[1]])
    if not names or len(set(names)) != len(names) or any(not w.isalpha() for w in names):
        raise bad
    return names


def _caseless_alts(node, what, n_min=1):
    """`CaselessLiteral(a) ^ CaselessLiteral(b) ^ ...` (or a single one) -> [a, b, ...]"""
    kids = node.kids if node.kind == "Or" else [node]
    if node.kind not in ("Or", "CaselessLiteral") or any(k.kind != "CaselessLiteral" for k in kids):
        raise TranslateError("%s is not a `^` chain of CaselessLiteral: %s" % (what, U.show(node)))
    if len(kids) < n_min:
        raise TranslateError("%s: expected CaselessLiteral alternatives" % what)
    return [U.strarg(k, what) for k in kids]


def _word_sets(node, what):
    expect(node, "Word" if node.kind != "WordEnd" else "WordEnd", what)
    if not node.args:
        raise TranslateError("%s: Word without argument" % what)
    return U.charclass(node.args[0], what)


def _word_extra(node, base, what):
    names, extra = _word_sets(node, what)
    if node.kw:
        raise TranslateError("%s: unexpected keyword arguments %r" % (what, sorted(node.kw)))
    if names != [base]:
        raise TranslateError("%s: expected %s + extras, got %r" % (what, base, names))
    return extra


def _number(node, what, n_lits, digits):
    """Combine(Optional(Literal('-')) [+ Literal(prefix)] + Word(digits)) -> literals"""
    expect(node, "Combine", what, 1)
    lits = U.literals(node)
    words = U.of_kind(node, "Word")
    if len(lits) != n_lits or lits[0] != "-" or len(words) != 1 or _word_sets(words[0], what) != ([digits], ""):
        raise TranslateError("%s: expected Optional('-')%s + Word(%s)" % (what, " + Literal(prefix)" if n_lits == 2 else "", digits))
    seq = expect(node.kids[0], "And", what)
    first = seq.kids[0]
    if first.kind != "Optional" or U.literals(first) != ["-"]:
        raise TranslateError("%s: the sign is not optional" % what)
    return lits


def read_grammar(it):
    """navigate the symbolically constructed grammar; returns the dict of values of the Gen file"""
    A = it.selfattrs
    g = {}
    for need in ("instruction_parser", "comment", "register", "condition"):
        if need not in A or not isinstance(A[need], U.PNode):
            raise TranslateError("construct_parser: self.%s is not assigned a grammar element" % need)
    register_id = it.class_attr("register_id")

    # ---- instruction_parser = mnemonic + Optional(first("operand1")) + Optional(Suppress(",")) + ... + Optional(comment)
    ip = expect(A["instruction_parser"], "And", "instruction_parser")
    mn = ip.kids[0]
    if mn.name != "mnemonic":
        raise TranslateError("instruction_parser does not start with the mnemonic")
    g["mn_extra"] = _word_extra(mn, "alphanums", "mnemonic")
    slots = []
    for k in ip.kids[1:]:
        inner = unwrap(k, "Optional", "instruction_parser member")
        if inner.name is not None and str(inner.name).startswith("operand"):
            slots.append((inner.name, inner))
        elif inner.kind == "Suppress" and U.literals(inner) == [","] and len(list(U.walk(inner))) == 2:
            pass
        elif inner.same(A["comment"]):
            pass
        else:
            raise TranslateError("instruction_parser: unexpected member %s" % U.show(inner))
    names = [s for s, _ in slots]
    if not slots or names != ["operand%d" % (i + 1) for i in range(len(slots))]:
        raise TranslateError("instruction_parser: unexpected operand slots %r" % names)
    first, rest = slots[0][1], [s for _, s in slots[1:]]
    if any(not r.same(rest[0]) for r in rest) or (rest and rest[0].same(first)):
        raise TranslateError("instruction_parser: operand slots 2.. do not share one grammar distinct from slot 1")
    g["n_slots"] = len(slots)

    # ---- operand alternatives
    #  first = Group((prfop + word_end) | (register ^ (prfop | immediate) ^ memory ^ arith_immediate ^ identifier))
    #  rest  = Group((condition + word_end) | (register ^ condition ^ immediate ^ memory ^ arith_immediate) | identifier)
    try:
        mf = expect(unwrap(first, "Group", "operand_first"), "MatchFirst", "operand_first", 2)
        prf, we = expect(mf.kids[0], "And", "operand_first[0]", 2).kids
        reg, pi, mem, arith, ident = expect(mf.kids[1], "Or", "operand_first[1]", 5).kids
        prf2, imm = expect(pi, "MatchFirst", "operand_first prfop|immediate", 2).kids
        if rest:
            mr = expect(unwrap(rest[0], "Group", "operand_rest"), "MatchFirst", "operand_rest", 3)
            cond, we2 = expect(mr.kids[0], "And", "operand_rest[0]", 2).kids
            same = [(a, b) for a, b in zip(expect(mr.kids[1], "Or", "operand_rest[1]", 5).kids,
                                           (reg, cond, imm, mem, arith))] + [(mr.kids[2], ident), (we2, we)]
        else:
            raise TranslateError("no operand_rest slot")
        same += [(prf2, prf), (reg, A["register"]), (cond, A["condition"])]
        for a, b in same:
            if not (a.same(b) and a.name == b.name):
                raise TranslateError("%s is not %s" % (U.show(a), U.show(b)))
    except TranslateError as e:
        raise TranslateError("operand alternatives changed: %s" % e)
    for node, want, what in ((reg, register_id, "register"), (mem, it.class_attr("memory_id"), "memory"),
                             (imm, it.class_attr("immediate_id"), "immediate"),
                             (arith, it.class_attr("immediate_id"), "arith_immediate"),
                             (ident, it.class_attr("identifier"), "identifier"),
                             (prf, it.class_attr("prefetch"), "prefetch_op"),
                             (cond, it.class_attr("condition_id"), "condition")):
        if node.name != want:
            raise TranslateError("operand alternatives changed: %s has results name %r, expected %r" % (what, node.name, want))
    if we.kind != "WordEnd":
        raise TranslateError("word_end: expected pp.WordEnd(chars)")
    g["we_extra"] = _word_extra(we, "alphanums", "word_end")
    g["conds"] = _caseless_alts(cond, "condition", 2)

    # ---- prefetch_op = Group(Group(type alts)("type") + Group(..)("target") + Group(..)("policy"))
    pseq = expect(unwrap(prf, "Group", "prefetch_op"), "And", "prefetch_op", 3)
    if [k.name for k in pseq.kids] != ["type", "target", "policy"]:
        raise TranslateError("prefetch_op: expected three keyword groups type/target/policy, got %r" % [k.name for k in pseq.kids])
    g["pf_lists"] = [_caseless_alts(unwrap(k, "Group", "prefetch_op group"), "prefetch_op") for k in pseq.kids]

    # ---- register = Group((sp | zr | vector | scalar | predicate | register_list) + Optional("," shift_op [immediate]))
    rseq = expect(unwrap(reg, "Group", "register"), "And", "register", 2)
    alts = expect(rseq.kids[0], "MatchFirst", "register alternatives")
    kinds = []
    for a in alts.kids:
        pre = [x for x in ([a] if a.name == "prefix" else []) + U.named(a, "prefix", NO_GROUP)]
        if a.kind == "Regex":
            kinds.append("alias")
        elif a.kind == "And" and a.kids and a.kids[0].kind == "Literal" and U.named(a, "list") and U.named(a, "range"):
            kinds.append("register_list")
        elif a.kind == "And" and pre and pre[0].kind == "oneOf":
            kinds.append("vector")
        elif a.kind == "And" and pre and pre[0].kind == "Word":
            kinds.append("scalar")
        elif a.kind == "And" and pre and pre[0].kind == "CaselessLiteral":
            kinds.append("predicate")
        else:
            kinds.append("?" + a.kind)
    want = ["alias", "alias", "vector", "scalar", "predicate", "register_list"]
    if kinds != want:
        raise TranslateError("register: alternatives %r, model expects %r (sp, zr aliases first)" % (kinds, want))
    a_sp, a_zr, vector, scalar, pred, _rl = alts.kids
    for self_name, node in (("vector", vector), ("predicate", pred)):
        if self_name in A and not A[self_name].same(node):
            raise TranslateError("self.%s is not the %s alternative of register" % (self_name, self_name))
    aliases = []
    for name, node in (("alias_r31_sp", a_sp), ("alias_r31_zr", a_zr)):
        pat = U.strarg(node, name)
        if node.kw:
            raise TranslateError("%s: Regex flags are not modelled" % name)
        aliases.append(_alias_regex(pat, name))
    g["aliases"] = aliases
    # shift_op, as used in register and in arith_immediate
    so = only(U.named(rseq.kids[1], "shift_op", NO_GROUP), "register: shift_op")
    g["shift_ops"] = _caseless_alts(so, "shift_op", 2)
    so2 = only(U.named(arith, "shift_op", NO_GROUP), "arith_immediate: shift_op")
    if not so2.same(so):
        raise TranslateError("arith_immediate uses a different shift_op than register")
    # ... + shift_op("shift_op") [+ WordEnd(chars)] + Optional(immediate)("shift"): is the operator a complete word?
    # (the element right behind the operator in its sequence; the same answer and the same characters as the
    # word end of condition codes at both places, because the model has one `wordEnd`)
    ends = []
    for where, root, node in (("register", rseq.kids[1], so), ("arith_immediate", arith, so2)):
        seq = only([x for x in U.walk(root, NO_GROUP if root is not arith else None) if x.kind == "And" and any(k is node for k in x.kids)],
                   "%s: the sequence that contains shift_op" % where)
        i = [k is node for k in seq.kids].index(True)
        after = seq.kids[i + 1:]
        if [k.name for k in after if k.name is not None] != ["shift"] or U.of_kind(seq.kids[i - 1] if i else seq, "Literal") == [] \
                or U.literals(seq.kids[i - 1]) != [","]:
            raise TranslateError("%s: expected `\",\" + shift_op [+ WordEnd] + Optional(immediate)(\"shift\")`, got %s" % (where, U.show(seq)))
        if len(after) == 2 and after[0].kind == "WordEnd" and after[0].name is None:
            if _word_extra(after[0], "alphanums", "%s: word end of shift_op" % where) != g["we_extra"]:
                raise TranslateError("%s: the word end of shift_op has other characters than the word end of condition codes "
                                     "(the model has one WordEnd)" % where)
            ends.append(True)
        elif len(after) == 1:
            ends.append(False)
        else:
            raise TranslateError("%s: unexpected elements behind shift_op: %s" % (where, U.show(seq)))
    if ends[0] != ends[1]:
        raise TranslateError("shift_op ends at a word boundary in only one of register / arith_immediate")
    g["shift_word_end"] = ends[0]
    bi = only(U.named(arith, "base_immediate", NO_GROUP), "arith_immediate: base_immediate")
    if not bi.same(imm):
        raise TranslateError("arith_immediate: base_immediate is not the immediate")

    # scalar = Word(prefixes, exact=1)("prefix") + Word(nums)("name")
    if len(scalar.kids) != 2 or [k.kind for k in scalar.kids] != ["Word", "Word"]:
        raise TranslateError("scalar: expected Word(prefix chars, exact=1) + Word(nums)")
    sp_, sn_ = scalar.kids
    if not (sp_.args and isinstance(sp_.args[0], str)):
        raise TranslateError("scalar prefix: expected a string literal argument")
    g["scalar_prefixes"] = sp_.args[0]
    if sp_.kw != {"exact": 1}:
        raise TranslateError("scalar prefix: exact=1 expected")
    if _word_sets(sn_, "scalar name") != (["nums"], "") or sn_.kw:
        raise TranslateError("scalar name: Word(nums) expected")

    def lanes_of(node, what):
        ln = [strip for strip in (U.strip_kinds(x, ("Optional",)) for x in U.named(node, "lanes", NO_GROUP))]
        lits = [x for x in U.of_kind(node, "Word", NO_GROUP) if x.args and isinstance(x.args[0], str)]
        if len(lits) != 1 or len(ln) != 1 or ln[0] is not lits[0]:
            raise TranslateError("%s: expected one Word(<lane digits>) named lanes" % what)
        return lits[0].args[0]

    # vector = oneOf(prefixes, caseless=True)("prefix") + Word(nums)("name") + Optional("." + Optional(Word(lanes))("lanes") + shape) + Optional(index)
    oo = only(U.of_kind(vector, "oneOf", NO_GROUP), "vector: oneOf(prefixes)")
    g["vec_prefixes"] = list(oo.args[0])
    if oo.kw.get("caseless") is not True or oo.name != "prefix":
        raise TranslateError("vector prefixes: caseless=True expected")
    g["lane_chars"] = lanes_of(vector, "vector")
    # predicate = CaselessLiteral(p)("prefix") + Word(nums)("name") + Optional(("/" + oneOf(letters)("predication")) | ("." + lanes + shape))
    po = only(U.of_kind(pred, "oneOf", NO_GROUP), "predicate: oneOf(predication letters)")
    g["pred_chars"] = list(po.args[0])
    if po.name != "predication":
        raise TranslateError("predicate: oneOf is not the predication")
    pcl = only(U.of_kind(pred, "CaselessLiteral", NO_GROUP), "predicate: CaselessLiteral prefix")
    g["pred_prefix"] = U.strarg(pcl, "predicate prefix")
    plits = sorted(U.literals(pred, NO_GROUP))
    if plits != [".", "/"]:
        raise TranslateError("predicate: expected Literal('/') and Literal('.'), got %r" % plits)
    if lanes_of(pred, "predicate") != g["lane_chars"]:
        raise TranslateError("predicate: lane digits differ from vector lane digits")

    # ---- immediate = Group(Optional(Literal(sym)) + (hex ^ dec ^ float ^ double) | Optional(Literal(sym)) + identifier)
    imf = expect(unwrap(imm, "Group", "immediate"), "MatchFirst", "immediate", 2)
    syms = []
    for alt in imf.kids:
        expect(alt, "And", "immediate alternative", 2)
        lit = expect(unwrap(alt.kids[0], "Optional", "immediate symbol"), "Literal", "immediate symbol")
        syms.append(U.strarg(lit, "immediate symbol"))
    if len(set(syms)) != 1:
        raise TranslateError("immediate: different symbols %r in the two alternatives" % syms)
    g["imm_sym"] = syms[0]
    if not imf.kids[1].kids[1].same(ident):
        raise TranslateError("immediate: second alternative is not symbol + identifier")
    nums = expect(imf.kids[0].kids[1], "Or", "immediate numbers", 4)
    hexn, decn = nums.kids[0], nums.kids[1]
    g["hex_prefix"] = _number(hexn, "hex_number", 2, "hexnums")[1]
    _number(decn, "decimal_number", 1, "nums")

    # ---- comment = Literal(sym) + Group(ZeroOrMore(Word(printables)))(comment_id)
    cseq = expect(A["comment"], "And", "comment", 2)
    g["comment_sym"] = U.strarg(expect(cseq.kids[0], "Literal", "comment symbol"), "comment symbol")

    # ---- identifier = Group(Optional(relocation)("relocation") + Combine(first + Optional(rest))("name") + Optional("+" offset))
    iseq = expect(unwrap(ident, "Group", "identifier"), "And", "identifier")
    reloc = only(U.named(iseq, "relocation", NO_GROUP), "identifier: relocation")
    g["reloc_extra"] = _word_extra(only(U.of_kind(reloc, "Word"), "relocation: Word"), "alphanums", "relocation")
    nm = only([k for k in iseq.kids if k.name == "name"], "identifier: name")
    words = U.of_kind(nm, "Word")
    if nm.kind != "Combine" or len(words) != 2 or words[0].kw != {"exact": 1} or words[1].kw:
        raise TranslateError("identifier: expected Combine(first + Optional(rest))")
    ff, fr = _word_sets(words[0], "identifier first"), _word_sets(words[1], "identifier rest")
    if ff[0] != ["alphas"] or fr[0] != ["alphanums"]:
        raise TranslateError("identifier character sets changed")
    g["first_extra"], g["rest_extra"] = ff[1], fr[1]
    return g


def _role(fenv, name, param):
    """the constant key K with which local `name` was read from the parameter: `name = param.get(K, ...)` / param[K]"""
    keys = set()
    for v in fenv.assigns.get(name, []):
        if v is None:
            continue
        if U.is_call(v, "get") and isinstance(v.func.value, ast.Name) and v.func.value.id == param and v.args:
            ok, k = fenv.try_const(v.args[0])
            if ok and isinstance(k, str):
                keys.add(k)
        elif isinstance(v, ast.Subscript) and isinstance(v.value, ast.Name) and v.value.id == param:
            ok, k = fenv.try_const(v.slice)
            if ok and isinstance(k, str):
                keys.add(k)
    return only(sorted(keys), "process_memory_address: key from which %r is read" % name) if keys else None


def _unrolled_ifs(stmts, fenv, bindings, aliases, out):
    """every `if` statement with the bindings of the enclosing loops over constant tables / tuples of names"""
    for st in stmts:
        if isinstance(st, ast.For) and isinstance(st.target, ast.Name) and not st.orelse:
            it = fenv.resolve(st.iter)
            if isinstance(it, (ast.Tuple, ast.List)) and it.elts and all(isinstance(e, ast.Name) for e in it.elts):
                for e in it.elts:
                    a2 = dict(aliases)
                    a2[st.target.id] = aliases.get(e.id, e.id)
                    _unrolled_ifs(st.body, fenv, bindings, a2, out)
                continue
            ok, vals = fenv.try_const(st.iter, bindings)
            if ok and isinstance(vals, (list, tuple, set, frozenset, range)):
                for v in (sorted(vals) if isinstance(vals, (set, frozenset)) else vals):
                    b2 = dict(bindings)
                    b2[st.target.id] = v
                    _unrolled_ifs(st.body, fenv, b2, aliases, out)
                continue
        if isinstance(st, ast.If):
            out.append((st, dict(bindings), dict(aliases)))
        for field in ("body", "orelse", "finalbody"):
            sub = getattr(st, field, None)
            if sub and isinstance(sub, list) and isinstance(sub[0], ast.stmt):
                _unrolled_ifs(sub, fenv, bindings, aliases, out)
        for h in getattr(st, "handlers", []):
            _unrolled_ifs(h.body, fenv, bindings, aliases, out)


def _through(node, fenv, depth=0):
    """the nodes of an expression, looking through locals that are assigned once (hoisted sub-expressions)"""
    for n in ast.walk(node):
        yield n
        if isinstance(n, ast.Name) and depth < 5:
            v = fenv.single(n.id)
            if v is not None:
                yield from _through(v, fenv, depth + 1)


def read_memory(pm, interp):
    """process_memory_address: scaling shift ops, `scale = b ** int(..)`, default scale, forced alias prefixes, int bases"""
    fenv = U.FnEnv(pm, interp)
    if len(pm.args.args) != 2:
        raise TranslateError("process_memory_address: unexpected parameters")
    param = pm.args.args[1].arg
    r = {}
    # scale = <const> ** int(...)
    pows = [n for n in ast.walk(pm) if isinstance(n, ast.BinOp) and isinstance(n.op, ast.Pow)]
    pows = [(n.left, n) for n in pows] + [(n.args[0], n) for n in ast.walk(pm) if U.is_call(n, name="pow") and len(n.args) == 2]
    if len(pows) != 1:
        raise TranslateError("process_memory_address: `scale = <const> ** int(...)` not found")
    ok, base = fenv.try_const(pows[0][0])
    if not ok or not isinstance(base, int) or isinstance(base, bool):
        raise TranslateError("process_memory_address: `scale = <const> ** int(...)` not found")
    r["scale_base"] = base
    # the test that guards it: <shift_op>.lower() in <constant collection of strings>
    cands = []
    guards = []     # conditional expressions `<pow> if <test> else <default>`
    for st in ast.walk(pm):
        if isinstance(st, ast.IfExp) and any(x is pows[0][1] for x in ast.walk(st.body)):
            guards.append(st)
        elif not (isinstance(st, ast.If) and any(x is pows[0][1] for b in st.body for x in ast.walk(b))):
            continue
        for n in _through(st.test, fenv):
            if isinstance(n, ast.Compare) and len(n.ops) == 1 and isinstance(n.ops[0], (ast.In, ast.NotIn)):
                ok, v = fenv.try_const(n.comparators[0])
                if ok and isinstance(v, (list, tuple, set, frozenset)) and v and all(isinstance(x, str) for x in v):
                    cands.append((n, sorted(v) if isinstance(v, (set, frozenset)) else list(v)))
    if len(cands) != 1:
        raise TranslateError("process_memory_address: list of scaling shift ops not found")
    test, r["valid"] = cands[0]
    if not any(isinstance(x, ast.Attribute) and x.attr == "lower" for x in ast.walk(test.left)) \
            or isinstance(test.ops[0], ast.NotIn):
        raise TranslateError("process_memory_address: scaling shift op is not tested as `<op>.lower() in <list>`")
    # the variable handed to MemoryOperand(scale=...): its constant (default) assignment
    ctor = only([n for n in ast.walk(pm) if U.is_call(n, name="MemoryOperand")], "process_memory_address: MemoryOperand(...)")
    sv = only([k.value for k in ctor.keywords if k.arg == "scale"], "process_memory_address: MemoryOperand(scale=...)")
    if not isinstance(sv, ast.Name):
        raise TranslateError("process_memory_address: default scale not found")
    defaults, others = [], []
    for g in guards:
        ok, c = fenv.try_const(g.orelse)
        if ok and isinstance(c, int) and not isinstance(c, bool):
            defaults.append(c)
        else:
            raise TranslateError("process_memory_address: default scale not found")
    for v in fenv.assigns.get(sv.id, []):
        ok, c = fenv.try_const(v) if v is not None else (False, None)
        if ok and isinstance(c, int) and not isinstance(c, bool):
            defaults.append(c)
        else:
            others.append(v)
    if len(set(defaults)) != 1 or len(others) != 1 or others[0] is None or not any(x is pows[0][1] for x in ast.walk(others[0])):
        raise TranslateError("process_memory_address: default scale not found")
    r["default_scale"] = defaults[0]
    # if <x> is not None and "name" in <x> and <x>["name"].lower() == "<alias>": <x>["prefix"] = "<p>"
    ifs = []
    _unrolled_ifs(U.body_without_docstring(pm), fenv, {}, {}, ifs)
    forced = []
    for node, b, al in ifs:
        if len(node.body) != 1 or not isinstance(node.body[0], ast.Assign) or len(node.body[0].targets) != 1:
            continue
        a = node.body[0]
        tg = a.targets[0]
        if not (isinstance(tg, ast.Subscript) and isinstance(tg.value, ast.Name)):
            continue
        ok, key = fenv.try_const(tg.slice, b)
        if not ok or key != "prefix":
            continue
        ok, val = fenv.try_const(a.value, b)
        if not ok or not isinstance(val, str):
            raise TranslateError("process_memory_address: forced prefix at line %d is not a constant" % node.lineno)
        var = tg.value.id
        names = []
        conj = node.test.values if isinstance(node.test, ast.BoolOp) and isinstance(node.test.op, ast.And) else [node.test]
        for c in conj:
            if isinstance(c, ast.Name) and c.id == var:
                continue        # `x and ...` for `x is not None and ...` (an empty dict has no "name" either)
            if not (isinstance(c, ast.Compare) and len(c.ops) == 1):
                raise TranslateError("process_memory_address: unexpected alias test at line %d" % node.lineno)
            l, op, rr = c.left, c.ops[0], c.comparators[0]
            if isinstance(op, (ast.Is, ast.IsNot)):
                if not (isinstance(op, ast.IsNot) and isinstance(l, ast.Name) and l.id == var
                        and isinstance(rr, ast.Constant) and rr.value is None):
                    raise TranslateError("process_memory_address: unexpected alias test at line %d" % node.lineno)
                continue
            okl, vl = fenv.try_const(l, b)
            if isinstance(op, ast.In) and okl and vl == "name" and isinstance(rr, ast.Name) and rr.id == var:
                continue
            # <var>["name"].lower() == C   |   C == <var>["name"].lower()   |   <var>["name"].lower() in (C1, C2)
            sides = [(l, rr)] + ([(rr, l)] if isinstance(op, ast.Eq) else [])
            hit = False
            for s, o in sides:
                s = fenv.resolve(s)
                if not (U.is_call(s, "lower") and not s.args):
                    continue
                subj = fenv.resolve(s.func.value)
                by_index = isinstance(subj, ast.Subscript) and isinstance(subj.value, ast.Name) and subj.value.id == var \
                    and fenv.try_const(subj.slice, b) == (True, "name")
                by_get = U.is_call(subj, "get") and isinstance(subj.func.value, ast.Name) and subj.func.value.id == var \
                    and len(subj.args) == 2 and fenv.try_const(subj.args[0], b) == (True, "name") \
                    and fenv.try_const(subj.args[1], b) == (True, "")
                if by_index or by_get:
                    okc, cv = fenv.try_const(o, b)
                    if okc and isinstance(op, ast.Eq) and isinstance(cv, str):
                        names.append(cv)
                        hit = True
                    elif okc and isinstance(op, ast.In) and isinstance(cv, (list, tuple, set, frozenset)) \
                            and all(isinstance(x, str) for x in cv):
                        names += sorted(cv)
                        hit = True
                    break
            if not hit:
                raise TranslateError("process_memory_address: unexpected alias test at line %d" % node.lineno)
        if not names:
            raise TranslateError("process_memory_address: unexpected alias test at line %d" % node.lineno)
        real = al.get(var, var)
        who = _role(fenv, real, param) or real
        forced += [(who, n, val) for n in names]
    who = sorted(set(w for w, _, _ in forced))
    if who != ["base", "index"]:
        raise TranslateError("process_memory_address: alias prefix forcing for %r" % who)
    fb = sorted((n, p) for w, n, p in forced if w == "base")
    fi = sorted((n, p) for w, n, p in forced if w == "index")
    if fb != fi:
        raise TranslateError("process_memory_address: base/index alias handling differs: %r %r" % (fb, fi))
    if len(set(n for n, _ in fb)) != len(fb):
        raise TranslateError("process_memory_address: an alias is forced twice: %r" % fb)
    r["forced"] = fb
    # int(<...>["value"], 0) for offset and post-index
    bases = []
    for node in ast.walk(pm):
        if U.is_call(node, name="int"):
            bnode = node.args[1] if len(node.args) > 1 else None
            for k in node.keywords:
                if k.arg == "base":
                    bnode = k.value
            if bnode is None:
                bases.append(10)
            else:
                ok, v = fenv.try_const(bnode)
                if not ok or not isinstance(v, int):
                    raise TranslateError("process_memory_address: int() base at line %d is not a constant" % node.lineno)
                bases.append(v)
    if sorted(bases) != [0, 0, 10]:
        raise TranslateError("process_memory_address: int() bases %r, model expects offset/post base 0, shift base 10" % bases)
    return r


def _with_helpers(cls, bases, name, reader):
    """`reader(<function>)` on the method `cls.name` after the bounded inter-procedural substitution of helpers
    (astutil_G5.inline_helpers): an "extract method" refactoring of a post-processing function must not show.

    1. Helpers that cannot be part of the modelled API -- underscore-private methods and static methods of the
       class (or of BaseParser) -- are ALWAYS substituted (two levels deep), so behaviour moved into, or added
       through, such a helper is read like the rest of the function.
    2. If the function then does not have the shape the reader expects, every method of the class that the function
       calls is substituted as well (the stage methods `process_*` included) and the reader tries again; if that
       fails too, the first error is reported."""
    fn = U.method(cls, name)
    classes = [cls] + list(bases)
    a, used = G5.inline_helpers(fn, G5.class_resolver(classes, fn, only=G5.is_private_helper), depth=2)
    try:
        return reader(a if used else fn)
    except TranslateError as first:
        b, used_b = G5.inline_helpers(fn, G5.class_resolver(classes, fn), depth=2)
        if not used_b or used_b == used:
            raise
        try:
            return reader(b)
        except TranslateError:
            raise first


def read_sp_operand(po_, interp):
    """sp as a plain operand: `<register>["name"].lower() == "sp"` selects process_sp_register"""
    fenv = U.FnEnv(po_, interp)
    sp_names = []
    for n in ast.walk(po_):
        if isinstance(n, ast.Compare) and len(n.ops) == 1 and isinstance(n.ops[0], (ast.Eq, ast.In)):
            for s, o in ((n.left, n.comparators[0]), (n.comparators[0], n.left)):
                if U.is_call(fenv.resolve(s), "lower"):
                    ok, v = fenv.try_const(o)
                    if ok and isinstance(v, str) and isinstance(n.ops[0], ast.Eq):
                        sp_names.append(v)
                    elif ok and isinstance(v, (list, tuple, set, frozenset)) and s is n.left:
                        sp_names += sorted(v)
    stray = [v for v in U.const_strings(po_, fenv) if v not in ("list", "range", "name") and v not in sp_names]
    if len(sp_names) != 1 or stray:
        raise TranslateError("process_operand: expected exactly the 'sp' special case, got %r" % (sp_names + stray))
    return sp_names


def read_sp_register(ps, interp):
    fenv = U.FnEnv(ps, interp)
    kw = {}
    for c in ast.walk(ps):
        if isinstance(c, ast.Call):
            for k in c.keywords:
                ok, v = fenv.try_const(k.value)
                if ok and k.arg is not None:
                    kw[k.arg] = v
    if set(kw) != {"prefix", "name"} or not all(isinstance(v, str) for v in kw.values()):
        raise TranslateError("process_sp_register: RegisterOperand(prefix=.., name=..) expected")
    return kw


def read_immediate(pi):
    """process_immediate: `<<` of base by int(shift)"""
    if len([n for n in ast.walk(pi) if isinstance(n, ast.BinOp) and isinstance(n.op, ast.LShift)]) != 1:
        raise TranslateError("process_immediate: shifted immediate is no longer `base << shift`")


def read_range_list(rr, interp):
    """resolve_range_list: range(int(a), int(b) + 1)"""
    fenv = U.FnEnv(rr, interp)
    ranges = [c for c in ast.walk(rr) if U.is_call(c, name="range") and len(c.args) == 2 and not c.keywords]
    if len(ranges) != 1:
        raise TranslateError("resolve_range_list: range(int(start), int(end) + c) not found")
    terms, incl = U.linear(ranges[0].args[1], fenv)
    lo_terms, lo_c = U.linear(ranges[0].args[0], fenv)
    if len(terms) != 1 or list(terms.values()) != [1] or not list(terms)[0].startswith("int(") or incl < 0 \
            or lo_c != 0 or len(lo_terms) != 1 or list(lo_terms.values()) != [1] or not list(lo_terms)[0].startswith("int("):
        raise TranslateError("resolve_range_list: range(int(start), int(end) + c) not found")
    return incl


@generator("A64Grammar", [SRC, BASE, "../verif-self:tools/gen/a64grammar.py", "../verif-self:tools/gen/astutil_G4.py",
                         "../verif-self:tools/gen/astutil_G5.py"])
def gen_a64grammar():
    tree = parse(SRC)
    tb = parse(BASE)
    cls = U.class_node(tree, "ParserAArch64")
    bcls = U.class_node(tb, "BaseParser")
    it = U.construct(tree, [cls, bcls])
    g = read_grammar(it)
    interp = U.Interp(tree, [cls, bcls])

    m = _with_helpers(cls, [bcls], "process_memory_address", lambda fn: read_memory(fn, interp))
    sp_names = _with_helpers(cls, [bcls], "process_operand", lambda fn: read_sp_operand(fn, interp))
    kw = _with_helpers(cls, [bcls], "process_sp_register", lambda fn: read_sp_register(fn, interp))

    # parse_file: i + <c> + start_line ; split("\n") ; strip() == ""
    pf = U.read_parse_file(U.method(bcls, "parse_file"), U.Interp(tb, [bcls]))
    if pf["sep"] != "\n":
        raise TranslateError("parse_file: split separator %r" % pf["sep"])
    if pf["blank"] != "strip" or not pf["line_is_element"] or pf["enum_start"] != 0:
        raise TranslateError("parse_file: blank-line skip changed")
    if pf["terms"] != ["i", "start_line"] or pf["const"] < 0:
        raise TranslateError("parse_file: `i + <const> + start_line` not found")
    line_base = pf["const"]

    _with_helpers(cls, [bcls], "process_immediate", read_immediate)
    incl = _with_helpers(cls, [bcls], "resolve_range_list", lambda fn: read_range_list(fn, interp))

    vec_prefixes, pred_chars = g["vec_prefixes"], g["pred_chars"]
    out = [HEADER, "namespace OsacaVerif.Gen.A64\n"]
    def d(name, ty, val, doc):
        out.append("/-- %s -/\ndef %s : %s := %s\n" % (doc, name, ty, val))
    d("commentSym", "List Nat", txt(g["comment_sym"]), "`symbol_comment`")
    d("immSym", "List Nat", txt(g["imm_sym"]), "`symbol_immediate`")
    d("shiftOps", "List (List Nat)", txt_list([s.lower() for s in g["shift_ops"]]),
      "alternatives of `shift_op` (CaselessLiteral, lower-cased), in order: " + " ".join(repr(s) for s in g["shift_ops"]))
    d("validShiftOps", "List (List Nat)", txt_list(m["valid"]), "`valid_shift_ops` of process_memory_address: " + " ".join(m["valid"]))
    d("scaleBase", "Nat", str(m["scale_base"]), "base of `scale = b ** int(shift)`")
    d("defaultScale", "Nat", str(m["default_scale"]), "scale of a memory operand without scaling shift")
    d("conditions", "List (List Nat)", txt_list([c.upper() for c in g["conds"]]), "condition codes (as defined, upper case)")
    d("scalarPrefixes", "List Nat", txt(g["scalar_prefixes"]), "`Word(..., exact=1)` of `scalar`")
    d("vectorPrefixes", "List Nat", txt("".join(vec_prefixes)), "`oneOf(..., caseless=True)` of `vector` (single letters)")
    if any(len(p) != 1 for p in vec_prefixes) or any(len(p) != 1 for p in pred_chars):
        raise TranslateError("oneOf alternatives are not single letters")
    d("laneChars", "List Nat", txt(g["lane_chars"]), "lane digits")
    d("predPrefix", "List Nat", txt(g["pred_prefix"].lower()), "predicate prefix")
    d("predicationChars", "List Nat", txt("".join(pred_chars)), "predication letters")
    d("aliasSp", "List (List Nat)", txt_list(g["aliases"][0]), "names of alias_r31_sp")
    d("aliasZr", "List (List Nat)", txt_list(g["aliases"][1]), "names of alias_r31_zr")
    d("memAliasForced", "List (List Nat × List Nat)",
      "[" + ", ".join("(%s, %s)" % (txt(n), txt(p)) for n, p in m["forced"]) + "]",
      "memory base/index: lower-cased name -> forced prefix")
    d("spOperandName", "List Nat", txt(sp_names[0]), "process_operand: name.lower() that selects process_sp_register")
    d("spOperandPrefix", "List Nat", txt(kw["prefix"]), "process_sp_register prefix")
    d("spOperandResult", "List Nat", txt(kw["name"]), "process_sp_register name")
    d("prfTypes", "List (List Nat)", txt_list([x.upper() for x in g["pf_lists"][0]]), "prefetch types")
    d("prfTargets", "List (List Nat)", txt_list([x.upper() for x in g["pf_lists"][1]]), "prefetch targets")
    d("prfPolicies", "List (List Nat)", txt_list([x.upper() for x in g["pf_lists"][2]]), "prefetch policies")
    d("mnemonicExtra", "List Nat", txt(g["mn_extra"]), "mnemonic = Word(alphanums + this)")
    d("identFirstExtra", "List Nat", txt(g["first_extra"]), "identifier first = alphas + this")
    d("identRestExtra", "List Nat", txt(g["rest_extra"]), "identifier rest = alphanums + this")
    d("relocExtra", "List Nat", txt(g["reloc_extra"]), "relocation = alphanums + this")
    d("wordEndExtra", "List Nat", txt(g["we_extra"]),
      "WordEnd(alphanums + this) after a condition code / prefetch operation" + (" / shift operator" if g["shift_word_end"] else ""))
    d("shiftWordEnd", "Bool", "true" if g["shift_word_end"] else "false",
      "`shift_op + WordEnd(alphanums + wordEndExtra)` in register and arith_immediate: the shift operator is a complete word")
    d("hexPrefix", "List Nat", txt(g["hex_prefix"]), "hex_number prefix literal")
    d("operandSlots", "Nat", str(g["n_slots"]), "operand1 .. operandN of instruction_parser")
    d("lineBase", "Nat", str(line_base), "parse_file: line number = index + this + start_line")
    d("rangeInclusive", "Nat", str(incl), "resolve_range_list: range(int(a), int(b) + this)")
    out.append("end OsacaVerif.Gen.A64\n")
    return "\n".join(out)
