"""Gen/A64Grammar.lean: literals of the AArch64 grammar and its post-processing (C10).

Everything the model `Model/ParseA64.lean` treats as a constant is read from the working tree's
`osaca/parser/parser_AArch64.py` and `base_parser.py`: comment/immediate symbols, the shift/extend
operator list and the subset that scales a memory index, the base of `scale = 2 ** n`, condition
codes, register prefix sets, lane digits, predication letters, the sp/zr alias regexes and the prefix
forced on them, prefetch keywords, character sets of mnemonic/identifier, the number of operand slots,
and the line-number base of `parse_file`.
"""
import ast
import re as _re

from translate import TranslateError, generator, parse, find_func, txt, txt_list, HEADER

SRC = "osaca/parser/parser_AArch64.py"


def _assign(fn, name):
    """value of the (last) simple assignment `name = ...` or `self.name = ...` inside fn"""
    found = None
    for plain in (True, False):
        for node in ast.walk(fn):
            if isinstance(node, ast.Assign) and len(node.targets) == 1:
                tg = node.targets[0]
                if plain and isinstance(tg, ast.Name) and tg.id == name:
                    found = node.value
                if not plain and isinstance(tg, ast.Attribute) and tg.attr == name \
                        and isinstance(tg.value, ast.Name) and tg.value.id == "self":
                    found = node.value
        if found is not None:
            break
    if found is None:
        raise TranslateError("construct: assignment to %r not found" % name)
    return found


def _calls(node, attr):
    """all calls `pp.<attr>(...)` below node, in source order"""
    out = [n for n in ast.walk(node) if isinstance(n, ast.Call) and isinstance(n.func, ast.Attribute)
           and n.func.attr == attr]
    out.sort(key=lambda n: (n.lineno, n.col_offset))
    return out


def _strarg(call, what):
    if not call.args or not isinstance(call.args[0], ast.Constant) or not isinstance(call.args[0].value, str):
        raise TranslateError("%s: expected a string literal argument (line %d)" % (what, call.lineno))
    return call.args[0].value


def _caseless(node, what, n_min=1):
    lits = [_strarg(c, what) for c in _calls(node, "CaselessLiteral")]
    if len(lits) < n_min:
        raise TranslateError("%s: expected CaselessLiteral alternatives" % what)
    return lits


def _is_or_chain(node):
    """expr is `a ^ b ^ c` possibly followed by .setResultsName(...)"""
    while isinstance(node, ast.Call) and isinstance(node.func, ast.Attribute) and node.func.attr == "setResultsName":
        node = node.func.value
    return isinstance(node, ast.BinOp) and isinstance(node.op, ast.BitXor)


def _charset(node, what):
    """`pp.alphas + "_."`-like expression -> (names of pp sets, literal extra chars)"""
    names, extra = [], ""
    def go(n):
        nonlocal extra
        if isinstance(n, ast.BinOp) and isinstance(n.op, ast.Add):
            go(n.left); go(n.right)
        elif isinstance(n, ast.Attribute):
            names.append(n.attr)
        elif isinstance(n, ast.Constant) and isinstance(n.value, str):
            extra += n.value
        else:
            raise TranslateError("%s: unexpected character-set expression" % what)
    go(node)
    return names, extra


def _word_arg(call, what):
    if not call.args:
        raise TranslateError("%s: Word without argument" % what)
    return _charset(call.args[0], what)


@generator("A64Grammar", [SRC, "osaca/parser/base_parser.py"])
def gen_a64grammar():
    tree = parse(SRC)
    cp = find_func(tree, "construct_parser", "ParserAArch64")

    def cstr(name):
        v = _assign(cp, name)
        if not (isinstance(v, ast.Constant) and isinstance(v.value, str)):
            raise TranslateError("%s is not a string literal" % name)
        return v.value

    comment_sym = cstr("symbol_comment")
    imm_sym = cstr("symbol_immediate")

    so = _assign(cp, "shift_op")
    if not _is_or_chain(so):
        raise TranslateError("shift_op is not a `^` chain of CaselessLiteral")
    shift_ops = _caseless(so, "shift_op", 2)
    cond = _assign(cp, "condition")
    if not _is_or_chain(cond):
        raise TranslateError("condition is not a `^` chain of CaselessLiteral")
    conds = _caseless(cond, "condition", 2)

    pf = _assign(cp, "prefetch_op")
    groups = [c for c in _calls(pf, "Group")]
    # innermost groups: those whose argument is an or-chain of CaselessLiteral
    pf_lists = []
    for g in groups:
        if g.args and _is_or_chain(g.args[0]):
            pf_lists.append(_caseless(g.args[0], "prefetch_op"))
    if len(pf_lists) != 3:
        raise TranslateError("prefetch_op: expected three keyword groups, got %d" % len(pf_lists))

    scalar = _assign(cp, "scalar")
    w = _calls(scalar, "Word")
    if len(w) != 2:
        raise TranslateError("scalar: expected Word(prefix chars, exact=1) + Word(nums)")
    scalar_prefixes = _strarg(w[0], "scalar prefix")
    if not any(k.arg == "exact" and isinstance(k.value, ast.Constant) and k.value.value == 1 for k in w[0].keywords):
        raise TranslateError("scalar prefix: exact=1 expected")
    if _word_arg(w[1], "scalar name") != (["nums"], ""):
        raise TranslateError("scalar name: Word(nums) expected")

    vector = _assign(cp, "vector")
    oo = _calls(vector, "oneOf")
    if len(oo) != 1:
        raise TranslateError("vector: expected one oneOf(prefixes)")
    vec_prefixes = _strarg(oo[0], "vector prefixes").split()
    if not any(k.arg == "caseless" and isinstance(k.value, ast.Constant) and k.value.value is True for k in oo[0].keywords):
        raise TranslateError("vector prefixes: caseless=True expected")
    vw = _calls(vector, "Word")
    lanes = [c for c in vw if c.args and isinstance(c.args[0], ast.Constant)]
    if len(lanes) != 1:
        raise TranslateError("vector: expected one Word(<lane digits>)")
    lane_chars = _strarg(lanes[0], "lane digits")

    pred = _assign(cp, "predicate")
    po = _calls(pred, "oneOf")
    if len(po) != 1:
        raise TranslateError("predicate: expected one oneOf(predication letters)")
    pred_chars = _strarg(po[0], "predication").split()
    pcl = _caseless(pred, "predicate prefix")
    if len(pcl) != 1:
        raise TranslateError("predicate: expected one CaselessLiteral prefix")
    plits = sorted(_strarg(c, "predicate literal") for c in _calls(pred, "Literal"))
    if plits != [".", "/"]:
        raise TranslateError("predicate: expected Literal('/') and Literal('.'), got %r" % plits)
    plw = [c for c in _calls(pred, "Word") if c.args and isinstance(c.args[0], ast.Constant)]
    if len(plw) != 1 or _strarg(plw[0], "predicate lanes") != lane_chars:
        raise TranslateError("predicate: lane digits differ from vector lane digits")

    aliases = []
    for name in ("alias_r31_sp", "alias_r31_zr"):
        v = _assign(cp, name)
        rx = _calls(v, "Regex")
        if len(rx) != 1:
            raise TranslateError("%s: expected pp.Regex" % name)
        pat = _strarg(rx[0], name)
        m = _re.fullmatch(r"\(\?P<prefix>\[a-zA-Z\]\)\?\(\?P<name>\(([A-Za-z|]+)\)\)", pat)
        if not m:
            raise TranslateError("%s: unexpected regex %r" % (name, pat))
        aliases.append(m.group(1).split("|"))

    # register alternatives, in order
    reg = _assign(cp, "register")
    order = None
    for n in ast.walk(reg):
        if isinstance(n, ast.BinOp) and isinstance(n.op, ast.BitOr):
            names = []
            def flat(x):
                if isinstance(x, ast.BinOp) and isinstance(x.op, ast.BitOr):
                    flat(x.left); flat(x.right)
                elif isinstance(x, ast.Name):
                    names.append(x.id)
                else:
                    names.append("?")
            flat(n)
            if order is None or len(names) > len(order):
                order = names
    want_order = ["alias_r31_sp", "alias_r31_zr", "vector", "scalar", "predicate", "register_list"]
    if order != want_order:
        raise TranslateError("register: alternatives %r, model expects %r" % (order, want_order))

    # operand alternatives (shape of the two Or/MatchFirst expressions)
    def shape(e):
        if isinstance(e, ast.Call) and isinstance(e.func, ast.Attribute) and e.func.attr == "Group" and e.args:
            return shape(e.args[0])
        if isinstance(e, ast.BinOp) and isinstance(e.op, ast.BitXor):
            return "(" + shape(e.left) + "^" + shape(e.right) + ")"
        if isinstance(e, ast.BinOp) and isinstance(e.op, ast.BitOr):
            return "(" + shape(e.left) + "|" + shape(e.right) + ")"
        if isinstance(e, ast.BinOp) and isinstance(e.op, ast.Add):
            return "(" + shape(e.left) + "+" + shape(e.right) + ")"
        if isinstance(e, ast.Name):
            return e.id
        return "?"
    sh_first = shape(_assign(cp, "operand_first"))
    sh_rest = shape(_assign(cp, "operand_rest"))
    want_first = "((prefetch_op+word_end)|((((register^(prefetch_op|immediate))^memory)^arith_immediate)^identifier))"
    want_rest = "(((condition+word_end)|((((register^condition)^immediate)^memory)^arith_immediate))|identifier)"
    if sh_first != want_first or sh_rest != want_rest:
        raise TranslateError("operand alternatives changed: %s / %s" % (sh_first, sh_rest))
    we = _calls(_assign(cp, "word_end"), "WordEnd")
    if len(we) != 1:
        raise TranslateError("word_end: expected pp.WordEnd(chars)")
    we_sets, we_extra = _word_arg(we[0], "word_end")
    if we_sets != ["alphanums"]:
        raise TranslateError("word_end: expected alphanums + extras")
    imm_shape = shape(_assign(cp, "immediate").func.value if isinstance(_assign(cp, "immediate"), ast.Call) else _assign(cp, "immediate"))

    ip = _assign(cp, "instruction_parser")
    slots = []
    for c in ast.walk(ip):
        if isinstance(c, ast.Call) and isinstance(c.func, ast.Attribute) and c.func.attr == "setResultsName" \
                and c.args and isinstance(c.args[0], ast.Constant) and str(c.args[0].value).startswith("operand"):
            who = c.func.value.id if isinstance(c.func.value, ast.Name) else "?"
            slots.append((c.args[0].value, who))
    slots.sort()
    if not slots or slots[0] != ("operand1", "operand_first") or any(w != "operand_rest" for _, w in slots[1:]) \
            or [s for s, _ in slots] != ["operand%d" % (i + 1) for i in range(len(slots))]:
        raise TranslateError("instruction_parser: unexpected operand slots %r" % slots)
    n_slots = len(slots)

    mn = _assign(cp, "mnemonic")
    mw = _calls(mn, "Word")
    if len(mw) != 1:
        raise TranslateError("mnemonic: expected one Word")
    mn_sets, mn_extra = _word_arg(mw[0], "mnemonic")
    if mn_sets != ["alphanums"]:
        raise TranslateError("mnemonic: expected alphanums + extras")
    first = _word_arg(_calls(_assign(cp, "first"), "Word")[0], "identifier first")
    rest = _word_arg(_calls(_assign(cp, "rest"), "Word")[0], "identifier rest")
    if first[0] != ["alphas"] or rest[0] != ["alphanums"]:
        raise TranslateError("identifier character sets changed")
    reloc = _assign(cp, "relocation")
    rw = _word_arg(_calls(reloc, "Word")[0], "relocation")
    if rw[0] != ["alphanums"]:
        raise TranslateError("relocation character set changed")
    hexn = _assign(cp, "hex_number")
    hl = [_strarg(c, "hex literal") for c in _calls(hexn, "Literal")]
    if len(hl) != 2 or hl[0] != "-":
        raise TranslateError("hex_number: expected Optional('-') + Literal(prefix)")
    hex_prefix = hl[1]
    decn = _assign(cp, "decimal_number")
    dl = [_strarg(c, "dec literal") for c in _calls(decn, "Literal")]
    if dl != ["-"]:
        raise TranslateError("decimal_number: expected Optional('-') + Word(nums)")

    # memory post-processing
    pm = find_func(tree, "process_memory_address", "ParserAArch64")
    valid = None
    for node in ast.walk(pm):
        if isinstance(node, ast.List) and node.elts and all(
            isinstance(e, ast.Constant) and isinstance(e.value, str) for e in node.elts
        ):
            valid = [e.value for e in node.elts]
    if valid is None:
        raise TranslateError("process_memory_address: list of scaling shift ops not found")
    pows = [n for n in ast.walk(pm) if isinstance(n, ast.BinOp) and isinstance(n.op, ast.Pow)]
    if len(pows) != 1 or not isinstance(pows[0].left, ast.Constant) or not isinstance(pows[0].left.value, int):
        raise TranslateError("process_memory_address: `scale = <const> ** int(...)` not found")
    scale_base = pows[0].left.value
    default_scale = None
    for node in ast.walk(pm):
        if isinstance(node, ast.Assign) and len(node.targets) == 1 and isinstance(node.targets[0], ast.Name) \
                and node.targets[0].id == "scale" and isinstance(node.value, ast.Constant):
            default_scale = node.value.value
    if not isinstance(default_scale, int):
        raise TranslateError("process_memory_address: default scale not found")
    # if <x> is not None and "name" in <x> and <x>["name"].lower() == "<alias>": <x>["prefix"] = "<p>"
    forced = []
    for node in ast.walk(pm):
        if isinstance(node, ast.If) and len(node.body) == 1 and isinstance(node.body[0], ast.Assign):
            a = node.body[0]
            tg = a.targets[0]
            if isinstance(tg, ast.Subscript) and isinstance(tg.value, ast.Name) and isinstance(a.value, ast.Constant) \
                    and isinstance(tg.slice, ast.Constant) and tg.slice.value == "prefix":
                consts = [n.value for n in ast.walk(node.test) if isinstance(n, ast.Constant) and isinstance(n.value, str)
                          and n.value not in ("name",)]
                lowered = any(isinstance(n, ast.Attribute) and n.attr == "lower" for n in ast.walk(node.test))
                if len(consts) != 1 or not lowered:
                    raise TranslateError("process_memory_address: unexpected alias test at line %d" % node.lineno)
                forced.append((tg.value.id, consts[0], a.value.value))
    who = sorted(set(w for w, _, _ in forced))
    if who != ["base", "index"]:
        raise TranslateError("process_memory_address: alias prefix forcing for %r" % who)
    fb = sorted((n, p) for w, n, p in forced if w == "base")
    fi = sorted((n, p) for w, n, p in forced if w == "index")
    if fb != fi:
        raise TranslateError("process_memory_address: base/index alias handling differs: %r %r" % (fb, fi))
    # int(<...>["value"], 0) for offset and post-index
    bases = []
    for node in ast.walk(pm):
        if isinstance(node, ast.Call) and isinstance(node.func, ast.Name) and node.func.id == "int":
            bases.append(node.args[1].value if len(node.args) > 1 and isinstance(node.args[1], ast.Constant) else 10)
    if sorted(bases) != [0, 0, 10]:
        raise TranslateError("process_memory_address: int() bases %r, model expects offset/post base 0, shift base 10" % bases)

    # sp as a plain operand
    po_ = find_func(tree, "process_operand", "ParserAArch64")
    sp_names = [n.value for n in ast.walk(po_) if isinstance(n, ast.Constant) and isinstance(n.value, str)
                and n.value not in ("list", "range", "name") and n.value != ast.get_docstring(po_, clean=False)]
    if sp_names != ["sp"]:
        raise TranslateError("process_operand: expected exactly the 'sp' special case, got %r" % sp_names)
    ps = find_func(tree, "process_sp_register", "ParserAArch64")
    kw = {}
    for c in ast.walk(ps):
        if isinstance(c, ast.Call):
            for k in c.keywords:
                if isinstance(k.value, ast.Constant):
                    kw[k.arg] = k.value.value
    if set(kw) != {"prefix", "name"}:
        raise TranslateError("process_sp_register: RegisterOperand(prefix=.., name=..) expected")

    # parse_file: i + <c> + start_line ; split("\n") ; strip() == ""
    tb = parse("osaca/parser/base_parser.py")
    pf_ = find_func(tb, "parse_file", "BaseParser")
    line_base = None
    for node in ast.walk(pf_):
        if isinstance(node, ast.BinOp) and isinstance(node.op, ast.Add) and isinstance(node.left, ast.BinOp) \
                and isinstance(node.left.op, ast.Add) and isinstance(node.left.left, ast.Name) \
                and isinstance(node.left.right, ast.Constant) and isinstance(node.right, ast.Name):
            line_base = node.left.right.value
    if not isinstance(line_base, int):
        raise TranslateError("parse_file: `i + <const> + start_line` not found")
    seps = [_strarg(c, "split") for c in ast.walk(pf_) if isinstance(c, ast.Call) and isinstance(c.func, ast.Attribute)
            and c.func.attr == "split"]
    if seps != ["\n"]:
        raise TranslateError("parse_file: split separator %r" % seps)
    conts = [n for n in ast.walk(pf_) if isinstance(n, ast.Continue)]
    strips = [n for n in ast.walk(pf_) if isinstance(n, ast.Attribute) and n.attr == "strip"]
    if len(conts) != 1 or len(strips) != 1:
        raise TranslateError("parse_file: blank-line skip changed")

    # process_immediate: `<<` of base by int(shift)
    pi = find_func(tree, "process_immediate", "ParserAArch64")
    if len([n for n in ast.walk(pi) if isinstance(n, ast.BinOp) and isinstance(n.op, ast.LShift)]) != 1:
        raise TranslateError("process_immediate: shifted immediate is no longer `base << shift`")
    # resolve_range_list: range(int(a), int(b) + 1)
    rr = find_func(tree, "resolve_range_list", "ParserAArch64")
    incl = None
    for c in ast.walk(rr):
        if isinstance(c, ast.Call) and isinstance(c.func, ast.Name) and c.func.id == "range" and len(c.args) == 2:
            hi = c.args[1]
            if isinstance(hi, ast.BinOp) and isinstance(hi.op, ast.Add) and isinstance(hi.right, ast.Constant):
                incl = hi.right.value
            elif isinstance(hi, ast.Call):
                incl = 0
    if not isinstance(incl, int):
        raise TranslateError("resolve_range_list: range(int(start), int(end) + c) not found")

    out = [HEADER, "namespace OsacaVerif.Gen.A64\n"]
    def d(name, ty, val, doc):
        out.append("/-- %s -/\ndef %s : %s := %s\n" % (doc, name, ty, val))
    d("commentSym", "List Nat", txt(comment_sym), "`symbol_comment`")
    d("immSym", "List Nat", txt(imm_sym), "`symbol_immediate`")
    d("shiftOps", "List (List Nat)", txt_list([s.lower() for s in shift_ops]),
      "alternatives of `shift_op` (CaselessLiteral, lower-cased), in order: " + " ".join(repr(s) for s in shift_ops))
    d("validShiftOps", "List (List Nat)", txt_list(valid), "`valid_shift_ops` of process_memory_address: " + " ".join(valid))
    d("scaleBase", "Nat", str(scale_base), "base of `scale = b ** int(shift)`")
    d("defaultScale", "Nat", str(default_scale), "scale of a memory operand without scaling shift")
    d("conditions", "List (List Nat)", txt_list([c.upper() for c in conds]), "condition codes (as defined, upper case)")
    d("scalarPrefixes", "List Nat", txt(scalar_prefixes), "`Word(..., exact=1)` of `scalar`")
    d("vectorPrefixes", "List Nat", txt("".join(vec_prefixes)), "`oneOf(..., caseless=True)` of `vector` (single letters)")
    if any(len(p) != 1 for p in vec_prefixes) or any(len(p) != 1 for p in pred_chars):
        raise TranslateError("oneOf alternatives are not single letters")
    d("laneChars", "List Nat", txt(lane_chars), "lane digits")
    d("predPrefix", "List Nat", txt(pcl[0].lower()), "predicate prefix")
    d("predicationChars", "List Nat", txt("".join(pred_chars)), "predication letters")
    d("aliasSp", "List (List Nat)", txt_list(aliases[0]), "names of alias_r31_sp")
    d("aliasZr", "List (List Nat)", txt_list(aliases[1]), "names of alias_r31_zr")
    d("memAliasForced", "List (List Nat × List Nat)",
      "[" + ", ".join("(%s, %s)" % (txt(n), txt(p)) for n, p in fb) + "]",
      "memory base/index: lower-cased name -> forced prefix")
    d("spOperandName", "List Nat", txt(sp_names[0]), "process_operand: name.lower() that selects process_sp_register")
    d("spOperandPrefix", "List Nat", txt(kw["prefix"]), "process_sp_register prefix")
    d("spOperandResult", "List Nat", txt(kw["name"]), "process_sp_register name")
    d("prfTypes", "List (List Nat)", txt_list([x.upper() for x in pf_lists[0]]), "prefetch types")
    d("prfTargets", "List (List Nat)", txt_list([x.upper() for x in pf_lists[1]]), "prefetch targets")
    d("prfPolicies", "List (List Nat)", txt_list([x.upper() for x in pf_lists[2]]), "prefetch policies")
    d("mnemonicExtra", "List Nat", txt(mn_extra), "mnemonic = Word(alphanums + this)")
    d("identFirstExtra", "List Nat", txt(first[1]), "identifier first = alphas + this")
    d("identRestExtra", "List Nat", txt(rest[1]), "identifier rest = alphanums + this")
    d("relocExtra", "List Nat", txt(rw[1]), "relocation = alphanums + this")
    d("wordEndExtra", "List Nat", txt(we_extra), "WordEnd(alphanums + this) after a condition code / prefetch operation")
    d("hexPrefix", "List Nat", txt(hex_prefix), "hex_number prefix literal")
    d("operandSlots", "Nat", str(n_slots), "operand1 .. operandN of instruction_parser")
    d("lineBase", "Nat", str(line_base), "parse_file: line number = index + this + start_line")
    d("rangeInclusive", "Nat", str(incl), "resolve_range_list: range(int(a), int(b) + this)")
    out.append("end OsacaVerif.Gen.A64\n")
    return "\n".join(out)
