#!/usr/bin/env python3
"""Sensitivity / tolerance test of the plug-ins a64grammar.py and x86parser.py (work package G4).

    /venv/bin/python tools/gen/tests/test_G4.py [-v] [--no-probe] [--fuzz]        exit 0 = pass

The OSACA parser sources ($OSACA_REPO, default /repo) are copied into a temporary directory, the text is
edited, and the plug-in functions are called directly on the copy (`translate.REPO` is pointed at it).

  * HARMLESS variants (behaviour-preserving rewrites): the plug-in output must be IDENTICAL to the baseline.
    That a variant really is harmless is checked independently: the pyparsing grammars constructed by the
    edited code are dumped structurally in a subprocess and must equal the baseline dump, and a fixed list of
    assembly lines / files is parsed by the edited code and must give the same result (skip with --no-probe).
  * REAL mutations: the plug-in output must CHANGE or the plug-in must fail.
  * The seeded breaking changes under seeded/*/patch.diff that touch the parser sources: what the ORIGINAL plug-in
    (commit 6178834) noticed, the new one must notice.
  * --fuzz: the same comparison over every single-node mutation of the three source files (about 2000 mutants).
"""
import importlib.util
import os
import re
import shutil
import subprocess
import sys
import tempfile

HERE = os.path.dirname(os.path.abspath(__file__))
TOOLS = os.path.dirname(os.path.dirname(HERE))
sys.path.insert(0, TOOLS)
import translate as T  # noqa: E402

REPO = os.environ.get("OSACA_REPO", "/repo")
A64 = "osaca/parser/parser_AArch64.py"
X86 = "osaca/parser/parser_x86att.py"
BASE = "osaca/parser/base_parser.py"
VERBOSE = "-v" in sys.argv
PROBE = "--no-probe" not in sys.argv


def load(plugin):
    spec = importlib.util.spec_from_file_location("g4_" + plugin, os.path.join(TOOLS, "gen", plugin + ".py"))
    mod = importlib.util.module_from_spec(spec)
    spec.loader.exec_module(mod)
    return mod


load("a64grammar")
load("x86parser")
GEN = {"A64Grammar": T.GENERATORS["A64Grammar"][0], "X86Parser": T.GENERATORS["X86Parser"][0]}
ROOT = tempfile.mkdtemp(prefix="g4test")
T.OUT = os.path.join(ROOT, "out")
os.makedirs(T.OUT)


ORIGINAL_COMMIT = "6178834"     # the commit before the plug-ins were rewritten


def load_original():
    """the two generator functions as they were before G4 (for the seeded comparison); None if unavailable"""
    out = {}
    saved = dict(T.GENERATORS)
    try:
        for plugin, gen in (("a64grammar", "A64Grammar"), ("x86parser", "X86Parser")):
            p = subprocess.run(["git", "-C", os.path.dirname(TOOLS), "show", "%s:tools/gen/%s.py" % (ORIGINAL_COMMIT, plugin)],
                               stdout=subprocess.PIPE, stderr=subprocess.PIPE, text=True)
            if p.returncode != 0:
                return None
            path = os.path.join(ROOT, "orig_%s.py" % plugin)
            with open(path, "w") as fh:
                fh.write(p.stdout)
            spec = importlib.util.spec_from_file_location("g4_orig_" + plugin, path)
            mod = importlib.util.module_from_spec(spec)
            spec.loader.exec_module(mod)
            out[gen] = T.GENERATORS[gen][0]
    finally:
        T.GENERATORS.clear()
        T.GENERATORS.update(saved)
    return out


def run_fn(fn, tree):
    T.REPO = tree
    try:
        return ("ok", fn())
    except Exception as e:
        return ("fail", "%s: %s" % (type(e).__name__, e))


# ------------------------------------------------------------------------------------------ edits
def sub(old, new, count=1):
    def f(text):
        if text.count(old) < 1:
            raise AssertionError("edit does not apply: %r" % old[:60])
        if count and text.count(old) != count:
            raise AssertionError("edit applies %d times, expected %d: %r" % (text.count(old), count, old[:60]))
        return text.replace(old, new)
    return f


def rx(pattern, repl, min_count=1, flags=0):
    def f(text):
        out, n = re.subn(pattern, repl, text, flags=flags)
        if n < min_count:
            raise AssertionError("regex edit does not apply: %r" % pattern)
        return out
    return f


def rename(*pairs):
    """rename Python identifiers (not string contents, not attributes/keywords of the same spelling)"""
    def f(text):
        for old, new in pairs:
            text, n = re.subn(r"(?<![\"'.\w])%s(?![\"'\w=])|(?<![\"'.\w])%s(?= = )" % (old, old), new, text)
            if n < 1:
                raise AssertionError("rename does not apply: %s" % old)
        return text
    return f


def within(func_name, edit):
    """apply an edit only inside one function (def ... up to the next def at the same indent)"""
    def f(text):
        m = re.search(r"^( *)def %s\(.*?(?=^\1def |\Z)" % func_name, text, flags=re.S | re.M)
        if not m:
            raise AssertionError("function %s not found" % func_name)
        return text[:m.start()] + edit(m.group(0)) + text[m.end():]
    return f


def chain(*edits):
    def f(text):
        for e in edits:
            text = e(text)
        return text
    return f


def make_tree(edits):
    d = tempfile.mkdtemp(prefix="v", dir=ROOT)
    os.makedirs(os.path.join(d, "osaca", "parser"))
    shutil.copy(os.path.join(REPO, "osaca", "__init__.py"), os.path.join(d, "osaca", "__init__.py"))
    for f in os.listdir(os.path.join(REPO, "osaca", "parser")):
        if f.endswith(".py"):
            shutil.copy(os.path.join(REPO, "osaca", "parser", f), os.path.join(d, "osaca", "parser", f))
    for rel, edit in edits.items():
        p = os.path.join(d, rel)
        with open(p, encoding="utf-8") as fh:
            text = fh.read()
        new = edit(text)
        if new == text:
            raise AssertionError("edit of %s changes nothing" % rel)
        compile(new, rel, "exec")
        with open(p, "w", encoding="utf-8") as fh:
            fh.write(new)
    return d


def run(gen, tree):
    T.REPO = tree
    try:
        return ("ok", GEN[gen]())
    except T.TranslateError as e:
        return ("fail", str(e))
    except Exception as e:  # what translate.py records as "unexpected code shape"
        return ("fail", "%s: %s" % (type(e).__name__, e))


PROBE_CODE = r'''
import sys, json, warnings
warnings.simplefilter("ignore")
sys.path.insert(0, sys.argv[1])
import pyparsing as pp
from osaca.parser import ParserX86ATT, ParserAArch64
def attrs(e):
    a = [type(e).__name__.lstrip("_")]
    if type(e).__name__ == "_SingleCharLiteral": a[0] = "Literal"
    if e.resultsName: a.append("name=%s" % e.resultsName)
    if not e.skipWhitespace: a.append("nows")
    if isinstance(e, pp.Literal): a.append("match=%r" % e.match)
    if isinstance(e, pp.Word): a.append("init=%r body=%r min=%d max=%d" % ("".join(sorted(e.initChars)), "".join(sorted(e.bodyChars)), e.minLen, min(e.maxLen, 10**9)))
    if isinstance(e, pp.Regex): a.append("pat=%r flags=%r" % (e.pattern, int(e.flags)))
    if isinstance(e, pp.Combine): a.append("join=%r adj=%r" % (e.joinString, e.adjacent))
    if isinstance(e, pp.WordEnd): a.append("wordchars=%r" % "".join(sorted(e.wordChars)))
    return " ".join(a)
def kids(e):
    if hasattr(e, "exprs"):
        out = []
        for s in e.exprs:
            # an unnamed nested And/Or/MatchFirst is what pyparsing's streamline() collapses.  A nested And takes its
            # skipWhitespace from its first member (`word_end + Optional(..)` does not skip because WordEnd does not):
            # splicing it is the same grammar unless the And itself skips and its first member does not
            same_ws = s.skipWhitespace == e.skipWhitespace or (
                isinstance(s, pp.And) and s.exprs and not (s.skipWhitespace and not s.exprs[0].skipWhitespace))
            if type(s) is type(e) and isinstance(e, (pp.And, pp.Or, pp.MatchFirst)) and not s.resultsName and same_ws:
                out += kids(s)
            else:
                out.append(s)
        return out
    if getattr(e, "expr", None) is not None:
        return [e.expr]
    return []
def dump(e, depth, out, seen):
    out.append("  " * depth + attrs(e))
    if depth < 40:
        for s in kids(e):
            dump(s, depth + 1, out, seen)
res = {}
import hashlib
for cls, names in ((ParserX86ATT, ("comment", "label", "directive", "register", "instruction_parser")),
                   (ParserAArch64, ("comment", "label", "directive", "llvm_markers", "register", "condition", "list_element", "instruction_parser"))):
    p = cls()
    for name in names:
        out = []
        dump(getattr(p, name), 0, out, set())
        res[cls.__name__ + "." + name] = hashlib.sha256("\n".join(out).encode()).hexdigest()
def show(x):
    if isinstance(x, (list, tuple)):
        return [show(y) for y in x]
    if isinstance(x, dict):
        return {str(k): show(v) for k, v in sorted(x.items(), key=lambda kv: str(kv[0]))}
    if hasattr(x, "__dict__"):
        return [type(x).__name__, {k: show(v) for k, v in sorted(vars(x).items()) if not k.startswith("__")}]
    return repr(x)
def attempt(f, *a):
    try:
        return show(f(*a))
    except Exception as e:
        return "EXC " + type(e).__name__
X = ["# a comment", "// icc comment", ".L1:", "1:", "  .byte 100,103,144 # marker", "vmovapd %ymm0, (%rax,%rbx,8)", "movl $0x10, -16(%rbp)",
     "vfmadd231pd 8(%rsp,%rcx,4), %zmm1, %zmm2{%k1}{z}", "jmp *%rax", "lea foo@GOT+4(%rip), %rdx", "data16 nop", "movq %fs:0x28, %rax",
     "jg 1b", "call foo::bar", "addq $-1, %r8", "mov 4, %eax", "vaddpd %xmm1,%xmm2,%xmm3,%xmm4", "xchg %ax, %ax # c", "mov $foo, %eax", "leaq (,%rax,2), %rbx", "@@@ !"]
A = ["// a comment", ".L1:", "  .arch armv8-a // c", "ldr x0, [sp, #16]", "str w1, [x2, x3, lsl #2]", "ldr q0, [x1], #16", "stp x29, x30, [sp, #-32]!",
     "add x0, x1, x2, lsl #3", "mov x0, #0x10", "fmov d0, #1.5e+1", "ld1 {v0.4s, v1.4s}, [x0]", "ld1 {v0.2d-v3.2d}, [x0], #64", "ld1 {v0.s, v1.s}[2], [x3]",
     "csel x0, x1, x2, EQ", "b.ne .L1", "prfm pldl1keep, [x0, #256]", "add z0.d, p0/m, z0.d, z1.d", "mov x1, sp", "add sp, sp, #16", "ldr x1, [x2, wzr, sxtw]",
     "ldr x1, [xzr, sp]", "add x1, x2, #1, lsl #12", "cmp w0, wzr", "ldr x0, [x1, :lo12:sym]", "fmla v0.4s, v1.4s, v2.s[1]", "ldr x0, [x1, w2, uxtw #3]", "mov w0, #-5", "@@@ !"]
res["x86.lines"] = [attempt(ParserX86ATT().parse_line, l, i) for i, l in enumerate(X)]
res["a64.lines"] = [attempt(ParserAArch64().parse_line, l, i) for i, l in enumerate(A)]
F = "\n\n  \n".join(A[:6]) + "\n\t\n\n" + A[7] + "\n"
res["a64.file"] = attempt(ParserAArch64().parse_file, F)
res["a64.file7"] = attempt(ParserAArch64().parse_file, "\n" + F, 7)
res["x86.file"] = attempt(ParserX86ATT().parse_file, "\n".join(X[:6]) + "\n \f \n\n" + X[6], 3)
res["isa"] = [attempt(ParserX86ATT.detect_ISA, "\n".join(X)), attempt(ParserX86ATT.detect_ISA, "\n".join(A))]
print(json.dumps(res, sort_keys=True))
'''


def probe(tree):
    import json
    env = dict(os.environ)
    env.pop("PYTHONPATH", None)
    p = subprocess.run([sys.executable, "-W", "ignore", "-c", PROBE_CODE, tree], stdout=subprocess.PIPE,
                       stderr=subprocess.PIPE, text=True, env=env, timeout=300)
    if p.returncode != 0:
        return {"error": p.stderr.strip().split("\n")[-1]}
    return json.loads(p.stdout.strip().split("\n")[-1])


# ------------------------------------------------------------------------------------------ variants
GIVEN = "/tmp/harm/out-B"


def patch_file(path):
    """a unified diff as an edit set (applied with `patch` on the copy).  The given diffs are against the tree they
    were written for; when the parser source has been repaired since (a `fix:` commit touching the same lines), the
    same rewrite rebased onto the repaired text is in `tests/rebased/<name>` and is tried second."""
    return ("patch", path, os.path.join(os.path.dirname(os.path.abspath(__file__)), "rebased", os.path.basename(path)))


def tree_of(spec):
    if isinstance(spec, tuple) and spec[0] == "patch":
        msgs = []
        for diff in spec[1:]:
            if not os.path.exists(diff):
                continue
            d = make_tree({})
            p = subprocess.run(["patch", "-p1", "-s", "-d", d, "-i", diff], stdout=subprocess.PIPE, stderr=subprocess.STDOUT, text=True)
            if p.returncode == 0:
                return d
            msgs.append("patch %s does not apply: %s" % (diff, p.stdout))
            shutil.rmtree(d, ignore_errors=True)
        raise AssertionError("; ".join(msgs))
    return make_tree(spec)


def by_name(table, name):
    """the edit set of the entry with that name (parse_file edits are shared by both plug-ins)"""
    hit = [e[1] for e in table if e[0] == name]
    assert len(hit) == 1, name
    return dict(hit[0])


A64_LOCALS = [("shift_op", "shift_operator"), ("condition", "cond_codes"), ("alias_r31_sp", "sp_alias"),
              ("alias_r31_zr", "zr_alias"), ("vector", "vec_reg"), ("scalar", "gp_or_fp_reg"), ("predicate", "pred_reg"),
              ("register_list", "reg_list"), ("register", "any_register"), ("immediate", "imm"),
              ("arith_immediate", "shifted_imm"), ("prefetch_op", "prfop_kw"), ("word_end", "kw_end"),
              ("operand_first", "op_a"), ("operand_rest", "op_b"), ("mnemonic", "opcode"), ("identifier", "ident"),
              ("hex_number", "hexadecimal"), ("decimal_number", "dec"), ("relocation", "reloc"), ("first", "id_head"),
              ("rest", "id_tail"), ("memory", "mem"), ("symbol_comment", "cs"), ("symbol_immediate", "ims")]

HARMLESS_A64 = [
    ("given h3: operand blocks folded into a loop", patch_file(GIVEN + "/h3.diff")),
    ("given h4: private variable renamed, expressions split", patch_file(GIVEN + "/h4.diff")),
    ("given h5: parse_file / detect_ISA as comprehensions", patch_file(GIVEN + "/h5.diff")),
    ("all locals of construct_parser renamed", {A64: within("construct_parser", rename(*A64_LOCALS))}),
    ("constants hoisted to class / module / local names, strings respelt", {A64: chain(
        sub('class ParserAArch64(BaseParser):\n    _instance = None\n',
            'LANE_DIGITS = "12" "468"\n\n\nclass ParserAArch64(BaseParser):\n    _instance = None\n    IMM_SYMBOL = chr(35)\n    HEX = "0" + "x"\n'),
        sub('symbol_immediate = "#"', 'symbol_immediate = self.IMM_SYMBOL'),
        sub('pp.Literal("0x")', 'pp.Literal(ParserAArch64.HEX)'),
        sub('pp.Word("12468")', 'pp.Word(LANE_DIGITS)', 2),
        sub('pp.Regex("(?P<prefix>[a-zA-Z])?(?P<name>(sp|SP))")', 'pp.Regex(r"(?P<prefix>[a-zA-Z])?" + "(?P<name>(%s|%s))" % ("sp", "SP"))'),
        sub('pp.Word("xwbhsdqXWBHSDQ", exact=1)', 'pp.Word("xwbhsdq" + "xwbhsdq".upper(), exact=2 - 1)'),
        sub('symbol_comment = "//"', 'symbol_comment = "/" * 2'),
        sub('pp.oneOf("v z", caseless=True)', 'pp.oneOf(["v", "z"], caseless=not False)'),
    )}),
    ("shift_op / condition built from tables (comprehension, reduce, loop)", {A64: chain(
        sub('#!/usr/bin/env python3\n', '#!/usr/bin/env python3\nimport functools\nimport operator\n'),
        rx(r'shift_op = \(\n(?: +\^? ?pp\.CaselessLiteral\("[a-z ]+"\)\n)+ +\)\n',
           'shift_op = pp.Or([pp.CaselessLiteral(s) for s in ("lsl", "lsr", "asr", "ror", "sxtw", "sxtx", "uxtw", "uxtb", "mul vl")])\n'),
        rx(r'condition = \(\n(?: +\^? ?pp\.CaselessLiteral\("[A-Z]+"\)  # [^\n]*\n)+ +\)\.setResultsName\("condition"\)\n',
           'codes = "EQ NE CS HS CC LO MI PL VS VC HI LS GE LT GT LE AL".split()\n'
           '        condition = functools.reduce(operator.xor, map(pp.CaselessLiteral, codes)).setResultsName("condition")\n'),
        sub('pp.Group(pp.CaselessLiteral("PLD") ^ pp.CaselessLiteral("PST")).setResultsName("type")',
            'pp.Group(functools.reduce(lambda a, b: a ^ b, [pp.CaselessLiteral(k) for k in ["PLD", "PST"]])).setResultsName("type")'),
    )}),
    ("pyparsing spellings: snake_case, Opt, call shorthand for results names, module not aliased", {A64: chain(
        sub("import pyparsing as pp\n", "import pyparsing\n"),
        rx(r"\bpp\.", "pyparsing."),
        rx(r"\.setResultsName\(\"(shift_op|lanes|shape|prefix|name|index)\"\)", r'("\1")', 10),
        rx(r"\.setResultsName\(", ".set_results_name("),
        rx(r"pyparsing\.Optional\(", "pyparsing.Opt(", 10),
        rx(r"pyparsing\.oneOf\(", "pyparsing.one_of("),
        rx(r"pyparsing\.delimitedList\(", "pyparsing.delimited_list("),
        rx(r"excludeChars=", "exclude_chars="),
        rx(r"pyparsing\.Suppress\(pyparsing\.Literal\(\",\"\)\)", 'pyparsing.Literal(",").suppress()'),
    )}),
    ("sp/zr prefix forcing folded into loops over tables", {A64: within("process_memory_address", rx(
        r'        if base is not None and "name" in base and base\["name"\]\.lower\(\) == "sp":\n.*?index\["prefix"\] = "x"\n(?=        valid_shift_ops)',
        '        for reg in (base, index):\n'
        '            for alias in ("sp", "zr"):\n'
        '                if reg is not None and "name" in reg and reg["name"].lower() == alias:\n'
        '                    reg["prefix"] = "x"\n', flags=re.S))}),
    ("sp/zr prefix forcing as membership tests", {A64: within("process_memory_address", rx(
        r'        if base is not None and "name" in base and base\["name"\]\.lower\(\) == "sp":\n.*?index\["prefix"\] = "x"\n(?=        valid_shift_ops)',
        '        r31 = ("sp", "zr")\n'
        '        if base is not None and "name" in base and base["name"].lower() in r31:\n'
        '            base["prefix"] = "x"\n'
        '        if index is not None and "name" in index and index["name"].lower() in r31:\n'
        '            index["prefix"] = "x"\n', flags=re.S))}),
    ("process_memory_address: locals renamed, constants hoisted and respelt", {A64: chain(
        sub('class ParserAArch64(BaseParser):\n    _instance = None\n',
            'SCALING_SHIFTS = ("lsl", "uxtw", "uxtb", "sxtw", "sxtx")\n\n\nclass ParserAArch64(BaseParser):\n    _instance = None\n    SCALE_BASE = 1 + 1\n'),
        within("process_memory_address", chain(
            rename(("base", "base_reg"), ("index", "idx_reg"), ("scale", "factor"), ("offset", "disp")),
            sub('        valid_shift_ops = ["lsl", "uxtw", "uxtb", "sxtw", "sxtx"]\n', ''),
            sub('.lower() in valid_shift_ops:', '.lower() in SCALING_SHIFTS:'),
            sub('factor = 2 ** int(', 'factor = self.SCALE_BASE ** int('),
            sub('factor = 1\n', 'factor = 10 // 10\n'),
            sub('scale=factor', 'scale=factor'),
            rx(r'int\((.*?), 0\)', r'int(\1, base=0)', 2),
        )))}),
    ("parse_file: enumerate from 1, truthiness blank test, hoisted number", {BASE: within("parse_file", chain(
        sub('for i, line in enumerate(lines):', 'for n, text in enumerate(lines, 1):'),
        sub('            if line.strip() == "":\n                continue\n', '            if not text.strip():\n                continue\n'),
        sub('asm_instructions.append(self.parse_line(line, i + 1 + start_line))',
            'number = start_line + n\n            asm_instructions.append(self.parse_line(text, number))')))}),
    ("parse_file: positive test instead of continue, lines not bound to a local", {BASE: within("parse_file", chain(
        sub('        lines = file_content.split("\\n")\n', ''),
        sub('enumerate(lines)', 'enumerate(file_content.split("\\n"))'),
        sub('            if line.strip() == "":\n                continue\n            asm_instructions.append(self.parse_line(line, i + 1 + start_line))',
            '            if len(line.strip()) > 0:\n                asm_instructions.append(self.parse_line(line, start_line + i + 1))')))}),
    ("resolve_range_list / process_sp_register / process_operand: hoisted parts", {A64: chain(
        within("resolve_range_list", sub('for name in range(int(start_name), int(end_name) + 1):',
                                         'stop = 1 + int(end_name)\n            for name in range(int(start_name), stop):')),
        within("process_sp_register", sub('return RegisterOperand(prefix="x", name="sp")',
                                          'pre, nm = "x", "s" + "p"\n        return RegisterOperand(name=nm, prefix=pre)')),
        within("process_operand", sub('operand[self.register_id]["name"].lower() == "sp"', '"sp" == operand[self.register_id]["name"].lower()')),
    )}),
]

X86_LOCALS = [("decimal_number", "dec"), ("hex_number", "hexadecimal"), ("relocation", "reloc"), ("id_offset", "num_prefix"),
              ("first", "id_head"), ("rest", "id_tail"), ("identifier", "ident"), ("label_rest", "label_tail"),
              ("label_identifier", "label_ident"), ("numeric_identifier", "local_label"), ("immediate", "imm"),
              ("symbol_immediate", "ims"), ("offset", "disp"), ("scale", "factor"), ("segment_extension", "seg_ext"),
              ("memory_segmentation", "mem_seg"), ("memory_abs", "mem_abs"), ("memory", "mem"),
              ("directive_parameter", "dir_param"), ("mnemonic", "opcode"), ("operand_first", "op_a"), ("operand_rest", "op_b")]

X86_MEM_OLD = '''                + pp.Literal(")")
                + pp.Optional(
                    pp.Literal("{")
                    + pp.Optional(pp.Suppress(pp.Literal("%")))
                    + pp.Word(pp.alphanums).setResultsName("mask")
                    + pp.Literal("}")
                )
            )
            | memory_abs
'''
X86_MEM_NEW = '''                + pp.Literal(")")
                + mem_mask
            )
            | pp.Suppress(pp.Literal("*")) + (offset | self.register).setResultsName("offset")
'''

HARMLESS_X86 = [
    ("given h1: tables of is_reg_dependend_of reordered", patch_file(GIVEN + "/h1.diff")),
    ("given h2: parse_line with guard clauses", patch_file(GIVEN + "/h2.diff")),
    ("given h5: parse_file / detect_ISA as comprehensions", patch_file(GIVEN + "/h5.diff")),
    ("all locals of construct_parser renamed", {X86: within("construct_parser", rename(*X86_LOCALS))}),
    ("memory expression: mask part hoisted, memory_abs inlined", {X86: within("construct_parser", chain(
        sub('        memory = pp.Group(\n',
            '        mem_mask = pp.Optional(\n            pp.Literal("{")\n            + pp.Optional(pp.Suppress(pp.Literal("%")))\n'
            '            + pp.Word(pp.alphanums).setResultsName("mask")\n            + pp.Literal("}")\n        )\n        memory = pp.Group(\n'),
        sub(X86_MEM_OLD, X86_MEM_NEW),
        rx(r'        memory_abs = pp\.Suppress\(pp\.Literal\("\*"\)\) \+ \(offset \| self\.register\)\.setResultsName\(\n +"offset"\n +\)\n', '')))}),
    ("parse_instruction: loop over a key table with guard clause", {X86: within("parse_instruction", rx(
        r'        # Check first operand\n.*?result\["operand4"\]\)\)\n',
        '        for key in ("operand1", "operand2", "operand3", "operand4"):\n'
        '            if key not in result:\n                continue\n'
        '            operands.append(self.process_operand(result[key]))\n', flags=re.S))}),
    ("parse_instruction: comprehension over formatted keys, partition instead of split", {X86: within("parse_instruction", chain(
        rx(r'        operands = \[\]\n.*?result\["operand4"\]\)\)\n',
           '        keys = ["operand%d" % k for k in range(1, 5)]\n'
           '        operands = [self.process_operand(result[k]) for k in keys if k in result]\n', flags=re.S),
        sub('result["mnemonic"].split(",")[0]', 'result["mnemonic"].partition(",")[0]')))}),
    ("parse_instruction: f-string keys in a range loop, split with maxsplit", {X86: within("parse_instruction", chain(
        rx(r'        # Check first operand\n.*?result\["operand4"\]\)\)\n',
           '        for n in range(1, 4 + 1):\n'
           '            if f"operand{n}" in result:\n'
           '                operands.append(self.process_operand(result["operand{}".format(n)]))\n', flags=re.S),
        sub('result["mnemonic"].split(",")[0]', 'result["mnemonic"].split(",", 1)[0]')))}),
    ("process_memory_address: locals renamed / reused, scale default as if-else", {X86: within("process_memory_address", chain(
        rename(("baseOp", "base_operand"), ("indexOp", "index_operand"), ("offset", "disp"), ("base", "b"), ("index", "idx")),
        sub('        scale = 1 if "scale" not in memory_address else int(memory_address["scale"], 0)\n',
            '        if "scale" in memory_address:\n            factor = int(memory_address["scale"], 0)\n        else:\n            factor = 1\n'),
        sub('scale=scale', 'scale=factor')))}),
    ("process_memory_address: one variable per field (get-variable reused for the operand)", {X86: within("process_memory_address", chain(
        sub('        baseOp = None\n        indexOp = None\n', ''),
        sub('            baseOp = RegisterOperand(', '            base = RegisterOperand('),
        sub('            indexOp = RegisterOperand(', '            index = RegisterOperand('),
        sub('base=baseOp, index=indexOp', 'base=base, index=index'),
        sub('scale = 1 if "scale" not in memory_address else int(memory_address["scale"], 0)',
            'scale = int(memory_address["scale"], 0) if "scale" in memory_address else 1')))}),
    ("pyparsing spellings: snake_case, Opt, call shorthand, strings respelt, constants hoisted", {X86: chain(
        sub('class ParserX86ATT(BaseParser):\n    _instance = None\n',
            'AUTO = 0\n\n\nclass ParserX86ATT(BaseParser):\n    _instance = None\n    PREFIXES = ("data16", "data32")\n'),
        rx(r"\.setResultsName\(\"(name|mask|offset|base|index|scale)\"\)", r'("\1")', 10),
        rx(r"\.setResultsName\(", ".set_results_name("),
        rx(r"pp\.Optional\(", "pp.Opt(", 10),
        rx(r"pp\.oneOf\(", "pp.one_of("),
        rx(r"pp\.delimitedList\(", "pp.delimited_list(", 2),
        rx(r"excludeChars=", "exclude_chars="),
        rx(r"joinString=", "join_string=", 2),
        sub('pp.ZeroOrMore(pp.Literal("data16") | pp.Literal("data32"))',
            'pp.ZeroOrMore(pp.MatchFirst([pp.Literal(p) for p in self.PREFIXES]))'),
        sub('pp.Word(pp.alphanums + "$_.+-")', 'pp.Word(pp.alphanums + "$_." + "+-")'),
        sub('pp.Word("1248", exact=1)', "pp.Word('12' '48', exact=True + 0)"),
        sub('symbol_immediate = "$"', 'symbol_immediate = "\\x24"'),
        within("process_immediate", sub('int(immediate["value"], 0)', 'int(immediate["value"], AUTO)')),
        within("process_memory_address", rx(r', 0\)', ', AUTO)', 3)),
    )}),
    ("parse_line: parse results hoisted, parseAll positional / snake_case", {X86: within("parse_line", chain(
        sub('result = self.process_operand(self.comment.parseString(line, parseAll=True).asDict())',
            'parsed = self.comment.parse_string(line, parse_all=True)\n            result = self.process_operand(parsed.asDict())'),
        sub('self.label.parseString(line, parseAll=True)', 'self.label.parseString(line, True)')))}),
    ("parse_file: enumerate from 1, truthiness blank test, hoisted number", by_name(HARMLESS_A64, "parse_file: enumerate from 1, truthiness blank test, hoisted number")),
    ("parse_file: positive test instead of continue, lines not bound to a local", by_name(HARMLESS_A64, "parse_file: positive test instead of continue, lines not bound to a local")),
]

NUMBERS_OLD = '''        decimal_number = pp.Combine(
            pp.Optional(pp.Literal("-")) + pp.Word(pp.nums)
        ).setResultsName("value")
        hex_number = pp.Combine(
            pp.Optional(pp.Literal("-")) + pp.Literal("0x") + pp.Word(pp.hexnums)
        ).setResultsName("value")
'''
NUMBERS_HELPER = '''    def _number_grammars(self, hex_prefix="0x"):
        """decimal and hexadecimal numbers"""
        def combined(*parts):
            seq = parts[0]
            for p in parts[1:]:
                seq = seq + p
            return pp.Combine(seq).setResultsName("value")

        return (
            combined(pp.Optional(pp.Literal("-")), pp.Word(pp.nums)),
            combined(pp.Optional(pp.Literal("-")), pp.Literal(hex_prefix), pp.Word(pp.hexnums)),
        )

    def construct_parser(self):
'''
EXTRACT = chain(sub(NUMBERS_OLD, "        decimal_number, hex_number = self._number_grammars()\n"),
                sub("    def construct_parser(self):\n", NUMBERS_HELPER))
HARMLESS_A64.append(("number grammars extracted into a helper method with a local helper function", {A64: EXTRACT}))
HARMLESS_X86.append(("number grammars extracted into a helper method with a local helper function", {X86: EXTRACT}))
HARMLESS_X86.append(("process_memory_address: .get(k) without default / conditional expression instead of .get", {X86: within(
    "process_memory_address", chain(
        sub('offset = memory_address.get("offset", None)', 'offset = memory_address.get("offset")'),
        sub('base = memory_address.get("base", None)', 'base = memory_address["base"] if "base" in memory_address else None')))}))

HARMLESS_A64.append(("alias regexes respelt: [A-Za-z], raw string, inner group dropped (grammar dump differs in the pattern text only)", {A64: chain(
    sub('pp.Regex("(?P<prefix>[a-zA-Z])?(?P<name>(sp|SP))")', 'pp.Regex(r"(?P<prefix>[A-Za-z])?(?P<name>sp|SP)")'),
    sub('pp.Regex("(?P<prefix>[a-zA-Z])?(?P<name>(zr|ZR))")', 'pp.Regex("(?P<prefix>[A-Za-z])?" "(?P<name>(zr|ZR))")'))}, "nodump"))
INDEX_LOOP = {BASE: within("parse_file", chain(
    sub('for i, line in enumerate(lines):', 'for i in range(len(lines)):\n            line = lines[i]')))}
HARMLESS_A64.append(("parse_file: index loop over range(len(lines))", INDEX_LOOP))
HARMLESS_X86.append(("parse_file: index loop over range(len(lines))", INDEX_LOOP))
HARMLESS_A64.append(("character classes spelt differently (alphas + nums, digits spelt out)", {A64: chain(
    sub('mnemonic = pp.Word(pp.alphanums + ".")', 'mnemonic = pp.Word(pp.alphas + pp.nums + ".")'),
    sub('scalar = pp.Word("xwbhsdqXWBHSDQ", exact=1).setResultsName("prefix") + pp.Word(\n            pp.nums\n        )',
        'scalar = pp.Word("xwbhsdqXWBHSDQ", exact=1).setResultsName("prefix") + pp.Word(\n            "0123456789"\n        )'),
    sub('word_end = pp.WordEnd(pp.alphanums + "_.")', 'word_end = pp.WordEnd("_" + pp.alphanums + ".")'))}))
HARMLESS_A64.append(("word end of shift_op as an element of its own, tail of the register split off and re-associated", {A64: chain(
    sub('\n            + word_end\n', '\n            + pp.WordEnd("_." + pp.alphas + pp.nums)\n'),
    sub('                + shift_op.setResultsName("shift_op")\n                + word_end\n                + pp.Optional(immediate).setResultsName("shift")\n',
        '                + (shift_op("shift_op") + (word_end + pp.Optional(immediate)("shift")))\n'))}))
HARMLESS_A64.append(("alias tests with truthiness / .get instead of `is not None and \"name\" in`", {A64: within("process_memory_address", chain(
    sub('if base is not None and "name" in base and base["name"].lower() == "sp":', 'if base and base.get("name", "").lower() == "sp":'),
    sub('if index is not None and "name" in index and index["name"].lower() == "zr":', 'if index and "name" in index and "zr" == index["name"].lower():')))}))
HARMLESS_X86.append(("character classes spelt differently (alphas + nums, digits spelt out)", {X86: chain(
    sub('            + pp.Word(pp.alphanums + "_").setResultsName("name")\n            + pp.ZeroOrMore(directive_parameter)',
        '            + pp.Word(pp.alphas + pp.nums + "_").setResultsName("name")\n            + pp.ZeroOrMore(directive_parameter)'),
    sub('pp.Optional(pp.Literal("(") + pp.Word(pp.nums) + pp.Literal(")"))', 'pp.Optional(pp.Literal("(") + pp.Word("0123456789") + pp.Literal(")"))'))}))

HARMLESS_A64.append(("scale as a conditional expression, nested ifs merged", {A64: within("process_memory_address", chain(
    sub('        scale = 1\n', ''),
    rx(r'        if "index" in memory_address:\n            if "shift" in memory_address\["index"\]:\n                if (memory_address\["index"\]\["shift_op"\]\.lower\(\) in valid_shift_ops):\n +scale = (2 \*\* int\(memory_address\["index"\]\["shift"\]\[0\]\["value"\]\))\n',
       lambda m: '        scaled = (\n            "index" in memory_address\n            and "shift" in memory_address["index"]\n            and %s\n        )\n'
                 '        scale = %s if scaled else 1\n' % (m.group(1), m.group(2)))))}))
HARMLESS_X86.append(("process_memory_address: operands built by conditional expressions, split(sep=...)", {
    X86: within("process_memory_address", chain(
        sub('        baseOp = None\n        indexOp = None\n', ''),
        rx(r'        if base is not None:\n            baseOp = RegisterOperand\(\n                (name=base\["name"\], prefix=base\["prefix"\] if "prefix" in base else None)\n            \)\n',
           lambda m: '        baseOp = RegisterOperand(%s) if base is not None else None\n' % m.group(1)),
        rx(r'        if index is not None:\n            indexOp = RegisterOperand\(\n                (name=index\["name"\], prefix=index\["prefix"\] if "prefix" in index else None)\n            \)\n',
           lambda m: '        indexOp = None if index is None else RegisterOperand(%s)\n' % m.group(1)))),
    BASE: sub('file_content.split("\\n")', 'file_content.split(sep=chr(10))')}))

SLOT_LOOP_OLD_A64 = '''            + pp.Optional(operand_first.setResultsName("operand1"))
            + pp.Optional(pp.Suppress(pp.Literal(",")))
            + pp.Optional(operand_rest.setResultsName("operand2"))
            + pp.Optional(pp.Suppress(pp.Literal(",")))
            + pp.Optional(operand_rest.setResultsName("operand3"))
            + pp.Optional(pp.Suppress(pp.Literal(",")))
            + pp.Optional(operand_rest.setResultsName("operand4"))
            + pp.Optional(pp.Suppress(pp.Literal(",")))
            + pp.Optional(operand_rest.setResultsName("operand5"))
            + pp.Optional(self.comment)
        )
'''
SLOT_LOOP_NEW = '''            + pp.Optional(operand_first.setResultsName("operand1"))
        )
        for slot in range(2, %d):
            self.instruction_parser += pp.Optional(pp.Suppress(pp.Literal(",")))
            self.instruction_parser += pp.Optional(operand_rest.setResultsName(f"operand{slot}"))
        self.instruction_parser += pp.Optional(self.comment)
'''
HARMLESS_A64.append(("operand slots 2..5 appended to instruction_parser in a loop", {A64: sub(SLOT_LOOP_OLD_A64, SLOT_LOOP_NEW % 6)}))
HARMLESS_X86.append(("operand slots 2..4 appended to instruction_parser in a loop", {X86: sub(
    SLOT_LOOP_OLD_A64.replace('            + pp.Optional(pp.Suppress(pp.Literal(",")))\n            + pp.Optional(operand_rest.setResultsName("operand5"))\n', ""),
    SLOT_LOOP_NEW % 5)}))
HARMLESS_X86.append(("tuple / chained assignments in process_memory_address, comment joined in an if-statement", {X86: chain(
    within("process_memory_address", chain(
        sub('        base = memory_address.get("base", None)\n        baseOp = None\n        indexOp = None\n        index = memory_address.get("index", None)\n',
            '        base, index = memory_address.get("base", None), memory_address.get("index", None)\n        baseOp = indexOp = None\n'))),
    within("parse_instruction", chain(
        sub('        return_dict = InstructionForm(', '        comment = None\n        if self.comment_id in result:\n            comment = " ".join(result[self.comment_id])\n        return_dict = InstructionForm('),
        sub('comment_id=" ".join(result[self.comment_id]) if self.comment_id in result else None', 'comment_id=comment'))))}))

def from_import(text):
    """`import pyparsing as pp` + `pp.X`  ->  `from pyparsing import X, ...` + `X`"""
    names = sorted(set(re.findall(r"\bpp\.([A-Za-z_][A-Za-z0-9_]*)", text)))
    text = text.replace("import pyparsing as pp\n", "from pyparsing import (\n    %s,\n)\n" % ",\n    ".join(names))
    return re.sub(r"\bpp\.([A-Za-z_][A-Za-z0-9_]*)", r"\1", text)


HARMLESS_A64.append(("`from pyparsing import ...` instead of the module alias", {A64: from_import}))
HARMLESS_X86.append(("`from pyparsing import ...` instead of the module alias", {X86: from_import}))

REAL_A64 = [
    ("comment symbol // -> ;", {A64: sub('symbol_comment = "//"', 'symbol_comment = ";"')}),
    ("shift op ror dropped", {A64: sub('            ^ pp.CaselessLiteral("ror")\n', '')}),
    ("condition code EQ -> EZ", {A64: sub('pp.CaselessLiteral("EQ")', 'pp.CaselessLiteral("EZ")')}),
    ("register alternatives: scalar before vector", {A64: sub('alias_r31_sp | alias_r31_zr | vector | scalar |', 'alias_r31_sp | alias_r31_zr | scalar | vector |', 0)}),
    ("lane digits 12468 -> 1248 in vector", {A64: sub('pp.Word("12468")', 'pp.Word("1248")', 0)}),
    ("lane digits changed only in predicate", {A64: rx(r'(pp\.CaselessLiteral\("p"\).*?)pp\.Word\("12468"\)', r'\1pp.Word("1248")', flags=re.S)}),
    ("alias regex (sp|SP) -> (sp)", {A64: sub('(?P<name>(sp|SP))', '(?P<name>(sp))')}),
    ("alias regex (sp|SP) -> (sp|Sp)", {A64: sub('(?P<name>(sp|SP))', '(?P<name>(sp|Sp))')}),
    ("alias regex made case-insensitive by an inline flag", {A64: sub('"(?P<prefix>[a-zA-Z])?(?P<name>(sp|SP))"', '"(?i)(?P<prefix>[a-zA-Z])?(?P<name>(sp|SP))"')}),
    ("alias regex character class [a-zA-Z] -> [a-z]", {A64: sub('pp.Regex("(?P<prefix>[a-zA-Z])?(?P<name>(zr|ZR))")', 'pp.Regex("(?P<prefix>[a-z])?(?P<name>(zr|ZR))")')}),
    ("scalar prefix exact=1 -> exact=2", {A64: sub('pp.Word("xwbhsdqXWBHSDQ", exact=1)', 'pp.Word("xwbhsdqXWBHSDQ", exact=2)')}),
    ("scalar prefix set loses q", {A64: sub('"xwbhsdqXWBHSDQ"', '"xwbhsdXWBHSD"')}),
    ("vector oneOf no longer caseless", {A64: sub('pp.oneOf("v z", caseless=True)', 'pp.oneOf("v z")')}),
    ("operand5 slot dropped", {A64: sub('            + pp.Optional(pp.Suppress(pp.Literal(",")))\n            + pp.Optional(operand_rest.setResultsName("operand5"))\n', '')}),
    ("operand_rest: condition after register in the longest-match group swapped with immediate", {A64: sub('(register ^ condition ^ immediate ^ memory ^ arith_immediate)', '(register ^ immediate ^ condition ^ memory ^ arith_immediate)')}),
    ("mnemonic character set loses '.'", {A64: sub('mnemonic = pp.Word(pp.alphanums + ".")', 'mnemonic = pp.Word(pp.alphanums)')}),
    ("identifier rest gains $", {A64: sub('rest = pp.Word(pp.alphanums + "_.")', 'rest = pp.Word(pp.alphanums + "_.$")')}),
    ("hex prefix 0x -> 0X", {A64: sub('pp.Literal("0x")', 'pp.Literal("0X")')}),
    ("prefetch policy STRM dropped", {A64: sub('pp.Group(pp.CaselessLiteral("KEEP") ^ pp.CaselessLiteral("STRM"))', 'pp.Group(pp.CaselessLiteral("KEEP"))')}),
    ("results name shift_op -> shiftop in register", {A64: rx(r'(register = pp\.Group\(.*?)shift_op\.setResultsName\("shift_op"\)', r'\1shift_op.setResultsName("shiftop")', flags=re.S)}),
    ("shift_op no longer ends at a word boundary (register and arith_immediate)", {A64: sub('            + word_end\n', '', 2)}),
    ("shift_op word end dropped in register only", {A64: sub('\n                + word_end\n', '\n')}),
    ("shift_op word end with other characters than the one of condition codes", {A64: sub(
        '\n                + word_end\n', '\n                + pp.WordEnd(pp.alphanums + "_")\n')}),
    ("scale = 2 ** n -> 3 ** n", {A64: sub('scale = 2 ** int(', 'scale = 3 ** int(')}),
    ("default scale 1 -> 0", {A64: within("process_memory_address", sub('        scale = 1\n', '        scale = 0\n'))}),
    ("valid_shift_ops loses uxtb", {A64: sub('valid_shift_ops = ["lsl", "uxtw", "uxtb", "sxtw", "sxtx"]', 'valid_shift_ops = ["lsl", "uxtw", "sxtw", "sxtx"]')}),
    ("forced prefix x -> w for index sp", {A64: sub('index["name"].lower() == "sp":\n            index["prefix"] = "x"', 'index["name"].lower() == "sp":\n            index["prefix"] = "w"')}),
    ("zr no longer forced for base", {A64: sub('        if base is not None and "name" in base and base["name"].lower() == "zr":\n            base["prefix"] = "x"\n', '')}),
    ("comparison operator of the alias test == -> !=", {A64: sub('base["name"].lower() == "sp"', 'base["name"].lower() != "sp"')}),
    ("offset parsed with base 10 instead of 0", {A64: sub('offset = ImmediateOperand(value=int(offset["value"], 0))', 'offset = ImmediateOperand(value=int(offset["value"], 10))')}),
    ("sp special case compares with wsp", {A64: sub('["name"].lower() == "sp":\n            return self.process_sp_register', '["name"].lower() == "wsp":\n            return self.process_sp_register')}),
    ("process_sp_register prefix x -> w", {A64: sub('RegisterOperand(prefix="x", name="sp")', 'RegisterOperand(prefix="w", name="sp")')}),
    ("range end exclusive", {A64: sub('range(int(start_name), int(end_name) + 1)', 'range(int(start_name), int(end_name))')}),
    ("range start + 1", {A64: sub('range(int(start_name), int(end_name) + 1)', 'range(int(start_name) + 1, int(end_name) + 1)')}),
    ("immediate shift << -> >>", {A64: sub('self.normalize_imd(temp_immediate) << int(', 'self.normalize_imd(temp_immediate) >> int(')}),
    ("line number i + 1 -> i + 2", {BASE: sub('i + 1 + start_line', 'i + 2 + start_line')}),
    ("line number ignores start_line", {BASE: sub('i + 1 + start_line', 'i + 1')}),
    ("blank test without strip", {BASE: sub('if line.strip() == "":', 'if line == "":')}),
    ("blank test inverted", {BASE: sub('if line.strip() == "":', 'if line.strip() != "":')}),
    ("split at \\r\\n", {BASE: sub('file_content.split("\\n")', 'file_content.split("\\r\\n")')}),
    ("enumerate from 1 without adjusting the number", {BASE: sub('enumerate(lines)', 'enumerate(lines, 1)')}),
    ("blank lines filtered before enumerating (comprehension)", {BASE: within("parse_file", chain(
        sub('lines = file_content.split("\\n")', 'lines = [x for x in file_content.split("\\n") if x.strip() != ""]'),
        sub('            if line.strip() == "":\n                continue\n', '')))}),
    ("comprehension form that parses the stripped line", {BASE: within("parse_file", rx(
        r'        asm_instructions = \[\]\n.*?        return asm_instructions\n',
        lambda m: '        return [\n            self.parse_line(line.strip(), i + 1 + start_line)\n'
        '            for i, line in enumerate(file_content.split("\\n"))\n            if line.strip() != ""\n        ]\n', flags=re.S))}),
]

REAL_X86 = [
    ("comment symbol # -> ;", {X86: sub('(pp.Literal("#") | pp.Literal("//"))', '(pp.Literal(";") | pp.Literal("//"))')}),
    ("hex prefix 0x -> 0X", {X86: sub('pp.Literal("0x")', 'pp.Literal("0X")')}),
    ("identifier first class loses -", {X86: sub('first = pp.Word(pp.alphas + "-_.", exact=1)', 'first = pp.Word(pp.alphas + "_.", exact=1)')}),
    ("identifier first exact=1 dropped", {X86: sub('first = pp.Word(pp.alphas + "-_.", exact=1)', 'first = pp.Word(pp.alphas + "-_.")')}),
    ("name delimiter :: -> : in identifier", {X86: rx(r'(identifier = pp\.Group\(.*?)delim="::"', r'\1delim=":"', flags=re.S)}),
    ("label rest loses parentheses", {X86: sub('label_rest = pp.Word(pp.alphanums + "$_.+-()")', 'label_rest = pp.Word(pp.alphanums + "$_.+-")')}),
    ("numeric suffixes b f -> b", {X86: sub('pp.oneOf("b f", caseless=True)', 'pp.oneOf("b", caseless=True)')}),
    ("numeric suffix no longer caseless", {X86: sub('pp.oneOf("b f", caseless=True)', 'pp.oneOf("b f")')}),
    ("scale digits 1248 -> 124", {X86: sub('pp.Word("1248", exact=1)', 'pp.Word("124", exact=1)')}),
    ("register index literal ( -> [", {X86: sub('pp.Optional(pp.Literal("(") + pp.Word(pp.nums) + pp.Literal(")"))', 'pp.Optional(pp.Literal("[") + pp.Word(pp.nums) + pp.Literal(")"))')}),
    ("register name class alphanums -> alphas", {X86: sub('            + pp.Word(pp.alphanums).setResultsName("name")\n            + pp.Optional(pp.Literal("(")', '            + pp.Word(pp.alphas).setResultsName("name")\n            + pp.Optional(pp.Literal("(")')}),
    ("immediate symbol $ -> #", {X86: sub('symbol_immediate = "$"', 'symbol_immediate = "#"')}),
    ("memory: second comma literal becomes ;", {X86: rx(r'(memory = pp\.Group\(.*?self\.register\.setResultsName\("index"\)\)\n +\+ pp\.Optional\(pp\.Suppress\(pp\.Literal\()","', r'\1";"', flags=re.S)}),
    ("directive parameter excludeChars ,# -> ,", {X86: sub('excludeChars=",#"', 'excludeChars=","')}),
    ("directive name loses _", {X86: sub('            pp.Literal(".")\n            + pp.Word(pp.alphanums + "_").setResultsName("name")\n            + pp.ZeroOrMore(directive_parameter)',
                                       '            pp.Literal(".")\n            + pp.Word(pp.alphanums).setResultsName("name")\n            + pp.ZeroOrMore(directive_parameter)')}),
    ("mnemonic prefix data32 dropped", {X86: sub('pp.ZeroOrMore(pp.Literal("data16") | pp.Literal("data32"))', 'pp.ZeroOrMore(pp.Literal("data16"))')}),
    ("mnemonic word loses ,", {X86: sub('pp.Word(\n            pp.alphanums + ","\n        ).setResultsName("mnemonic")', 'pp.Word(\n            pp.alphanums\n        ).setResultsName("mnemonic")')}),
    ("operand4 slot dropped", {X86: sub('            + pp.Optional(pp.Suppress(pp.Literal(",")))\n            + pp.Optional(operand_rest.setResultsName("operand4"))\n', '')}),
    ("operand_rest loses memory", {X86: sub('operand_rest = pp.Group(self.register ^ immediate ^ memory)', 'operand_rest = pp.Group(self.register ^ immediate)')}),
    ("mnemonic split index 0 -> 1", {X86: sub('result["mnemonic"].split(",")[0]', 'result["mnemonic"].split(",")[1]')}),
    ("mnemonic split separator , -> .", {X86: sub('result["mnemonic"].split(",")[0]', 'result["mnemonic"].split(".")[0]')}),
    ("two operand indices swapped: operand2 block appends operand3", {X86: sub('if "operand2" in result:\n            operands.append(self.process_operand(result["operand2"]))', 'if "operand2" in result:\n            operands.append(self.process_operand(result["operand3"]))')}),
    ("operands appended in order 2, 1", {X86: within("parse_instruction", chain(
        sub('"operand1"', '"operand_tmp"', 2), sub('"operand2"', '"operand1"', 2), sub('"operand_tmp"', '"operand2"', 2)))}),
    ("operand4 never appended", {X86: sub('        # Check fourth operand\n        if "operand4" in result:\n            operands.append(self.process_operand(result["operand4"]))\n', '')}),
    ("loop form that skips operand1", {X86: within("parse_instruction", rx(
        r'        # Check first operand\n.*?result\["operand4"\]\)\)\n',
        '        for key in ("operand2", "operand3", "operand4"):\n            if key not in result:\n                continue\n'
        '            operands.append(self.process_operand(result[key]))\n', flags=re.S))}),
    ("parse_line tries the label before the comment", {X86: within("parse_line", chain(
        sub('self.comment.parseString(line, parseAll=True)', 'self.TMP.parseString(line, parseAll=True)'),
        sub('self.label.parseString(line, parseAll=True)', 'self.comment.parseString(line, parseAll=True)'),
        sub('self.TMP.parseString(line, parseAll=True)', 'self.label.parseString(line, parseAll=True)')))}),
    ("directive parsed without parseAll", {X86: sub('self.directive.parseString(line, parseAll=True)', 'self.directive.parseString(line)')}),
    ("instruction parsed with parseAll=False", {X86: sub('self.instruction_parser.parseString(instruction, parseAll=True)', 'self.instruction_parser.parseString(instruction, parseAll=False)')}),
    ("immediate parsed with base 10", {X86: sub('ImmediateOperand(value=int(immediate["value"], 0))', 'ImmediateOperand(value=int(immediate["value"], 10))')}),
    ("offset parsed with base 16", {X86: sub('offset = ImmediateOperand(value=int(offset["value"], 0))', 'offset = ImmediateOperand(value=int(offset["value"], 16))')}),
    ("scale default 1 -> 0", {X86: sub('scale = 1 if "scale" not in memory_address', 'scale = 0 if "scale" not in memory_address')}),
    ("scale default test inverted", {X86: sub('scale = 1 if "scale" not in memory_address', 'scale = 1 if "scale" in memory_address')}),
    ("base read from key index and vice versa", {X86: within("process_memory_address", chain(
        sub('base = memory_address.get("base", None)', 'base = memory_address.get("index", None)'),
        sub('index = memory_address.get("index", None)', 'index = memory_address.get("base", None)')))}),
    ("MemoryOperand(base=indexOp, index=baseOp)", {X86: sub('base=baseOp, index=indexOp', 'base=indexOp, index=baseOp')}),
    ("base register named by its prefix", {X86: sub('name=base["name"], prefix=base["prefix"]', 'name=base["prefix"], prefix=base["prefix"]')}),
    ("offset key renamed", {X86: sub('offset = memory_address.get("offset", None)', 'offset = memory_address.get("displacement", None)')}),
    ("line number i + 1 -> i + 2", by_name(REAL_A64, "line number i + 1 -> i + 2")),
    ("line number ignores start_line", by_name(REAL_A64, "line number ignores start_line")),
    ("blank test lstrip", {BASE: sub('if line.strip() == "":', 'if line.lstrip() == "":')}),
    ("blank test inverted", by_name(REAL_A64, "blank test inverted")),
    ("split at \\r\\n", by_name(REAL_A64, "split at \\r\\n")),
    ("enumerate from 1 without adjusting the number", by_name(REAL_A64, "enumerate from 1 without adjusting the number")),
    ("blank lines filtered before enumerating (comprehension)", by_name(REAL_A64, "blank lines filtered before enumerating (comprehension)")),
    ("comprehension form that parses the stripped line", by_name(REAL_A64, "comprehension form that parses the stripped line")),
]



# ------------------------------------------------------------------------------------------ automatic transforms
# behaviour-preserving AST transforms applied to a whole file (every function at once)
import ast  # noqa: E402
import copy  # noqa: E402

def alpha_rename(tree):
    for fn in [n for n in ast.walk(tree) if isinstance(n, ast.FunctionDef)]:
        params = {a.arg for a in fn.args.args + fn.args.kwonlyargs}
        stores = {n.id for n in ast.walk(fn) if isinstance(n, ast.Name) and isinstance(n.ctx, ast.Store)} - params
        for n in ast.walk(fn):
            if isinstance(n, ast.Name) and n.id in stores:
                n.id = n.id + "_r"
    return tree

def flip_eq(tree):
    for n in ast.walk(tree):
        if isinstance(n, ast.Compare) and len(n.ops) == 1 and isinstance(n.ops[0], (ast.Eq, ast.NotEq)):
            n.left, n.comparators[0] = n.comparators[0], n.left
    return tree

class SplitStr(ast.NodeTransformer):
    def visit_Expr(self, node):
        return node if isinstance(node.value, ast.Constant) else self.generic_visit(node)
    def visit_JoinedStr(self, node):
        return node
    def visit_Constant(self, node):
        if isinstance(node.value, str) and len(node.value) >= 2:
            k = len(node.value) // 2
            return ast.BinOp(left=ast.Constant(value=node.value[:k]), op=ast.Add(), right=ast.Constant(value=node.value[k:]))
        return node
def split_strings(tree):
    return ast.fix_missing_locations(SplitStr().visit(tree))

class IntExpr(ast.NodeTransformer):
    def visit_Constant(self, node):
        if isinstance(node.value, int) and not isinstance(node.value, bool):
            return ast.BinOp(left=ast.Constant(value=node.value + 3), op=ast.Sub(), right=ast.Constant(value=3))
        return node
def int_exprs(tree):
    return ast.fix_missing_locations(IntExpr().visit(tree))

class Hoist(ast.NodeTransformer):
    """every string/int constant of a method body (not docstrings, not defaults) bound to a local first"""
    def visit_FunctionDef(self, fn):
        consts = {}
        class C(ast.NodeTransformer):
            def visit_FunctionDef(s, n): return n
            def visit_Lambda(s, n): return n
            def visit_JoinedStr(s, n): return n
            def visit_Expr(s, n):
                return n if isinstance(n.value, ast.Constant) else s.generic_visit(n)
            def visit_Constant(s, n):
                if isinstance(n.value, (str, int)) and not isinstance(n.value, bool):
                    name = consts.setdefault((type(n.value).__name__, n.value), "K%d" % len(consts))
                    return ast.Name(id=name, ctx=ast.Load())
                return n
        body = fn.body
        start = 1 if body and isinstance(body[0], ast.Expr) and isinstance(body[0].value, ast.Constant) else 0
        newbody = [C().visit(st) for st in body[start:]]
        pre = [ast.Assign(targets=[ast.Name(id=v, ctx=ast.Store())], value=ast.Constant(value=k[1]), lineno=0) for k, v in consts.items()]
        fn.body = body[:start] + pre + newbody
        return fn
def hoist_consts(tree):
    return ast.fix_missing_locations(Hoist().visit(tree))

def if_else_swap(tree):
    """if c: A else: B  ->  if not c: B else: A   (statements and conditional expressions)"""
    for n in ast.walk(tree):
        if isinstance(n, ast.If) and n.orelse and not (len(n.orelse) == 1 and isinstance(n.orelse[0], ast.If)):
            n.test = ast.UnaryOp(op=ast.Not(), operand=n.test); n.body, n.orelse = n.orelse, n.body
        elif isinstance(n, ast.IfExp):
            n.test = ast.UnaryOp(op=ast.Not(), operand=n.test); n.body, n.orelse = n.orelse, n.body
    return ast.fix_missing_locations(tree)

def reassoc(tree):
    """(a op b) op c -> a op (b op c) for + ^ | chains"""
    class R(ast.NodeTransformer):
        def visit_BinOp(self, n):
            self.generic_visit(n)
            if isinstance(n.op, (ast.Add, ast.BitXor, ast.BitOr)) and isinstance(n.left, ast.BinOp) and type(n.left.op) is type(n.op):
                a, b, c = n.left.left, n.left.right, n.right
                return self.visit_BinOp(ast.BinOp(left=a, op=n.op, right=ast.BinOp(left=b, op=type(n.op)(), right=c)))
            return n
    return ast.fix_missing_locations(R().visit(tree))

def guards(tree):
    """a trailing `if c: BODY` of a loop body becomes `if not c: continue` + BODY; `if c: continue` + REST becomes if not c: REST"""
    for n in ast.walk(tree):
        if isinstance(n, (ast.For, ast.While)) and n.body:
            last = n.body[-1]
            if isinstance(last, ast.If) and not last.orelse:
                n.body = n.body[:-1] + [ast.If(test=ast.UnaryOp(op=ast.Not(), operand=last.test), body=[ast.Continue()], orelse=[])] + last.body
            else:
                for k, st in enumerate(n.body):
                    if isinstance(st, ast.If) and not st.orelse and len(st.body) == 1 and isinstance(st.body[0], ast.Continue) and n.body[k + 1:]:
                        n.body = n.body[:k] + [ast.If(test=ast.UnaryOp(op=ast.Not(), operand=st.test), body=n.body[k + 1:], orelse=[])]
                        break
    return ast.fix_missing_locations(tree)

def loops_to_comprehensions(tree):
    """acc = []; for x in it: acc.append(e)  ->  acc = [e for x in it]   (adjacent statements only)"""
    for n in ast.walk(tree):
        body = getattr(n, "body", None)
        if not isinstance(body, list):
            continue
        k = 0
        while k + 1 < len(body):
            a, f = body[k], body[k + 1]
            if (isinstance(a, ast.Assign) and len(a.targets) == 1 and isinstance(a.targets[0], ast.Name) and isinstance(a.value, ast.List)
                    and not a.value.elts and isinstance(f, ast.For) and not f.orelse and len(f.body) == 1 and isinstance(f.body[0], ast.Expr)
                    and isinstance(f.body[0].value, ast.Call) and isinstance(f.body[0].value.func, ast.Attribute)
                    and f.body[0].value.func.attr == "append" and isinstance(f.body[0].value.func.value, ast.Name)
                    and f.body[0].value.func.value.id == a.targets[0].id):
                comp = ast.ListComp(elt=f.body[0].value.args[0], generators=[ast.comprehension(target=f.target, iter=f.iter, ifs=[], is_async=0)])
                body[k:k + 2] = [ast.Assign(targets=a.targets, value=comp, lineno=a.lineno)]
            k += 1
    return ast.fix_missing_locations(tree)

TRANSFORMS = [("alpha-rename every local", alpha_rename), ("a == b -> b == a", flip_eq), ("strings split into concatenations", split_strings),
              ("ints as n+3-3", int_exprs), ("every constant of a method hoisted into a local", hoist_consts), ("if/else branches swapped under negation", if_else_swap), ("+ ^ | chains re-associated to the right", reassoc),
              ("guard clauses <-> trailing if in loops", guards), ("append loops -> comprehensions", loops_to_comprehensions)]


def ast_edit(tf):
    return lambda text: ast.unparse(tf(ast.parse(text)))


for _name, _tf in TRANSFORMS:
    for _rel in (A64, BASE):
        HARMLESS_A64.append(("auto, %s: %s" % (os.path.basename(_rel), _name), {_rel: ast_edit(_tf)}))
    for _rel in (X86, BASE):
        HARMLESS_X86.append(("auto, %s: %s" % (os.path.basename(_rel), _name), {_rel: ast_edit(_tf)}))


# ------------------------------------------------------------------------------------------ differential fuzzing (--fuzz)
def mutants(tree):
    """yield (description, mutated tree)"""
    nodes = list(ast.walk(tree))
    for i, n in enumerate(nodes):
        if isinstance(n, ast.Constant) and isinstance(n.value, str) and not isinstance(getattr(n, "_parent", None), ast.Expr):
            for newv in ((n.value[1:] if len(n.value) > 1 else n.value + "q"), n.value + "Q"):
                t2 = copy.deepcopy(tree); m = list(ast.walk(t2))[i]; m.value = newv
                yield ("str %r -> %r line %d" % (n.value, newv, n.lineno), t2)
        elif isinstance(n, ast.Constant) and isinstance(n.value, int) and not isinstance(n.value, bool):
            t2 = copy.deepcopy(tree); m = list(ast.walk(t2))[i]; m.value = n.value + 1
            yield ("int %r -> %r line %d" % (n.value, n.value + 1, n.lineno), t2)
        elif isinstance(n, ast.Constant) and isinstance(n.value, bool):
            t2 = copy.deepcopy(tree); m = list(ast.walk(t2))[i]; m.value = not n.value
            yield ("bool %r flipped line %d" % (n.value, n.lineno), t2)
        elif isinstance(n, ast.Compare) and len(n.ops) == 1:
            sw = {ast.Eq: ast.NotEq, ast.NotEq: ast.Eq, ast.In: ast.NotIn, ast.NotIn: ast.In, ast.Is: ast.IsNot, ast.IsNot: ast.Is, ast.Lt: ast.GtE, ast.Gt: ast.LtE}
            if type(n.ops[0]) in sw:
                t2 = copy.deepcopy(tree); m = list(ast.walk(t2))[i]; m.ops = [sw[type(n.ops[0])]()]
                yield ("cmp %s flipped line %d" % (type(n.ops[0]).__name__, n.lineno), t2)
        elif isinstance(n, ast.BinOp) and isinstance(n.op, (ast.BitXor, ast.BitOr, ast.Add, ast.Pow, ast.LShift)):
            sw = {ast.BitXor: ast.BitOr, ast.BitOr: ast.BitXor, ast.Add: ast.Sub, ast.Pow: ast.Mult, ast.LShift: ast.RShift}
            t2 = copy.deepcopy(tree); m = list(ast.walk(t2))[i]; m.op = sw[type(n.op)]()
            yield ("binop %s swapped line %d" % (type(n.op).__name__, n.lineno), t2)
            if isinstance(n.op, (ast.BitXor, ast.BitOr)) or (isinstance(n.op, ast.Add) and not isinstance(n.left, ast.Constant)):
                t2 = copy.deepcopy(tree); m = list(ast.walk(t2))[i]; m.left, m.right = m.right, m.left
                yield ("binop %s operands swapped line %d" % (type(n.op).__name__, n.lineno), t2)
        elif isinstance(n, ast.Call) and len(n.args) >= 2:
            t2 = copy.deepcopy(tree); m = list(ast.walk(t2))[i]; m.args = m.args[:-1]
            yield ("call last arg dropped line %d" % n.lineno, t2)
        elif isinstance(n, ast.keyword):
            pass
    for i, n in enumerate(nodes):
        if isinstance(n, ast.Call) and n.keywords:
            t2 = copy.deepcopy(tree); m = list(ast.walk(t2))[i]; m.keywords = m.keywords[:-1]
            yield ("call last keyword dropped line %d" % n.lineno, t2)
        if isinstance(n, (ast.If,)) and not n.orelse:
            t2 = copy.deepcopy(tree); m = list(ast.walk(t2))[i]; m.test = ast.Constant(value=True)
            yield ("if test -> True line %d" % n.lineno, t2)


def fuzz(old_gen):
    """every single-node mutation (constants, comparison and binary operators, dropped arguments, `if` tests) of the
    three files: whatever the ORIGINAL plug-in noticed must be noticed by the new one, except mutations that are in
    fact harmless (operands of a commutative `+` swapped; a letter added to a character set that contains it)."""
    lost, stats = [], {}
    tree_dir = make_tree({})
    saved = {}
    for gen, fn in list(GEN.items()) + [("old " + g, f) for g, f in old_gen.items()]:
        g = fn.__globals__
        if "_grammar_digests" in g:          # static sensitivity only; the digest would notice every grammar change
            saved[id(g)] = (g, g["_grammar_digests"])
            g["_grammar_digests"] = lambda: {"x": ["y"]}
    try:
        for gen, rels in (("A64Grammar", (A64, BASE)), ("X86Parser", (X86, BASE))):
            for rel in rels:
                path = os.path.join(tree_dir, rel)
                src = open(os.path.join(REPO, rel), encoding="utf-8").read()
                tree = ast.parse(src)
                for p in ast.walk(tree):
                    for c in ast.iter_child_nodes(p):
                        c._parent = p
                open(path, "w").write(ast.unparse(tree))
                b_old, b_new = run_fn(old_gen[gen], tree_dir), run(gen, tree_dir)
                assert b_old[0] == "ok" and b_new[0] == "ok" and b_old[1] == b_new[1]
                for desc, t2 in mutants(tree):
                    try:
                        text = ast.unparse(t2)
                        compile(text, rel, "exec")
                    except Exception:
                        continue
                    open(path, "w").write(text)
                    o, n = run_fn(old_gen[gen], tree_dir), run(gen, tree_dir)
                    key = (gen, o != b_old, n != b_new)
                    stats[key] = stats.get(key, 0) + 1
                    if o != b_old and n == b_new:
                        lost.append((gen, rel, desc))
                open(path, "w").write(src)
    finally:
        for g, f in saved.values():
            g["_grammar_digests"] = f
    print("fuzz: (generator, noticed by the original plug-in, noticed by the new plug-in): number of mutants")
    for k in sorted(stats):
        print("   %s: %d" % (k, stats[k]))
    bad = [l for l in lost if not ("operands swapped" in l[2] or re.search(r"-> '[^']*[Qq]' line", l[2]))]
    print("fuzz: noticed by the original only: %d, of which not harmless: %d" % (len(lost), len(bad)))
    for l in lost:
        print("   %s%s" % ("NOT HARMLESS " if l in bad else "(harmless) ", l))
    return ["fuzz: %s %s: %s lost" % l for l in bad]


def main():
    failures = []
    base_tree = make_tree({})
    base_out = {}
    for gen in GEN:
        st, text = run(gen, base_tree)
        if st != "ok":
            print("BASELINE %s FAILED: %s" % (gen, text))
            return 1
        base_out[gen] = text
        committed = os.path.join(os.path.dirname(TOOLS), "lean", "OsacaVerif", "Gen", gen + ".lean")
        same = open(committed, encoding="utf-8").read() == text
        print("baseline %-10s ok, %s the committed Gen file" % (gen, "identical to" if same else "DIFFERS from (OSACA_REPO is not the pinned tree?)"))
    base_probe = probe(base_tree) if PROBE else None
    if PROBE and "error" in base_probe:
        print("BASELINE probe failed: %s" % base_probe["error"])
        return 1

    def relevant(pr, gen):
        pre = ("ParserX86ATT.", "x86.", "isa") if gen == "X86Parser" else ("ParserAArch64.", "a64.", "isa")
        return {k: v for k, v in pr.items() if k.startswith(pre)}

    def no_digest(text):
        return "\n".join(l for l in text.split("\n") if not l.startswith(("def grammarDigest", "-- comment:")))

    digest_only = []
    counts = {}
    for gen, harmless, real in (("A64Grammar", HARMLESS_A64, REAL_A64), ("X86Parser", HARMLESS_X86, REAL_X86)):
        n_h = n_r = 0
        for entry in harmless:
            name, spec = entry[0], entry[1]
            opts = entry[2:]
            try:
                tree = tree_of(spec)
            except AssertionError as e:
                failures.append("%s harmless %r: %s" % (gen, name, e))
                print("  ERROR    %s" % failures[-1])
                continue
            st, text = run(gen, tree)
            ok = st == "ok" and text == base_out[gen]
            why = "" if ok else (" -- plug-in failed: " + text if st != "ok" else " -- output differs")
            if PROBE:
                pr = probe(tree)
                if "nodump" in opts:
                    pr = {k: (base_probe[k] if k.startswith("Parser") else v) for k, v in pr.items()}
                if "error" in pr or relevant(pr, gen) != relevant(base_probe, gen):
                    ok = False
                    why += " -- NOT HARMLESS: " + (pr.get("error") or "probe differs in %s" % [k for k in relevant(pr, gen) if pr[k] != base_probe.get(k)])
            n_h += ok
            if not ok:
                failures.append("%s harmless %r%s" % (gen, name, why))
            if VERBOSE or not ok:
                print("  %-8s %s harmless: %s%s" % ("ok" if ok else "FAIL", gen, name, why))
        for name, spec in real:
            try:
                tree = tree_of(spec)
            except AssertionError as e:
                failures.append("%s real %r: %s" % (gen, name, e))
                print("  ERROR    %s" % failures[-1])
                continue
            st, text = run(gen, tree)
            noticed = st != "ok" or text != base_out[gen]
            n_r += noticed
            how = ("fails: " + text[:90]) if st != "ok" else ("output changes" if noticed else "UNNOTICED")
            if st == "ok" and noticed and gen == "X86Parser" and no_digest(text) == no_digest(base_out[gen]):
                how += " (only the digest of the constructed grammar)"
                digest_only.append(name)
            extra = ""
            if PROBE and VERBOSE:
                pr = probe(tree)
                extra = "  [behaviour probe %s]" % ("differs" if ("error" in pr or relevant(pr, gen) != relevant(base_probe, gen)) else "same on the probe inputs")
            if not noticed:
                failures.append("%s real mutation %r not noticed" % (gen, name))
            if VERBOSE or not noticed:
                print("  %-8s %s real: %s -> %s%s" % ("ok" if noticed else "FAIL", gen, name, how, extra))
        counts[gen] = (n_h, len(harmless), n_r, len(real))
    # ---- seeded breaking changes that touch the parser sources: old plug-in (commit before G4) vs new
    seeded_dir = os.path.join(os.path.dirname(TOOLS), "seeded")
    old_gen = load_original()
    if old_gen and os.path.isdir(seeded_dir):
        for sd in sorted(os.listdir(seeded_dir)):
            pth = os.path.join(seeded_dir, sd, "patch.diff")
            if not os.path.exists(pth):
                continue
            files = re.findall(r"^\+\+\+ b/(\S+)", open(pth).read(), flags=re.M)
            if not files or any(not f.startswith("osaca/parser/") for f in files):
                continue
            try:
                tree = tree_of(patch_file(pth))
            except AssertionError as e:
                print("  seeded %s: %s" % (sd, e))
                continue
            for gen in GEN:
                T.REPO = base_tree
                o0 = run_fn(old_gen[gen], base_tree)
                o1 = run_fn(old_gen[gen], tree)
                n1 = run(gen, tree)
                old_noticed = o1[0] != "ok" or o1 != o0
                new_noticed = n1[0] != "ok" or n1[1] != base_out[gen]
                verdict = "ok" if (new_noticed or not old_noticed) else "FAIL"
                if verdict == "FAIL":
                    failures.append("seeded %s: %s noticed by the old plug-in but not by the new one" % (sd, gen))
                if VERBOSE or verdict == "FAIL" or old_noticed or new_noticed:
                    def how(r, noticed):
                        return "unnoticed" if not noticed else ("fails" if r[0] != "ok" else "output changes")
                    print("  %-4s seeded %-40s %-10s old: %-14s new: %s" % (verdict, sd, gen, how(o1, old_noticed), how(n1, new_noticed)))
    else:
        print("seeded comparison skipped (no git history / seeded directory)")
    if "--fuzz" in sys.argv and old_gen:
        failures += fuzz(old_gen)

    for gen, (a, b, c, d) in counts.items():
        print("%s: harmless identical %d/%d, real mutations noticed %d/%d" % (gen, a, b, c, d))
    print("X86Parser real mutations noticed only through the dynamic grammar digest: %d %r" % (len(digest_only), digest_only))
    shutil.rmtree(ROOT, ignore_errors=True)
    if failures:
        print("FAILED (%d):" % len(failures))
        for f in failures:
            print("  " + f)
        return 1
    print("PASS")
    return 0


if __name__ == "__main__":
    sys.exit(main())
