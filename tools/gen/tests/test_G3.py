#!/usr/bin/env python3
"""Sensitivity / tolerance test of the plug-ins regtables.py (RegTables) and reportconsts.py (ReportConsts).

  /venv/bin/python tools/gen/tests/test_G3.py [-v]          exit 0 = pass

The OSACA sources the two plug-ins read are copied from $OSACA_REPO (default /repo) into a temporary
directory; every case rewrites the copy textually and calls the plug-in function directly (the
translator's `REPO` is pointed at the copy, nothing is written to lean/OsacaVerif/Gen).

* HARMLESS cases (behaviour of OSACA unchanged): the output must be IDENTICAL to the baseline.
* REAL cases (behaviour changed): the output must CHANGE or the plug-in must FAIL (TranslateError).
* ORDER cases: a reordering of a table that the code uses in an order-dependent way must show.
* the given patches /tmp/harm/out-B/h{1,6,7}.diff are applied as well when the files exist
  (their content is also covered by text cases, so the test does not depend on them).
* SEEDED: every seeded/*/patch.diff that touches a file the plug-ins read is applied (only to those
  files); the plug-ins as they were before this work (`git show 6178834:tools/gen/...`) and the
  present ones are run: a seeded change the old plug-in noticed (changed output / failure) must be
  noticed by the new one.  Skipped with a note if git or that commit is not available.

A replacement whose old text is not found exactly the stated number of times is a test ERROR
(the pinned source changed: the case has to be rewritten), not a pass.
"""
import importlib.util
import os
import re
import shutil
import subprocess
import sys
import tempfile

HERE = os.path.dirname(os.path.abspath(__file__))
TOOLS = os.path.dirname(os.path.dirname(HERE))
sys.path.insert(0, TOOLS)
import translate as T  # noqa: E402

SRC_REPO = os.environ.get("OSACA_REPO", "/repo")
X86 = "osaca/parser/parser_x86att.py"
A64 = "osaca/parser/parser_AArch64.py"
FRONT = "osaca/frontend.py"
MAIN = "osaca/osaca.py"
ISA = "osaca/semantics/isa_semantics.py"
FILES = [X86, A64, FRONT, MAIN, ISA]
VERBOSE = "-v" in sys.argv


OLD_COMMIT = "6178834"  # the plug-ins before the G3 work
GENS = ("RegTables", "ReportConsts")


def load_plugins():
    for f in ("regtables.py", "reportconsts.py"):
        spec = importlib.util.spec_from_file_location("test_G3_" + f[:-3], os.path.join(TOOLS, "gen", f))
        mod = importlib.util.module_from_spec(spec)
        spec.loader.exec_module(mod)
    return {g: T.GENERATORS[g][0] for g in GENS}


def load_old_plugins(tmp):
    """the generator functions of the plug-ins at OLD_COMMIT, or None"""
    root = os.path.dirname(TOOLS)
    for f in ("regtables.py", "reportconsts.py"):
        r = subprocess.run(["git", "-C", root, "show", "%s:tools/gen/%s" % (OLD_COMMIT, f)], capture_output=True, text=True)
        if r.returncode:
            return None
        path = os.path.join(tmp, "old_" + f)
        with open(path, "w", encoding="utf-8") as fh:
            fh.write(r.stdout)
        spec = importlib.util.spec_from_file_location("test_G3_old_" + f[:-3], path)
        mod = importlib.util.module_from_spec(spec)
        spec.loader.exec_module(mod)
    return {g: T.GENERATORS[g][0] for g in GENS}


class CaseError(Exception):
    pass


class Sub:
    """one textual replacement: old -> new, `count` occurrences expected; regex=True: re.sub;
    within=(start marker, end marker): only between the two markers"""

    def __init__(self, path, old, new, count=1, regex=False, within=None):
        self.path, self.old, self.new, self.count, self.regex, self.within = path, old, new, count, regex, within

    def apply(self, root):
        p = os.path.join(root, self.path)
        with open(p, encoding="utf-8") as f:
            text = f.read()
        lo, hi = 0, len(text)
        if self.within:
            lo = text.index(self.within[0])
            hi = text.index(self.within[1], lo)
        seg = text[lo:hi]
        if self.regex:
            seg2, n = re.subn(self.old, self.new, seg)
        else:
            n = seg.count(self.old)
            seg2 = seg.replace(self.old, self.new)
        if n != self.count:
            raise CaseError("%s: %r found %d times, expected %d" % (self.path, self.old[:60], n, self.count))
        with open(p, "w", encoding="utf-8") as f:
            f.write(text[:lo] + seg2 + text[hi:])


class Diff:
    def __init__(self, path):
        self.path = path

    def apply(self, root):
        r = subprocess.run(["git", "apply", self.path], cwd=root, capture_output=True, text=True)
        if r.returncode:
            raise CaseError("patch %s does not apply: %s" % (self.path, r.stderr[-300:]))


def fresh(root):
    for rel in FILES:
        dst = os.path.join(root, rel)
        os.makedirs(os.path.dirname(dst), exist_ok=True)
        shutil.copy(os.path.join(SRC_REPO, rel), dst)


def run_gen(name, fns=None):
    fn = fns[name] if fns else T.GENERATORS[name][0]
    try:
        return ("ok", fn())
    except T.TranslateError as e:
        return ("fail", str(e))
    except Exception as e:  # an unexpected exception is a loud failure as well (translate.run records it)
        return ("fail", "%s: %s" % (type(e).__name__, e))


# =========================================================================== RegTables cases
LOOP = '''                for dep_group in gpr_groups.values():
                    if reg_a_name in dep_group:
                        if reg_b_name in dep_group:
                            return True
'''
GROUPS = '''        gpr_groups = {
            "A": ["RAX", "EAX", "AX", "AH", "AL"],
            "B": ["RBX", "EBX", "BX", "BH", "BL"],
            "C": ["RCX", "ECX", "CX", "CH", "CL"],
            "D": ["RDX", "EDX", "DX", "DH", "DL"],
            "SP": ["RSP", "ESP", "SP", "SPL"],
            "BP": ["RBP", "EBP", "BP", "BPL"],
            "SRC": ["RSI", "ESI", "SI", "SIL"],
            "DST": ["RDI", "EDI", "DI", "DIL"],
        }
'''
GROUPS_REORDERED = '''        gpr_groups = {
            "SRC": ["SIL", "SI", "ESI", "RSI"],
            "DST": ["DIL", "DI", "EDI", "RDI"],
            "SP": ["SPL", "SP", "ESP", "RSP"],
            "BP": ["BPL", "BP", "EBP", "RBP"],
            "A": ["AL", "AH", "AX", "EAX", "RAX"],
            "B": ["BL", "BH", "BX", "EBX", "RBX"],
            "C": ["CL", "CH", "CX", "ECX", "RCX"],
            "D": ["DL", "DH", "DX", "EDX", "RDX"],
        }
'''
RE_A = '        ma = re.match(r"R([0-9]+)[DWB]?", reg_a_name)\n'
RE_B = '        mb = re.match(r"R([0-9]+)[DWB]?", reg_b_name)\n'
VEC_LIST = '''        if register.name.rstrip(string.digits).lower() in [
            "mm",
            "xmm",
            "ymm",
            "zmm",
        ]:'''
GPR_EXCL = 'register.name.lower().startswith(x) for x in ["mm", "xmm", "ymm", "zmm"]'
A64_BODY = '''        prefixes_gpr = "wx"
        prefixes_vec = "bhsdqvz"
        prefixes_pred = "p"
        if reg_a.name.lower() == reg_b.name.lower():
            if reg_a.prefix.lower() in prefixes_gpr and reg_b.prefix.lower() in prefixes_gpr:
                return True
            if reg_a.prefix.lower() in prefixes_vec and reg_b.prefix.lower() in prefixes_vec:
                return True
            if reg_a.prefix.lower() in prefixes_pred and reg_b.prefix.lower() in prefixes_pred:
                return True
        return False
'''
X86_DEP = ("    def is_reg_dependend_of(self, reg_a, reg_b):", "    def is_basic_gpr(self, register):")

REG_HARMLESS = {
    "h1 as text: groups, members, prefixes reordered; regex hoisted, [BDW], plain string": [
        Sub(X86, GROUPS, GROUPS_REORDERED),
        Sub(X86, RE_A + RE_B, '        numbered_gpr = "R([0-9]+)[BDW]?"\n        ma = re.match(numbered_gpr, reg_a_name)\n'
            '        mb = re.match(numbered_gpr, reg_b_name)\n'),
        Sub(X86, GPR_EXCL, 'register.name.lower().startswith(x) for x in ["zmm", "ymm", "xmm", "mm"]'),
    ],
    "alias table hoisted into a class attribute (tuples), used through self": [
        Sub(X86, GROUPS, ""),
        Sub(X86, "    def is_reg_dependend_of(self, reg_a, reg_b):",
            "    _ALIASES = {\n"
            '        "a": ("RAX", "EAX", "AX", "AH", "AL"), "b": ("RBX", "EBX", "BX", "BH", "BL"),\n'
            '        "c": ("RCX", "ECX", "CX", "CH", "CL"), "d": ("RDX", "EDX", "DX", "DH", "DL"),\n'
            '        "sp": ("RSP", "ESP", "SP", "SPL"), "bp": ("RBP", "EBP", "BP", "BPL"),\n'
            '        "si": ("RSI", "ESI", "SI", "SIL"), "di": ("RDI", "EDI", "DI", "DIL"),\n'
            "    }\n\n    def is_reg_dependend_of(self, reg_a, reg_b):"),
        Sub(X86, "for dep_group in gpr_groups.values():", "for dep_group in self._ALIASES.values():"),
    ],
    "alias table as a module-level list of sets, loop turned into any(...)": [
        Sub(X86, GROUPS, ""),
        Sub(X86, "class ParserX86ATT(BaseParser):",
            'X86_ALIAS_SETS = [\n    {"RDI", "EDI", "DI", "DIL"}, {"RSI", "ESI", "SI", "SIL"}, {"RBP", "EBP", "BP", "BPL"},\n'
            '    {"RSP", "ESP", "SP", "SPL"}, {"DL", "DH", "DX", "EDX", "RDX"}, {"CL", "CH", "CX", "ECX", "RCX"},\n'
            '    {"BL", "BH", "BX", "EBX", "RBX"}, {"AL", "AH", "AX", "EAX", "RAX"},\n]\n\n\nclass ParserX86ATT(BaseParser):'),
        Sub(X86, LOOP, "                if any(reg_a_name in g and reg_b_name in g for g in X86_ALIAS_SETS):\n"
                       "                    return True\n"),
    ],
    "regex compiled once at module level, class respelt, {0,1} for ?": [
        Sub(X86, "class ParserX86ATT(BaseParser):", '_NUMBERED = re.compile("[R]([0123456789]+)[WDB]{0,1}")\n\n\nclass ParserX86ATT(BaseParser):'),
        Sub(X86, RE_A + RE_B, "        ma = _NUMBERED.match(reg_a_name)\n        mb = _NUMBERED.match(reg_b_name)\n"),
    ],
    "slices hoisted into locals, bound respelt, compared in a guard clause": [
        Sub(X86, "                if reg_a_name[1:] == reg_b_name[1:]:\n                    # Registers in the same vector space\n"
                 "                    return True\n",
            "                tail_a = reg_a_name[2 - 1 :]\n                tail_b = reg_b_name[0x1:]\n"
            "                if tail_a != tail_b:\n                    return False\n                return True\n"),
    ],
    "vector names as a reordered class-level tuple": [
        Sub(X86, VEC_LIST, "        if register.name.rstrip(string.digits).lower() in self.VECTOR_STEMS:"),
        Sub(X86, "    def is_vector_register(self, register):",
            '    VECTOR_STEMS = ("zmm", "xmm", "ymm") + ("mm",)\n\n    def is_vector_register(self, register):'),
    ],
    "is_basic_gpr with str.startswith(tuple)": [
        Sub(X86, "any(\n            " + GPR_EXCL + "\n        )", 'register.name.lower().startswith(("ymm", "zmm", "mm", "xmm"))'),
    ],
    "is_basic_gpr as a loop with early return over a reordered tuple": [
        Sub(X86, "        if any(char.isdigit() for char in register.name) or any(\n            " + GPR_EXCL + "\n        ):\n            return False\n        return True\n",
            "        if any(char.isdigit() for char in register.name):\n            return False\n"
            "        lowered = register.name.lower()\n"
            '        for stem in ("ymm", "xmm", "zmm", "mm"):\n            if lowered.startswith(stem):\n                return False\n'
            "        return True\n"),
    ],
    "AArch64: locals renamed, classes in another order, any(...) over a tuple": [
        Sub(A64, A64_BODY,
            '        vec, gpr, pred = "bhsdqvz", "wx", "p"\n'
            '        same = reg_a.name.lower() == reg_b.name.lower()\n'
            "        if not same:\n            return False\n"
            '        return any(reg_a.prefix.lower() in c and reg_b.prefix.lower() in c for c in ("p", "bhsdqvz", "w" "x"))\n'),
    ],
    "AArch64: folded names hoisted, != guard clause, class strings as class attributes": [
        Sub(A64, A64_BODY,
            "        name_a = reg_a.name.lower()\n        name_b = reg_b.name.lower()\n"
            "        if name_a != name_b:\n            return False\n"
            "        pa, pb = reg_a.prefix.lower(), reg_b.prefix.lower()\n"
            "        if pa in self.PRED and pb in self.PRED:\n            return True\n"
            "        if pa in self.VEC and pb in self.VEC:\n            return True\n"
            "        return pa in self.GPR and pb in self.GPR\n"),
        Sub(A64, "    def is_reg_dependend_of(self, reg_a, reg_b):",
            '    GPR = "wx"\n    VEC = "bhsd" + "qvz"\n    PRED = "p"\n\n    def is_reg_dependend_of(self, reg_a, reg_b):'),
    ],
}
if os.path.exists("/tmp/harm/out-B/h1.diff"):
    REG_HARMLESS["given patch h1.diff"] = [Diff("/tmp/harm/out-B/h1.diff")]

REG_REAL = {
    "alias table entry dropped (AH)": [Sub(X86, '"A": ["RAX", "EAX", "AX", "AH", "AL"]', '"A": ["RAX", "EAX", "AX", "AL"]')],
    "alias moved to another group (SPL <-> BPL)": [Sub(X86, '"SP", "SPL"]', '"SP", "BPL"]'), Sub(X86, '"BP", "BPL"]', '"BP", "SPL"]')],
    "regex head letter R -> E": [Sub(X86, 'r"R([0-9]+)[DWB]?", reg_', 'r"E([0-9]+)[DWB]?", reg_', 2)],
    "regex digit class [0-9] -> [0-8]": [Sub(X86, 'r"R([0-9]+)[DWB]?", reg_', 'r"R([0-8]+)[DWB]?", reg_', 2)],
    "regex suffix no longer optional": [Sub(X86, 'r"R([0-9]+)[DWB]?", reg_', 'r"R([0-9]+)[DWB]", reg_', 2)],
    "re.match -> re.fullmatch": [Sub(X86, 're.match(r"R([0-9]+)[DWB]?", reg_', 're.fullmatch(r"R([0-9]+)[DWB]?", reg_', 2)],
    "slice bound 1 -> 2": [Sub(X86, "reg_a_name[1:] == reg_b_name[1:]", "reg_a_name[2:] == reg_b_name[2:]")],
    "slice bound changed on one side": [Sub(X86, "reg_a_name[1:] == reg_b_name[1:]", "reg_a_name[1:] == reg_b_name[2:]")],
    "comparison operator == -> != on the name tails": [Sub(X86, "reg_a_name[1:] == reg_b_name[1:]", "reg_a_name[1:] != reg_b_name[1:]")],
    "vector name dropped (mm)": [Sub(X86, '            "mm",\n', "")],
    "is_basic_gpr prefix changed (zmm -> kmm)": [Sub(X86, '["mm", "xmm", "ymm", "zmm"]', '["mm", "xmm", "ymm", "kmm"]')],
    "AArch64 class string loses a letter": [Sub(A64, 'prefixes_vec = "bhsdqvz"', 'prefixes_vec = "bhsdqv"')],
    "AArch64 class dropped": [Sub(A64, "            if reg_a.prefix.lower() in prefixes_pred and reg_b.prefix.lower() in prefixes_pred:\n                return True\n", "")],
    "AArch64 name comparison no longer case-folded": [Sub(A64, "if reg_a.name.lower() == reg_b.name.lower():", "if reg_a.name == reg_b.name:")],
    "AArch64 names folded on one side only": [Sub(A64, "if reg_a.name.lower() == reg_b.name.lower():", "if reg_a.name.lower() == reg_b.name:")],
    "vector tails compared by lstrip instead of a slice (seeded C12-m1)": [
        Sub(X86, "reg_a_name[1:] == reg_b_name[1:]", "reg_a_name.lstrip(string.ascii_uppercase) == reg_b_name.lstrip(string.ascii_uppercase)")],
}

# the alias table is reordered AND used in an order-dependent way: the reordering must show
REG_ORDER = {
    "groups reordered while a group is picked by position": [
        Sub(X86, GROUPS, GROUPS_REORDERED),
        Sub(X86, "        if self.is_basic_gpr(reg_a):\n            if self.is_basic_gpr(reg_b):\n",
            "        first = list(gpr_groups.values())[0]\n        if reg_a_name in first:\n            return reg_b_name in first\n"
            "        if self.is_basic_gpr(reg_a):\n            if self.is_basic_gpr(reg_b):\n"),
    ],
    "members reordered while the loop variable is indexed": [
        Sub(X86, GROUPS, GROUPS_REORDERED),
        Sub(X86, "                    if reg_a_name in dep_group:\n", "                    if reg_a_name == dep_group[0]:\n"),
    ],
}

# =========================================================================== ReportConsts cases
CV = ("    def combined_view(", "    ####################\n    # HELPER FUNCTIONS")
FLAG_SYMS = '''        string_result = ""
        string_result += "*" if INSTR_FLAGS.NOT_BOUND in flag_obj else ""
        string_result += "X" if INSTR_FLAGS.TP_UNKWN in flag_obj else ""
        string_result += "P" if INSTR_FLAGS.HIDDEN_LD in flag_obj else ""
        # TODO add other flags
        string_result += " " if len(string_result) == 0 else ""
        return string_result
'''
SYMBOL_MAP = '''        symbol_dict = {
            INSTR_FLAGS.NOT_BOUND: "Instruction micro-ops not bound to a port",
            INSTR_FLAGS.TP_UNKWN: "No throughput/latency information for this instruction in "
            + "data file",
            INSTR_FLAGS.HIDDEN_LD: "Throughput of LOAD operation can be hidden behind a past "
            + "or future STORE instruction",
        }
        symbol_map = ""
        for flag in sorted(symbol_dict.keys()):
            symbol_map += " {} - {}\\n".format(self._get_flag_symbols([flag]), symbol_dict[flag])
        return symbol_map
'''
MISSING = '''        s = (
            "------------------ WARNING: The performance data for {} instructions is missing."
            "------------------\\n"
            "                     No final analysis is given. If you want to ignore this\\n"
            "                     warning and run the analysis anyway, start osaca with\\n"
            "                                       --ignore-unknown flag.\\n"
            "--------------------------------------------------------------------------------"
            "----------------{}\\n"
        ).format(amount, "-" * len(str(amount)))
        return s
'''
MAXLEN = '''        port_len = [4 for x in self._machine_model.get_ports()]
        for instruction_form in kernel:
            for i, port in enumerate(instruction_form.port_pressure):
                if len("{:.2f}".format(port)) > port_len[i]:
                    port_len[i] = len("{:.2f}".format(port))
        return port_len
'''
HEADER_FN = '''        adjust = 20
        header = ""
        header += "Open Source Architecture Code Analyzer (OSACA) - {}\\n".format(version)
        header += "Analyzed file:".ljust(adjust) + "{}\\n".format(self._filename)
        header += "Architecture:".ljust(adjust) + "{}\\n".format(self._arch.upper())
        header += "Timestamp:".ljust(adjust) + "{}\\n".format(
            dt.utcnow().strftime("%Y-%m-%d %H:%M:%S")
        )
        return header + "\\n"
'''
UNKNOWN_IF = '''        if not ignore_unknown and INSTR_FLAGS.TP_UNKWN in [
            flag for instr in kernel for flag in instr.flags
        ]:
'''
LENGTH_W = '''        print_length_warning = (
            True if len(kernel) == len(parsed_code) and len(kernel) > 100 else False
        )
'''
DICT_W = '''        if arch_warning:
            warnings.append("ArchWarning")

        if length_warning:
            warnings.append("LengthWarning")
'''

REP_HARMLESS = {
    "h6 as text: f-strings with the same specs, widths respelt": [
        Sub(FRONT, '"-" * (2 * 6 + len(col_sep))', '"-" * (12 + len(col_sep))'),
        Sub(FRONT, '+ "{}{:^6}{}{:^6}{}".format(col_sep, "CP", col_sep, "LCD", col_sep)', "+ f\"{col_sep}{'CP':^6}{col_sep}{'LCD':^6}{col_sep}\""),
        Sub(FRONT, 'return "{} {:>4} {} {:>4} {}".format(separator, lat_cp, separator, lat_lcd, separator)',
            'return f"{separator} {lat_cp:>4} {separator} {lat_lcd:>4} {separator}"'),
        Sub(FRONT, "port_len = [4 for x in", "port_len = [2 + 2 for x in"),
        Sub(FRONT, 'len("{:.2f}".format(port))', 'len(f"{port:.2f}")', 2),
        Sub(FRONT, "adjust = 20", "adjust = 2 * 10"),
        Sub(FRONT, '"Open Source Architecture Code Analyzer (OSACA) - {}\\n".format(version)', 'f"Open Source Architecture Code Analyzer (OSACA) - {version}\\n"'),
        Sub(FRONT, '"{}\\n".format(self._filename)', 'f"{self._filename}\\n"'),
    ],
    "h7 as text: conditional += turned into if statements, else turned into early return": [
        Sub(FRONT, '        warnings += arch_text if arch_warning else ""\n        warnings += length_text if length_warning else ""\n',
            "        if arch_warning:\n            warnings += arch_text\n        if length_warning:\n            warnings += length_text\n"),
        Sub(FRONT, '        warnings += lcd_text if lcd_warning else ""\n', "        if lcd_warning:\n            warnings += lcd_text\n"),
        Sub(FRONT, "            s += self._missing_instruction_error(num_missing)\n        else:\n",
            "            s += self._missing_instruction_error(num_missing)\n            return s\n        if True:\n"),
    ],
    "CP/LCD cell format built by concatenation; title cells written out": [
        Sub(FRONT, 'return "{} {:>4} {} {:>4} {}".format(separator, lat_cp, separator, lat_lcd, separator)',
            'return separator + " " + "{:>4}".format(lat_cp) + " " + str(separator) + f" {lat_lcd:>{2 * 2}} " + separator'),
        Sub(FRONT, '+ "{}{:^6}{}{:^6}{}".format(col_sep, "CP", col_sep, "LCD", col_sep)', '+ "|  CP  | LCD  |"'),
    ],
    "running maximum with max(...), initial list by repetition, minimum as a class attribute": [
        Sub(FRONT, MAXLEN,
            "        port_len = [self.MIN_PORT_LEN] * len(self._machine_model.get_ports())\n"
            "        for instruction_form in kernel:\n"
            "            for i, port in enumerate(instruction_form.port_pressure):\n"
            '                needed = len("%.2f" % port)\n'
            "                port_len[i] = max(needed, port_len[i])\n"
            "        return port_len\n"),
        Sub(FRONT, "class Frontend(object):\n", "class Frontend(object):\n    MIN_PORT_LEN = 0x4\n\n"),
    ],
    "running maximum as a conditional expression with the comparison turned round": [
        Sub(FRONT, '                if len("{:.2f}".format(port)) > port_len[i]:\n                    port_len[i] = len("{:.2f}".format(port))\n',
            '                w = len("{:.2f}".format(port))\n                port_len[i] = w if port_len[i] < w else port_len[i]\n'),
    ],
    "width list rebuilt by a comprehension per instruction form (read by isolated execution)": [
        Sub(FRONT, MAXLEN,
            "        widths = [4] * len(self._machine_model.get_ports())\n"
            "        for form in kernel:\n"
            "            widths = [max(w, len(format(p, '.2f'))) for w, p in zip(widths, form.port_pressure)]\n"
            "        return widths\n"),
    ],
    # behaviourally equivalent although it looks like a mutation: len('%.3f' % x) >= len('%.2f' % x) and at most
    # one more, so the test `len(.3f) > w` selects exactly the x whose `.2f` width is >= w and the assignment
    # stores the `.2f` width; the static reading rejects the shape, the isolated execution confirms the function
    "width probe with .3f in the test only (equivalent; read by isolated execution)": [
        Sub(FRONT, 'if len("{:.2f}".format(port)) >', 'if len("{:.3f}".format(port)) >')],
    "warning helpers as static methods with type hints": [
        Sub(FRONT, "    def _user_warnings_footer(self, lcd_warning):", "    @staticmethod\n    def _user_warnings_footer(lcd_warning: bool) -> str:"),
        Sub(FRONT, "    def _get_flag_symbols(self, flag_obj):", "    def _get_flag_symbols(self, flag_obj: list) -> str:"),
    ],
    "combined_view: locals renamed, separator constant at module level, precision arithmetic regrouped": [
        Sub(FRONT, r"\blineno_filler\b", "indent", 3, regex=True, within=CV),
        Sub(FRONT, r"\bcol_sep\b", "bar", 8, regex=True, within=CV),
        Sub(FRONT, r"\bheadline\b", "caption", 2, regex=True, within=CV),
        Sub(FRONT, 'bar = "|"', "bar = _BAR", within=CV),
        Sub(FRONT, "class Frontend(object):\n", '_BAR = chr(124)\n\n\nclass Frontend(object):\n'),
        Sub(FRONT, "max(port_len[i] - left_len - 1, 0)", "max(0, port_len[i] - (left_len + 1))"),
    ],
    "headline centred with str.center; report title from adjacent literals": [
        Sub(FRONT, 'headline_str = "{{:^{}}}".format(len(separator))\n', "headline_width = len(separator)\n", within=CV),
        Sub(FRONT, "s += headline_str.format(headline)", "s += headline.center(headline_width)", within=CV),
        Sub(FRONT, 's = "\\n\\nCombined Analysis Report\\n------------------------\\n"',
            's = "\\n\\nCombined Analysis " "Report\\n" + 24 * "-" + "\\n"'),
    ],
    "flag symbols with if statements; symbol map reordered with an f-string line": [
        Sub(FRONT, FLAG_SYMS,
            '        out = []\n        if INSTR_FLAGS.NOT_BOUND in flag_obj:\n            out.append("*")\n'
            '        if INSTR_FLAGS.TP_UNKWN in flag_obj:\n            out.append("X")\n'
            '        if INSTR_FLAGS.HIDDEN_LD in flag_obj:\n            out.append("P")\n'
            '        return "".join(out) or " "\n'),
        Sub(FRONT, SYMBOL_MAP,
            "        symbol_dict = {\n"
            '            INSTR_FLAGS.HIDDEN_LD: "Throughput of LOAD operation can be hidden behind a past or future STORE instruction",\n'
            '            INSTR_FLAGS.TP_UNKWN: "No throughput/latency information for this instruction in data file",\n'
            '            INSTR_FLAGS.NOT_BOUND: "Instruction micro-ops not bound to a port",\n'
            "        }\n"
            '        return "".join(f" {self._get_flag_symbols([flag])} - {symbol_dict[flag]}\\n" for flag in sorted(symbol_dict))\n'),
    ],
    "missing-instruction text with %-format and a hoisted dash run": [
        Sub(FRONT, MISSING,
            '        dashes = "-" * len(str(amount))\n'
            '        head = "------------------ WARNING: The performance data for %d instructions is missing." % amount\n'
            '        return (\n            head + 18 * "-" + "\\n"\n'
            '            "                     No final analysis is given. If you want to ignore this\\n"\n'
            '            "                     warning and run the analysis anyway, start osaca with\\n"\n'
            '            "                                       --ignore-unknown flag.\\n"\n'
            '            + "-" * 96 + dashes + "\\n"\n        )\n'),
    ],
    "header with format specs instead of ljust, one expression": [
        Sub(FRONT, HEADER_FN,
            "        stamp = dt.utcnow().strftime(\"%Y-%m-%d %H:%M:%S\")\n"
            "        return (\n"
            "            f\"Open Source Architecture Code Analyzer (OSACA) - {version}\\n\"\n"
            "            f\"{'Analyzed file:':<20}{self._filename}\\n\"\n"
            "            + \"{:<20}{}\\n\".format(\"Architecture:\", self._arch.upper())\n"
            "            + \"Timestamp:\" + 10 * \" \" + stamp + \"\\n\"\n"
            "            + \"\\n\"\n        )\n"),
    ],
    "unknown-instruction test hoisted and inverted (De Morgan, branches swapped)": [
        Sub(FRONT, UNKNOWN_IF, "        has_unknown = INSTR_FLAGS.TP_UNKWN in [\n            flag for instr in kernel for flag in instr.flags\n        ]\n"
                               "        if not (ignore_unknown or not has_unknown):\n"),
    ],
    "osaca.py: DEFAULT_ARCHS reordered, flags as plain boolean expressions, threshold respelt": [
        Sub(MAIN, '    "aarch64": "V2",\n    "x86": "SPR",\n', '    "x86": "SPR",\n    "aarch64": "V" "2",\n'),
        Sub(MAIN, "print_arch_warning = False if args.arch else True", "print_arch_warning = not args.arch"),
        Sub(MAIN, LENGTH_W, "        n_kernel = len(kernel)\n        print_length_warning = 10 ** 2 < n_kernel and len(parsed_code) == n_kernel\n"),
    ],
    "osaca.py: warning flags set by if/else statements, >= threshold + 1": [
        Sub(MAIN, "    print_arch_warning = False if args.arch else True\n",
            "    if args.arch:\n        print_arch_warning = False\n    else:\n        print_arch_warning = True\n"),
        Sub(MAIN, LENGTH_W, "        if len(kernel) == len(parsed_code) and len(kernel) >= 101:\n            print_length_warning = True\n"
                            "        else:\n            print_length_warning = False\n"),
    ],
    "dict warnings with += [..] / extend, INSTR_FLAGS values respelt": [
        Sub(FRONT, DICT_W, '        if arch_warning:\n            warnings += ["ArchWarning"]\n\n        if length_warning:\n            warnings.extend(("Length" "Warning",))\n'),
        Sub(ISA, 'TP_UNKWN = "tp_unknown"', 'TP_UNKWN = "tp_" + "unknown"'),
    ],
    "separator regex as a plain string, group separators from constants": [
        Sub(FRONT, 'match_1 = re.search(r"\\d+",', 'match_1 = re.search("\\\\d+",'),
        Sub(FRONT, 'separator_list = self._get_separator_list(separator, "-")', 'separator_list = self._get_separator_list(separator, separator_2=chr(45))'),
        Sub(FRONT, 'substr = "{:^" + str(length + 2) + "s}"', 'substr = "{:^%ds}" % (2 + length)'),
    ],
}
for _h in ("h6", "h7"):
    if os.path.exists("/tmp/harm/out-B/%s.diff" % _h):
        REP_HARMLESS["given patch %s.diff" % _h] = [Diff("/tmp/harm/out-B/%s.diff" % _h)]

REP_REAL = {
    "minimal column width 4 -> 5": [Sub(FRONT, "port_len = [4 for x in", "port_len = [5 for x in")],
    "width probe decimals .2f -> .3f": [Sub(FRONT, '"{:.2f}".format(port)', '"{:.3f}".format(port)', 2)],
    "running maximum turned into a running minimum (> -> <)": [Sub(FRONT, '.format(port)) > port_len[i]:', '.format(port)) < port_len[i]:')],
    "comprehension form of the width list with min instead of max": [
        Sub(FRONT, MAXLEN,
            "        widths = [4] * len(self._machine_model.get_ports())\n"
            "        for form in kernel:\n"
            "            widths = [min(w, len(format(p, '.2f'))) for w, p in zip(widths, form.port_pressure)]\n"
            "        return widths\n")],
    "comprehension form of the width list with another precision": [
        Sub(FRONT, MAXLEN,
            "        widths = [4] * len(self._machine_model.get_ports())\n"
            "        for form in kernel:\n"
            "            widths = [max(w, len(format(p, '.3f'))) for w, p in zip(widths, form.port_pressure)]\n"
            "        return widths\n")],
    "precision reserve 1 -> 2": [Sub(FRONT, "port_len[i] - left_len - 1, 0)", "port_len[i] - left_len - 2, 0)")],
    "precision operands swapped": [Sub(FRONT, "port_len[i] - left_len - 1, 0)", "left_len - port_len[i] - 1, 0)")],
    "CP/LCD title width 6 -> 7": [Sub(FRONT, '"{}{:^6}{}{:^6}{}"', '"{}{:^7}{}{:^7}{}"')],
    "CP/LCD titles right-aligned instead of centred": [Sub(FRONT, '"{}{:^6}{}{:^6}{}"', '"{}{:>6}{}{:>6}{}"')],
    "CP and LCD titles swapped": [Sub(FRONT, 'col_sep, "CP", col_sep, "LCD", col_sep', 'col_sep, "LCD", col_sep, "CP", col_sep')],
    "CP cell width 4 -> 5": [Sub(FRONT, '"{} {:>4} {} {:>4} {}"', '"{} {:>5} {} {:>5} {}"')],
    "CP cell left-aligned": [Sub(FRONT, '"{} {:>4} {} {:>4} {}"', '"{} {:<4} {} {:<4} {}"')],
    "row number width 4 -> 5": [Sub(FRONT, '"{:4d} {}{} {} {}\\n"', '"{:5d} {}{} {} {}\\n"')],
    "totals width 5 -> 6": [Sub(FRONT, '" {:>5}  {:>5}  \\n"', '" {:>6}  {:>6}  \\n"')],
    "first separator 2 * 6 -> 2 * 7": [Sub(FRONT, "(2 * 6 + len(col_sep))", "(2 * 7 + len(col_sep))")],
    "line-number filler one blank shorter": [Sub(FRONT, 'lineno_filler = "     "\n        port_len = self._get_max_port_len(kernel)\n        # Separator for ports',
                                                 'lineno_filler = "    "\n        port_len = self._get_max_port_len(kernel)\n        # Separator for ports')],
    "unknown test loses its `not`": [Sub(FRONT, "if not ignore_unknown and INSTR_FLAGS.TP_UNKWN in [", "if ignore_unknown and INSTR_FLAGS.TP_UNKWN in [")],
    "unknown test `and` -> `or`": [Sub(FRONT, "if not ignore_unknown and INSTR_FLAGS.TP_UNKWN in [", "if not ignore_unknown or INSTR_FLAGS.TP_UNKWN in [")],
    "unknown test on another flag": [Sub(FRONT, "if not ignore_unknown and INSTR_FLAGS.TP_UNKWN in [", "if not ignore_unknown and INSTR_FLAGS.LT_UNKWN in [")],
    "flag symbols appended in another order": [
        Sub(FRONT, '        string_result += "*" if INSTR_FLAGS.NOT_BOUND in flag_obj else ""\n        string_result += "X" if INSTR_FLAGS.TP_UNKWN in flag_obj else ""\n',
            '        string_result += "X" if INSTR_FLAGS.TP_UNKWN in flag_obj else ""\n        string_result += "*" if INSTR_FLAGS.NOT_BOUND in flag_obj else ""\n')],
    "flag symbol X -> U": [Sub(FRONT, 'string_result += "X" if', 'string_result += "U" if')],
    "flag symbol test `in` -> `not in`": [Sub(FRONT, '"P" if INSTR_FLAGS.HIDDEN_LD in flag_obj', '"P" if INSTR_FLAGS.HIDDEN_LD not in flag_obj')],
    "symbol map entry dropped": [Sub(FRONT, '            INSTR_FLAGS.HIDDEN_LD: "Throughput of LOAD operation can be hidden behind a past "\n            + "or future STORE instruction",\n', "")],
    "symbol map line format changed": [Sub(FRONT, '" {} - {}\\n".format(self._get_flag_symbols', '" {} : {}\\n".format(self._get_flag_symbols')],
    "symbol map no longer sorted": [Sub(FRONT, "for flag in sorted(symbol_dict.keys()):", "for flag in symbol_dict.keys():")],
    "warning text changed": [Sub(FRONT, "WARNING: LCD analysis timed out", "WARNING: LCD analysis ran out of time")],
    "header warnings lose the final newline": [Sub(FRONT, '        warnings += length_text if length_warning else ""\n        warnings += "\\n"\n', '        warnings += length_text if length_warning else ""\n')],
    "arch and length warning conditions swapped": [Sub(FRONT, 'warnings += arch_text if arch_warning else ""', 'warnings += arch_text if length_warning else ""')],
    "missing-instruction dash run not proportional to the amount": [Sub(FRONT, '.format(amount, "-" * len(str(amount)))', '.format(amount, "-" * 3)')],
    "result slice [:-1] -> [:-2]": [Sub(FRONT, "return string_result[:-1]", "return string_result[:-2]")],
    "separator regex \\d+ -> \\d": [Sub(FRONT, 're.search(r"\\d+", self._machine_model.get_ports()[i])', 're.search(r"\\d", self._machine_model.get_ports()[i])')],
    "header group separator '-' -> '+'": [Sub(FRONT, 'self._get_separator_list(separator, "-")', 'self._get_separator_list(separator, "+")')],
    "header pad length + 2 -> length + 4": [Sub(FRONT, "str(length + 2)", "str(length + 4)")],
    "header label column 20 -> 22": [Sub(FRONT, "adjust = 20", "adjust = 22")],
    "header label text changed": [Sub(FRONT, '"Analyzed file:".ljust', '"Analysed file:".ljust')],
    "LCD list latency format 4.1f -> 5.2f": [Sub(FRONT, '"{:4d} {} {:4.1f} {} {:36}{} {}\\n"', '"{:4d} {} {:5.2f} {} {:36}{} {}\\n"')],
    "dict warnings: two names swapped": [Sub(FRONT, 'warnings.append("ArchWarning")', 'warnings.append("LengthWarning")'), Sub(FRONT, '            warnings.append("LengthWarning")\n\n        if lcd', '            warnings.append("ArchWarning")\n\n        if lcd')],
    "dict warnings: conditions swapped": [Sub(FRONT, "        if arch_warning:\n            warnings.append", "        if lcd_warning:\n            warnings.append")],
    "default architecture changed": [Sub(MAIN, '"x86": "SPR",', '"x86": "ICX",')],
    "default architecture entry dropped": [Sub(MAIN, '    "aarch64": "V2",\n    "x86": "SPR",\n', '    "x86": "SPR",\n')],
    "length threshold 100 -> 200": [Sub(MAIN, "len(kernel) > 100", "len(kernel) > 200")],
    "length threshold > -> >=": [Sub(MAIN, "len(kernel) > 100", "len(kernel) >= 100")],
    "length threshold > -> <": [Sub(MAIN, "len(kernel) > 100", "len(kernel) < 100")],
    "length test == -> !=": [Sub(MAIN, "len(kernel) == len(parsed_code) and", "len(kernel) != len(parsed_code) and")],
    "length test and -> or": [Sub(MAIN, "len(kernel) == len(parsed_code) and len(kernel) > 100", "len(kernel) == len(parsed_code) or len(kernel) > 100")],
    "arch warning inverted": [Sub(MAIN, "print_arch_warning = False if args.arch else True", "print_arch_warning = True if args.arch else False")],
    "length warning stays on under --lines": [Sub(MAIN, "        print_length_warning = False\n", "        print_length_warning = True\n")],
    "INSTR_FLAGS value changed": [Sub(ISA, 'TP_UNKWN = "tp_unknown"', 'TP_UNKWN = "tp_unknwn"')],
}

# order that matters must show: the symbols of _get_flag_symbols are appended in source order (covered
# by "flag symbols appended in another order"); DEFAULT_ARCHS iterated somewhere keeps its source order
REP_ORDER = {
    "DEFAULT_ARCHS reordered while it is iterated": [
        Sub(MAIN, '    "aarch64": "V2",\n    "x86": "SPR",\n', '    "x86": "SPR",\n    "aarch64": "V2",\n'),
        Sub(MAIN, '    "aarch64": "V2",\n}\n', '    "aarch64": "V2",\n}\nFIRST_DEFAULT = list(DEFAULT_ARCHS.values())[0]\n'),
    ],
}


# =========================================================================== driver
def seeded(tmp, old, new, failures):
    root = os.path.dirname(TOOLS)
    sdir = os.path.join(root, "seeded")
    fresh(tmp)
    base = {(w, g): run_gen(g, fns) for w, fns in (("old", old), ("new", new)) for g in GENS}
    rows = 0
    for name in sorted(os.listdir(sdir)) if os.path.isdir(sdir) else []:
        patch = os.path.join(sdir, name, "patch.diff")
        if not os.path.exists(patch) or not any(("b/" + rel) in open(patch, encoding="utf-8").read() for rel in FILES):
            continue
        fresh(tmp)
        r = subprocess.run(["git", "apply"] + ["--include=" + rel for rel in FILES] + [patch], cwd=tmp, capture_output=True, text=True)
        if r.returncode:
            print("seeded %-45s does not apply to this tree (stale seed), skipped" % name)
            continue
        rows += 1
        for g in GENS:
            res = {}
            for w, fns in (("old", old), ("new", new)):
                st, out = run_gen(g, fns)
                res[w] = "same" if (st, out) == base[(w, g)] else ("changed" if st == "ok" else "fails")
            lost = res["old"] != "same" and res["new"] == "same"
            if VERBOSE or lost or res["old"] != "same" or res["new"] != "same":
                print("%-4s seeded %-45s %-12s old: %-8s new: %s" % ("BAD" if lost else "ok", name, g, res["old"], res["new"]))
            if lost:
                failures.append((g, "seeded", name, "old %s, new same" % res["old"]))
    print("seeded: %d patches touching the plug-ins' sources compared (old plug-in vs new)" % rows)


def main():
    tmp = tempfile.mkdtemp(prefix="test_G3_")
    failures, errors, counts = [], [], {}
    try:
        T.REPO = tmp
        old = load_old_plugins(tmp)
        new = load_plugins()
        if old is None:
            print("note: git show %s:tools/gen/... not available, seeded comparison skipped" % OLD_COMMIT)
        else:
            seeded(tmp, old, new, failures)
        fresh(tmp)
        base = {}
        for g in ("RegTables", "ReportConsts"):
            base[g] = run_gen(g)
            if base[g][0] != "ok":
                print("BASELINE FAILS for %s: %s" % (g, base[g][1]))
                return 1
            committed = os.path.join(os.path.dirname(TOOLS), "lean", "OsacaVerif", "Gen", g + ".lean")
            if os.path.exists(committed) and open(committed, encoding="utf-8").read() != base[g][1]:
                print("note: baseline output of %s differs from the committed Gen file (is %s the pinned tree?)" % (g, SRC_REPO))
        suites = [
            ("RegTables", "harmless", REG_HARMLESS), ("RegTables", "real", REG_REAL), ("RegTables", "order", REG_ORDER),
            ("ReportConsts", "harmless", REP_HARMLESS), ("ReportConsts", "real", REP_REAL), ("ReportConsts", "order", REP_ORDER),
        ]
        for gen, kind, cases in suites:
            for name, subs in cases.items():
                fresh(tmp)
                try:
                    for s in subs:
                        s.apply(tmp)
                    for rel in FILES:  # the rewritten source must still be Python
                        compile(open(os.path.join(tmp, rel), encoding="utf-8").read(), rel, "exec")
                except (CaseError, SyntaxError) as e:
                    errors.append("%s/%s/%s: %s" % (gen, kind, name, e))
                    continue
                st, out = run_gen(gen)
                same = (st == "ok" and out == base[gen][1])
                good = same if kind == "harmless" else not same
                counts[(gen, kind)] = counts.get((gen, kind), 0) + 1
                verdict = "identical" if same else ("FAILS: " + out[:110] if st == "fail" else "changed")
                if VERBOSE or not good:
                    print("%-4s %-12s %-8s %-78s %s" % ("ok" if good else "BAD", gen, kind, name[:78], verdict))
                if not good:
                    failures.append((gen, kind, name, verdict))
    finally:
        shutil.rmtree(tmp, ignore_errors=True)
    for gen in ("RegTables", "ReportConsts"):
        print("%s: %d harmless identical, %d real noticed, %d order-dependent reorderings noticed" % (
            gen, counts.get((gen, "harmless"), 0) - sum(1 for f in failures if f[0] == gen and f[1] == "harmless"),
            counts.get((gen, "real"), 0) - sum(1 for f in failures if f[0] == gen and f[1] == "real"),
            counts.get((gen, "order"), 0) - sum(1 for f in failures if f[0] == gen and f[1] == "order")))
        if counts.get((gen, "harmless"), 0) < 8 or counts.get((gen, "real"), 0) < 6:
            errors.append("%s: fewer than 8 harmless / 6 real cases ran" % gen)
    for e in errors:
        print("ERROR", e)
    if failures or errors:
        print("FAILED: %d wrong verdicts, %d case errors" % (len(failures), len(errors)))
        return 1
    print("PASS")
    return 0


if __name__ == "__main__":
    sys.exit(main())
