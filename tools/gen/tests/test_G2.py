#!/usr/bin/env python3
"""Sensitivity / robustness test of the MarkerConsts plug-in (tools/gen/markerconsts.py).

Copies the three OSACA sources the plug-in reads from $OSACA_REPO (default /repo) into a temp dir, applies
text edits and calls the plug-in function directly.

* HARMLESS variants (behaviour-preserving rewrites): the output must be IDENTICAL to the baseline.
* REAL mutations (behaviour changes): the output must CHANGE or the plug-in must fail.

Run: /venv/bin/python tools/gen/tests/test_G2.py      (exit 0 = pass)
"""
import os
import shutil
import sys
import tempfile

HERE = os.path.dirname(os.path.abspath(__file__))
TOOLS = os.path.dirname(os.path.dirname(HERE))
sys.path.insert(0, TOOLS)
import translate  # noqa: E402

SRC_REPO = os.environ.get("OSACA_REPO", "/repo")
MU = "osaca/semantics/marker_utils.py"
OS_ = "osaca/osaca.py"
BP = "osaca/parser/base_parser.py"
FILES = [MU, OS_, BP]


def load():
    translate.load_plugins()
    return translate.GENERATORS["MarkerConsts"][0]


def run(gen, edits):
    """output of the plug-in on the sources with the (file, old, new) edits; ('FAIL', message) if it raises"""
    tmp = tempfile.mkdtemp(prefix="g2test")
    try:
        for f in FILES:
            os.makedirs(os.path.dirname(os.path.join(tmp, f)), exist_ok=True)
            shutil.copy(os.path.join(SRC_REPO, f), os.path.join(tmp, f))
        for f, old, new in edits:
            p = os.path.join(tmp, f)
            s = open(p, encoding="utf-8").read()
            if s.count(old) != 1:
                raise SystemExit("test edit does not apply exactly once in %s: %r (%d)" % (f, old[:60], s.count(old)))
            open(p, "w", encoding="utf-8").write(s.replace(old, new))
            compile(open(p, encoding="utf-8").read(), p, "exec")  # the edited file must still be Python
        translate.REPO = tmp
        try:
            return gen()
        except translate.TranslateError as e:
            return ("FAIL", str(e))
        except Exception as e:  # what translate.run records as failure, too
            return ("FAIL", "%s: %s" % (type(e).__name__, e))
    finally:
        shutil.rmtree(tmp, ignore_errors=True)


# ----------------------------------------------------------------------------------------- fragments of the sources
FMS_MOV = '''                source = line.operands[0 if not reverse else 1]
                destination = line.operands[1 if not reverse else 0]
'''
MB_WHILE = '''    while (
        index < len(lines)
        and lines[index].directive is not None
        and lines[index].directive.name == "byte"
        and len(extracted_bytes) < len(byte_list)
    ):
'''
PF_BODY = '''        asm_instructions = []
        lines = file_content.split("\\n")
        for i, line in enumerate(lines):
            if line.strip() == "":
                continue
            asm_instructions.append(self.parse_line(line, i + 1 + start_line))
        return asm_instructions
'''
LR_BODY = '''        if "-" in line:
            start = int(line.split("-")[0])
            end = int(line.split("-")[1])
            rnge = list(range(start, end + 1))
            lines_int += rnge
        else:
            lines_int.append(int(line))
'''
RED_BODY = '''    isa = isa.lower()
    if isa == "x86":
        start, end = find_marked_kernel_x86ATT(kernel)
    elif isa == "aarch64":
        start, end = find_marked_kernel_AArch64(kernel)
    else:
        raise ValueError("ISA not supported.")
    if start == -1:
        start = 0
    if end == -1:
        end = len(kernel)
    return kernel[start:end]
'''
FMS_LOOP_OLD = '''    index_start = -1
    index_end = -1
    for i, line in enumerate(lines):
        try:
            if line.mnemonic is None and comments is not None and line.comment is not None:
                if comments["start"] == line.comment:
                    index_start = i + 1
                elif comments["end"] == line.comment:
                    index_end = i
            elif (
                line.mnemonic in mov_instr
                and len(lines) > i + 1
                and lines[i + 1].directive is not None
            ):
                source = line.operands[0 if not reverse else 1]
                destination = line.operands[1 if not reverse else 0]
                # instruction pair matches, check for operands
                if (
                    isinstance(source, ImmediateOperand)
                    and parser.normalize_imd(source) == mov_vals[0]
                    and isinstance(destination, RegisterOperand)
                    and parser.get_full_reg_name(destination) == mov_reg
                ):
                    # operands of first instruction match start, check for second one
                    match, line_count = match_bytes(lines, i + 1, nop_bytes)
                    if match:
                        # return first line after the marker
                        index_start = i + 1 + line_count
                elif (
                    isinstance(source, ImmediateOperand)
                    and parser.normalize_imd(source) == mov_vals[1]
                    and isinstance(destination, RegisterOperand)
                    and parser.get_full_reg_name(destination) == mov_reg
                ):
                    # operand of first instruction match end, check for second one
                    match, line_count = match_bytes(lines, i + 1, nop_bytes)
                    if match:
                        # return line of the marker
                        index_end = i
        except TypeError:
            print(i, line)
'''
# renamed locals, range(len()) instead of enumerate, hoisted sub-expressions, nested ifs instead of `and`,
# tuple initialisation, mirrored comparisons, if/else on `reverse` instead of conditional expressions
FMS_LOOP_NEW = '''    first, last = -1, -1
    n_lines = len(lines)
    for pos in range(len(lines)):
        cur = lines[pos]
        try:
            if cur.mnemonic is None and comments is not None and cur.comment is not None:
                text = cur.comment
                if text == comments["start"]:
                    first = 1 + pos
                elif text == comments["end"]:
                    last = pos
            elif cur.mnemonic in mov_instr and n_lines > pos + 1:
                nxt = pos + 1
                if lines[nxt].directive is None:
                    continue
                if reverse:
                    imm, reg = cur.operands[1], cur.operands[0]
                else:
                    imm, reg = cur.operands[0], cur.operands[1]
                if not isinstance(imm, ImmediateOperand) or not isinstance(reg, RegisterOperand):
                    continue
                if mov_reg != parser.get_full_reg_name(reg):
                    continue
                value = parser.normalize_imd(imm)
                if value == mov_vals[0]:
                    found, consumed = match_bytes(lines, nxt, nop_bytes)
                    if found:
                        first = nxt + consumed
                elif value == mov_vals[1]:
                    hit = match_bytes(lines, nxt, nop_bytes)
                    if hit[0]:
                        last = pos
        except TypeError:
            print(pos, cur)
'''

HARMLESS = {
    "h9 hex tables, COMMENT_MARKER entries swapped": [
        (MU, 'COMMENT_MARKER = {"start": "OSACA-BEGIN", "end": "OSACA-END"}',
             'COMMENT_MARKER = {"end": "OSACA-END", "start": "OSACA-BEGIN"}'),
        (MU, "nop_bytes = [213, 3, 32, 31]", "nop_bytes = [0xD5, 0x03, 0x20, 0x1F]"),
        (MU, "nop_bytes = [100, 103, 144]", "nop_bytes = [0x64, 0x67, 0x90]"),
        (MU, '        "x1",\n        [111, 222],', '        "x1",\n        [0x6F, 0xDE],'),
        (MU, '        "ebx",\n        [111, 222],', '        "ebx",\n        [0x6F, 0xDE],'),
    ],
    "h10 while split into guards, one tuple conditional": [
        (MU, FMS_MOV, '''                src_idx, dst_idx = (1, 0) if reverse else (0, 1)
                source = line.operands[src_idx]
                destination = line.operands[dst_idx]
'''),
        (MU, MB_WHILE, '''    while index < len(lines):
        if lines[index].directive is None or lines[index].directive.name != "byte":
            break
        if len(extracted_bytes) >= len(byte_list):
            break
'''),
    ],
    "h5 parse_file as comprehension": [
        (BP, PF_BODY, '''        lines = file_content.split("\\n")
        return [
            self.parse_line(line, i + 1 + start_line)
            for i, line in enumerate(lines)
            if line.strip() != ""
        ]
'''),
    ],
    "h8 get_line_range with early continue": [
        (OS_, LR_BODY, '''        if "-" not in line:
            lines_int.append(int(line))
            continue
        start = int(line.split("-")[0])
        end = int(line.split("-")[1])
        rnge = list(range(start, end + 1))
        lines_int += rnge
'''),
    ],
    "find_marked_section: renamed locals, range(len), hoists, nested ifs, guards": [
        (MU, FMS_LOOP_OLD, FMS_LOOP_NEW),
        (MU, "        if index_start != -1 and index_end != -1:\n            break\n    return index_start, index_end",
             "        if first != -1 and last != -1:\n            break\n    return first, last"),
    ],
    "call sites: module constants, tuples, arithmetic, local parser, keywords, dict()": [
        (MU, 'COMMENT_MARKER = {"start": "OSACA-BEGIN", "end": "OSACA-END"}',
             'PREFIX = "OSACA"\nCOMMENT_MARKER = dict(start=PREFIX + "-BEGIN", end="%s-END" % PREFIX)\n'
             'MARK_VALUES = (111, 2 * 111)\nNOP_X86 = (0x64, 0x67, 0o220)\nMOV = "mov"'),
        (MU, '''    nop_bytes = [100, 103, 144]
    return find_marked_section(
        lines,
        ParserX86ATT(),
        ["mov", "movl"],
        "ebx",
        [111, 222],
        nop_bytes,
        comments=COMMENT_MARKER,
    )''', '''    p = ParserX86ATT()
    markers = COMMENT_MARKER
    section = find_marked_section(
        lines, p, mov_reg="e" "bx", mov_instr=[MOV, MOV + "l"], mov_vals=MARK_VALUES,
        nop_bytes=NOP_X86, reverse=False, comments=markers,
    )
    return section'''),
        (MU, "nop_bytes = [213, 3, 32, 31]", "nop_bytes = [0xFF - 42, 3, 1 << 5, 2 ** 5 - 1]"),
    ],
    "find_marked_section: parameters renamed (also at the call sites)": [
        (MU, "    lines, parser, mov_instr, mov_reg, mov_vals, nop_bytes, reverse=False, comments=None\n):",
             "    lines, parser, mov_instr, mov_reg, mov_vals, nop_bytes, swapped=False, comment_markers=None\n):"),
        (MU, "            if line.mnemonic is None and comments is not None and line.comment is not None:\n"
             "                if comments[\"start\"] == line.comment:",
             "            if line.mnemonic is None and comment_markers is not None and line.comment is not None:\n"
             "                if comment_markers[\"start\"] == line.comment:"),
        (MU, '                elif comments["end"] == line.comment:', '                elif comment_markers["end"] == line.comment:'),
        (MU, FMS_MOV, '''                source = line.operands[1 if swapped else 0]
                destination = line.operands[0 if swapped else 1]
'''),
        (MU, "        reverse=True,\n        comments=COMMENT_MARKER,", "        swapped=True,\n        comment_markers=COMMENT_MARKER,"),
        (MU, "        nop_bytes,\n        comments=COMMENT_MARKER,", "        nop_bytes,\n        comment_markers=COMMENT_MARKER,"),
    ],
    "reduce_to_section: early returns per ISA replaced by helper flow, conditional expressions": [
        (MU, RED_BODY, '''    if "x86" == isa.lower():
        first, last = find_marked_kernel_x86ATT(kernel)
    else:
        if isa.lower() != "aarch64":
            raise ValueError("ISA not supported.")
        first, last = find_marked_kernel_AArch64(kernel)
    first = 0 if first == -1 else first
    if not (last != -1):
        last = len(kernel)
    return kernel[first:last]
'''),
    ],
    "match_bytes: while True, hoisted directive, [:n], base keyword, conditional return": [
        (MU, MB_WHILE, '''    wanted = len(byte_list)
    while True:
        if not index < len(lines):
            break
        d = lines[index].directive
        if d is None:
            break
        if not ("byte" == d.name and wanted > len(extracted_bytes)):
            break
'''),
        (MU, "extracted_bytes += [int(x, 0) for x in lines[index].directive.parameters]",
             "extracted_bytes += [int(x, base=0) for x in lines[index].directive.parameters]"),
        (MU, '''    if extracted_bytes[0 : len(byte_list)] == byte_list:
        return True, line_count
    return False, -1''', '''    return (True, line_count) if byte_list == extracted_bytes[: len(byte_list)] else (False, -1)'''),
    ],
    "get_line_range: hoisted split, 1 + end, direct extend; inspect filter as loop": [
        (OS_, '''    line_str = line_str.replace(":", "-")
    lines = line_str.split(",")
    lines_int = []
    for line in lines:
''' + LR_BODY, '''    lines_int = []
    for item in line_str.replace(":", "-").split(","):
        if not ("-" in item):
            lines_int.append(int(item))
        else:
            parts = item.split("-")
            lo = int(parts[0])
            lines_int.extend(range(lo, 1 + int(parts[1])))
'''),
        (OS_, "        kernel = [line for line in parsed_code if line.line_number in line_range]",
              "        kernel = []\n        for form in parsed_code:\n            if form.line_number not in line_range:\n"
              "                continue\n            kernel.append(form)"),
    ],
    "parse_file: enumerate(start=1), truthiness test, local separator, renamed": [
        (BP, PF_BODY, '''        newline = "\\x0a"
        forms = list()
        for number, text in enumerate(file_content.split(newline), start=1):
            if not text.strip():
                continue
            forms.append(self.parse_line(text, start_line + number))
        return forms
'''),
    ],
    "parse_file: nested if instead of continue, len test": [
        (BP, PF_BODY, '''        asm_instructions = []
        lines = file_content.split("\\n")
        for i, line in enumerate(lines):
            if len(line.strip()) > 0:
                asm_instructions.append(self.parse_line(line, i + start_line + 1))
        return asm_instructions
'''),
    ],
}

REAL = {
    # --- call sites / tables
    "nop byte 144 -> 145": [(MU, "nop_bytes = [100, 103, 144]", "nop_bytes = [100, 103, 145]")],
    "nop table entry dropped": [(MU, "nop_bytes = [213, 3, 32, 31]", "nop_bytes = [213, 3, 32]")],
    "x86 marker values swapped": [(MU, '        "ebx",\n        [111, 222],', '        "ebx",\n        [222, 111],')],
    "marker register ebx -> eax": [(MU, '        "ebx",', '        "eax",')],
    "movl dropped": [(MU, '["mov", "movl"]', '["mov"]')],
    "AArch64 reverse dropped": [(MU, "        reverse=True,\n", "")],
    "x86 comment markers off": [(MU, "        nop_bytes,\n        comments=COMMENT_MARKER,", "        nop_bytes,\n        comments=None,")],
    "comment text changed": [(MU, '"OSACA-BEGIN"', '"OSACA-START"')],
    # --- find_marked_section
    "comment keys swapped": [(MU, 'if comments["start"] == line.comment:', 'if comments["end"] == line.comment:'),
                             (MU, 'elif comments["end"] == line.comment:', 'elif comments["start"] == line.comment:')],
    "comment start offset i + 1 -> i": [(MU, "                    index_start = i + 1\n", "                    index_start = i\n")],
    "comment end offset i -> i + 1": [(MU, "                    index_end = i\n            elif (", "                    index_end = i + 1\n            elif (")],
    "byte start without the marker lines": [(MU, "index_start = i + 1 + line_count", "index_start = i + 1")],
    "byte start offset": [(MU, "index_start = i + 1 + line_count", "index_start = i + line_count")],
    "byte end offset": [(MU, "                        # return line of the marker\n                        index_end = i",
                         "                        # return line of the marker\n                        index_end = i - 1")],
    "look-ahead distance": [(MU, "and lines[i + 1].directive is not None", "and lines[i + 2].directive is not None")],
    "look-ahead test inverted": [(MU, "and lines[i + 1].directive is not None", "and lines[i + 1].directive is None")],
    "operand indices swapped": [(MU, FMS_MOV, FMS_MOV.replace("0 if not reverse else 1", "X").replace("1 if not reverse else 0", "0 if not reverse else 1").replace("X", "1 if not reverse else 0"))],
    "reverse test inverted": [(MU, "source = line.operands[0 if not reverse else 1]", "source = line.operands[0 if reverse else 1]")],
    "mov_vals indices swapped": [(MU, "parser.normalize_imd(source) == mov_vals[0]", "parser.normalize_imd(source) == mov_vals[1]"),
                                 (MU, "and parser.normalize_imd(source) == mov_vals[1]\n                    and isinstance(destination, RegisterOperand)\n                    and parser.get_full_reg_name(destination) == mov_reg\n                ):\n                    # operand of first instruction match end",
                                      "and parser.normalize_imd(source) == mov_vals[0]\n                    and isinstance(destination, RegisterOperand)\n                    and parser.get_full_reg_name(destination) == mov_reg\n                ):\n                    # operand of first instruction match end")],
    "value comparison == -> !=": [(MU, "parser.normalize_imd(source) == mov_vals[0]", "parser.normalize_imd(source) != mov_vals[0]")],
    "match_bytes called one line later": [(MU, "match, line_count = match_bytes(lines, i + 1, nop_bytes)\n                    if match:\n                        # return first",
                                           "match, line_count = match_bytes(lines, i + 2, nop_bytes)\n                    if match:\n                        # return first")],
    "match result negated": [(MU, "                    if match:\n                        # return first", "                    if not match:\n                        # return first")],
    "initial index -1 -> 0": [(MU, "    index_start = -1\n", "    index_start = 0\n")],
    "mnemonic test in -> not in": [(MU, "line.mnemonic in mov_instr", "line.mnemonic not in mov_instr")],
    # --- match_bytes
    "directive name byte -> word": [(MU, 'lines[index].directive.name == "byte"', 'lines[index].directive.name == "word"')],
    "int base 0 -> 10": [(MU, "int(x, 0)", "int(x)")],
    "int base 0 -> 16": [(MU, "int(x, 0)", "int(x, 16)")],
    "bound < -> <=": [(MU, "and len(extracted_bytes) < len(byte_list)", "and len(extracted_bytes) <= len(byte_list)")],
    "bound dropped": [(MU, "        and len(extracted_bytes) < len(byte_list)\n", "")],
    "TypeError no longer caught": [(MU, "except (ValueError, TypeError):", "except ValueError:")],
    "prefix slice from 1": [(MU, "extracted_bytes[0 : len(byte_list)] == byte_list", "extracted_bytes[1 : len(byte_list)] == byte_list")],
    "prefix comparison == -> !=": [(MU, "extracted_bytes[0 : len(byte_list)] == byte_list", "extracted_bytes[0 : len(byte_list)] != byte_list")],
    "seeded C11-m1 zip comparison": [(MU, "    if extracted_bytes[0 : len(byte_list)] == byte_list:",
                                      "    if all(found == expected for found, expected in zip(extracted_bytes, byte_list)):")],
    # --- reduce_to_section
    "sentinel -1 -> -2": [(MU, "    if start == -1:\n", "    if start == -2:\n")],
    "default start 0 -> 1": [(MU, "        start = 0\n", "        start = 1\n")],
    "default end len - 1": [(MU, "        end = len(kernel)\n", "        end = len(kernel) - 1\n")],
    "ISA name x86 -> x64": [(MU, '    if isa == "x86":\n        start, end', '    if isa == "x64":\n        start, end')],
    "isa no longer lowered": [(MU, "    isa = isa.lower()\n    if isa == \"x86\":\n        start, end", "    if isa == \"x86\":\n        start, end")],
    "ISA callees swapped": [(MU, "        start, end = find_marked_kernel_x86ATT(kernel)\n    elif", "        start, end = find_marked_kernel_AArch64(kernel)\n    elif")],
    "sentinel test == -> !=": [(MU, "    if end == -1:\n", "    if end != -1:\n")],
    # --- get_line_range / inspect
    "replace ':' -> ';'": [(OS_, 'line_str.replace(":", "-")', 'line_str.replace(";", "-")')],
    "list separator": [(OS_, 'lines = line_str.split(",")', 'lines = line_str.split(";")')],
    "range ends swapped": [(OS_, 'start = int(line.split("-")[0])\n            end = int(line.split("-")[1])',
                            'start = int(line.split("-")[1])\n            end = int(line.split("-")[0])')],
    "range exclusive": [(OS_, "range(start, end + 1)", "range(start, end)")],
    "range test inverted": [(OS_, '        if "-" in line:\n            start', '        if "-" not in line:\n            start')],
    "range separator of one end": [(OS_, 'end = int(line.split("-")[1])', 'end = int(line.split(":")[1])')],
    "inspect selects the complement": [(OS_, "if line.line_number in line_range]", "if line.line_number not in line_range]")],
    "inspect extra filter": [(OS_, "if line.line_number in line_range]", "if line.line_number in line_range and line.mnemonic]")],
    # --- parse_file
    "line separator": [(BP, 'lines = file_content.split("\\n")', 'lines = file_content.split("\\r")')],
    "first line number 2": [(BP, "i + 1 + start_line", "i + 2 + start_line")],
    "start_line default 1": [(BP, "def parse_file(self, file_content, start_line=0):", "def parse_file(self, file_content, start_line=1):")],
    "blank test inverted": [(BP, 'if line.strip() == "":\n                continue', 'if line.strip() != "":\n                continue')],
    "blank test on the raw line": [(BP, 'if line.strip() == "":\n                continue', 'if line == "":\n                continue')],
    "seeded C09-m2 strip newlines": [(BP, 'lines = file_content.split("\\n")', 'lines = file_content.strip("\\n").split("\\n")')],
    "seeded C10-m2 splitlines": [(BP, 'lines = file_content.split("\\n")', "lines = file_content.splitlines()")],
    "seeded C11-m2 blank lines not counted": [(BP, PF_BODY, '''        asm_instructions = []
        lines = [line for line in file_content.split("\\n") if line.strip() != ""]
        for i, line in enumerate(lines, start=start_line + 1):
            asm_instructions.append(self.parse_line(line, i))
        return asm_instructions
''')],
    "comprehension numbering after the filter": [(BP, PF_BODY, '''        lines = [line for line in file_content.split("\\n") if line.strip() != ""]
        return [self.parse_line(line, i + 1 + start_line) for i, line in enumerate(lines)]
''')],
}


def main():
    gen = load()
    base = run(gen, [])
    bad = 0
    if isinstance(base, tuple):
        print("baseline FAILS: %s" % base[1])
        return 1
    committed = os.path.join(os.path.dirname(TOOLS), "lean", "OsacaVerif", "Gen", "MarkerConsts.lean")
    for name, edits in HARMLESS.items():
        out = run(gen, edits)
        ok = out == base
        bad += not ok
        print("%-4s harmless  %-78s %s" % ("ok" if ok else "BAD", name,
                                           "" if ok else (out[1] if isinstance(out, tuple) else "output differs")))
    for name, edits in REAL.items():
        out = run(gen, edits)
        ok = out != base
        bad += not ok
        print("%-4s real      %-78s %s" % ("ok" if ok else "BAD", name,
                                           ("fails: " + out[1][:70]) if isinstance(out, tuple) else ("changed" if ok else "UNNOTICED")))
    print("%d harmless variants, %d real mutations, %d wrong" % (len(HARMLESS), len(REAL), bad))
    if len(HARMLESS) < 8 or len(REAL) < 6:
        return 1
    if os.path.exists(committed) and SRC_REPO and os.environ.get("G2_CHECK_COMMITTED"):
        if open(committed, encoding="utf-8").read() != base:
            print("baseline differs from the committed Gen/MarkerConsts.lean")
            return 1
    return 1 if bad else 0


if __name__ == "__main__":
    sys.exit(main())
