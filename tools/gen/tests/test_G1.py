#!/usr/bin/env python3
"""Sensitivity / robustness test of the G1 plug-ins (CacheConsts, WorkersConsts, ImportConsts, Consts).

    /venv/bin/python tools/gen/tests/test_G1.py            # mutation test, exit 0 = pass
    /venv/bin/python tools/gen/tests/test_G1.py --seeded   # additionally: seeded/*/patch.diff, old vs new plug-in
    /venv/bin/python tools/gen/tests/test_G1.py -v         # list every case

The OSACA sources the plug-ins read are copied from $OSACA_REPO (default /repo; read only) into a temp dir,
the text is mutated there and the plug-in functions are called directly with `translate.REPO` pointing at the copy.

  HARMLESS variants (behaviour of OSACA unchanged)  -> output must be IDENTICAL to the baseline
  REAL mutations   (behaviour changed)              -> output must CHANGE or the plug-in must FAIL

`--seeded` applies every seeded breaking change that touches a source file of these plug-ins to the checkout
$OSACA_REPO itself (git apply -3 ... git reset --hard; so point it at a private checkout) and compares the plug-in
of commit BASE (before this work) with the current one: what the old one noticed the new one must notice.
"""
import ast
import glob
import hashlib
import importlib.util
import os
import re
import shutil
import subprocess
import sys
import tempfile

HERE = os.path.dirname(os.path.abspath(__file__))
TOOLS = os.path.dirname(os.path.dirname(HERE))
ROOT = os.path.dirname(TOOLS)
sys.path.insert(0, TOOLS)
import translate as T  # noqa: E402

SRC_REPO = os.environ.get("OSACA_REPO", "/repo")
BASE = "6178834"          # framework commit before the G1 work (old plug-ins)
VERBOSE = "-v" in sys.argv

PLUGINS = {"Consts": ("consts", "gen_consts"), "WorkersConsts": ("workers", "gen_workers"),
           "ImportConsts": ("importconsts", "gen_importconsts"), "CacheConsts": ("cacheconsts", "gen_cacheconsts")}
FILES = ["osaca/semantics/hw_model.py", "osaca/semantics/kernel_dg.py", "osaca/semantics/arch_semantics.py",
         "osaca/db_interface.py", "osaca/utils.py", "osaca/data/_build_cache.py"]
AS, KD, HW, DB, UT = (FILES[2], FILES[1], FILES[0], FILES[3], FILES[4])


def load(path, tag):
    spec = importlib.util.spec_from_file_location(tag, path)
    m = importlib.util.module_from_spec(spec)
    spec.loader.exec_module(m)
    return m


def new_plugins():
    return {g: getattr(load(os.path.join(TOOLS, "gen", f + ".py"), "g1new_" + f), fn) for g, (f, fn) in PLUGINS.items()}


def old_plugins(tmp):
    out = {}
    for g, (f, fn) in PLUGINS.items():
        src = subprocess.check_output(["git", "-C", ROOT, "show", "%s:tools/gen/%s.py" % (BASE, f)], text=True)
        p = os.path.join(tmp, "old_%s.py" % f)
        with open(p, "w") as fh:
            fh.write(src)
        out[g] = getattr(load(p, "g1old_" + f), fn)
    return out


def run(fn, repo):
    T.REPO = repo
    try:
        return "ok", fn()
    except T.TranslateError as e:
        return "fail", str(e)
    except Exception as e:      # what translate.py records as an unexpected code shape
        return "fail", "%s: %s" % (type(e).__name__, e)


def light_copy(dst):
    for f in FILES:
        os.makedirs(os.path.dirname(os.path.join(dst, f)), exist_ok=True)
        shutil.copy(os.path.join(SRC_REPO, f), os.path.join(dst, f))
    for pat in ("osaca/data/*.yml", "osaca/data/isa/*.yml"):
        for y in glob.glob(os.path.join(SRC_REPO, pat)):
            rel = os.path.relpath(y, SRC_REPO)
            os.makedirs(os.path.dirname(os.path.join(dst, rel)), exist_ok=True)
            open(os.path.join(dst, rel), "w").close()      # only the names are read


# --------------------------------------------------------------------------- edit operations
class Edit:
    """callable(repo_dir): mutate files"""


def sub(rel, old, new, count=1):
    def f(repo):
        p = os.path.join(repo, rel)
        s = open(p).read()
        n = s.count(old)
        if n != count:
            raise AssertionError("test bug: %r occurs %d times in %s (expected %d)" % (old, n, rel, count))
        open(p, "w").write(s.replace(old, new))
    return f


def fn_sub(rel, func, old, new, count=1, regex=False):
    """replacement restricted to the source lines of one function / method"""
    def f(repo):
        p = os.path.join(repo, rel)
        s = open(p).read()
        node = [n for n in ast.walk(ast.parse(s)) if isinstance(n, ast.FunctionDef) and n.name == func][0]
        lines = s.split("\n")
        seg = "\n".join(lines[node.lineno - 1:node.end_lineno])
        if regex:
            seg2, n = re.subn(old, new, seg)
        else:
            n = seg.count(old)
            seg2 = seg.replace(old, new)
        if (count is not None and n != count) or n == 0:
            raise AssertionError("test bug: %r occurs %d times in %s.%s (expected %s)" % (old, n, rel, func, count))
        lines[node.lineno - 1:node.end_lineno] = seg2.split("\n")
        open(p, "w").write("\n".join(lines))
    return f


def rename(rel, func, old, new):
    return fn_sub(rel, func, r"\b%s\b" % re.escape(old), new, count=None, regex=True)


def tree_edit(rel, transform):
    """AST-level rewrite; the file is re-generated with ast.unparse"""
    def f(repo):
        p = os.path.join(repo, rel)
        tree = ast.parse(open(p).read())
        transform(tree)
        open(p, "w").write(ast.unparse(ast.fix_missing_locations(tree)) + "\n")
    return f


def remove_file(rel):
    def f(repo):
        os.remove(os.path.join(repo, rel))
    return f


def add_file(rel, text):
    def f(repo):
        with open(os.path.join(repo, rel), "w") as fh:
            fh.write(text)
    return f


def _func(tree, name):
    return [n for n in ast.walk(tree) if isinstance(n, ast.FunctionDef) and n.name == name][0]


def neg(test):
    return ast.UnaryOp(op=ast.Not(), operand=test)


# AST transforms used below
def swap_threshold_branches(tree):
    fn = _func(tree, "check_for_loopcarried_dep")
    for n in ast.walk(fn):
        if isinstance(n, ast.If) and "INSTRUCTION_THRESHOLD" in ast.unparse(n.test):
            n.test = ast.Compare(left=n.test.left, ops=[ast.Lt()], comparators=n.test.comparators)
            n.body, n.orelse = n.orelse, n.body
            return
    raise AssertionError("test bug")


def poll_guard_form(tree):
    fn = _func(tree, "check_for_loopcarried_dep")
    loop = [n for n in ast.walk(fn) if isinstance(n, ast.While)][0]
    i = loop.body[0]
    loop.body = [ast.If(test=neg(i.test), body=i.orelse, orelse=[])] + i.body


def asmbench_guard_form(tree):
    fn = _func(tree, "_get_asmbench_output")
    loop = [n for n in fn.body if isinstance(n, ast.For)][0]
    i = loop.body[0]
    loop.body = [ast.If(test=i.test, body=i.body, orelse=[])] + i.orelse


def flatten_chain(name):
    def t(tree):
        fn = _func(tree, name)
        out, node = [], [s for s in fn.body if isinstance(s, ast.If)][0]
        pre = [s for s in fn.body if not isinstance(s, ast.If)]
        while True:
            out.append(ast.If(test=node.test, body=node.body, orelse=[]))
            if len(node.orelse) == 1 and isinstance(node.orelse[0], ast.If):
                node = node.orelse[0]
            else:
                out.extend(node.orelse)
                break
        fn.body = pre + out
    return t


def swap_first_two_branches(name):
    def t(tree):
        fn = _func(tree, name)
        a = [s for s in fn.body if isinstance(s, ast.If)][0]
        b = a.orelse[0]
        a.test, b.test = b.test, a.test
        a.body, b.body = b.body, a.body
    return t


def hoist_dict(name):
    def t(tree):
        fn = _func(tree, name)
        a = [s for s in fn.body if isinstance(s, ast.If)][0]
        d = a.body[0].value
        a.body[0].value = ast.Name(id="first_result", ctx=ast.Load())
        k = fn.body.index(a)
        fn.body.insert(k, ast.Assign(targets=[ast.Name(id="first_result", ctx=ast.Store())], value=d))
    return t


def swap_dict_keys(name):
    def t(tree):
        fn = _func(tree, name)
        a = [s for s in fn.body if isinstance(s, ast.If)][0]
        d = a.body[0].value
        d.keys[0], d.keys[1] = d.keys[1], d.keys[0]
        d.values[0], d.values[1] = d.values[1], d.values[0]
    return t


def cached_as_if_statement(tree):
    fn = _func(tree, "__init__")
    for n in ast.walk(fn):
        for fld in ("body", "orelse"):
            b = getattr(n, fld, None)
            if isinstance(b, list):
                for i, s in enumerate(b):
                    if isinstance(s, ast.Assign) and isinstance(s.value, ast.IfExp) and "_get_cached" in ast.unparse(s):
                        e = s.value
                        b[i] = ast.If(test=e.test, body=[ast.Assign(targets=s.targets, value=e.body)],
                                      orelse=[ast.Assign(targets=s.targets, value=e.orelse)])
                        return
    raise AssertionError("test bug")


H1_IDEA = [  # /tmp/harm/out-A/h1.diff re-created on the current tree
    sub(AS, '    GAS_SUFFIXES = "bswlqt"', '    # AT&T (GAS) operand-size suffixes\n    GAS_SUFFIXES = "b" "s" "w" "l" "q" "t"'),
    sub(AS, "        INC = 0.01\n", "        # balancing step: one hundredth of a cycle\n        INC = 1e-2\n"),
    sub(AS, "if min(instr_ports) != 0.0:", "if min(instr_ports) != 0e0:"),
    sub(AS, "instruction_form.port_pressure[p] < 0.00", "instruction_form.port_pressure[p] < 0.0"),
]

WL = "            workload = int((klen - 1) / num_cores) + 1\n"
POLL_IF = "if any(p.is_alive() for p in processes):"
COMP = 'companion_cachefile = p.with_name("." + p.stem + "_" + hexhash).with_suffix(".pickle")'
HOME_R = 'home_cachefile = (Path(utils.CACHE_DIR) / (p.stem + "_" + hexhash)).with_suffix(".pickle")'
HOME_W = 'home_cachefile = (cache_dir / (p.stem + "_" + hexhash)).with_suffix(".pickle")'
VTEST = 'if data is not None and data.get("internal_version") == self.INTERNAL_VERSION:'
HEX = "hexhash = hashlib.sha256(p.read_bytes()).hexdigest()"

CASES = {
    # ======================================================================= Consts
    "Consts": {
        "harmless": [
            ("h1 idea: INC = 1e-2, 0e0, adjacent string literals", H1_IDEA),
            ("INC = 1 / 100", [sub(AS, "INC = 0.01", "INC = 1 / 100")]),
            ("INC renamed to STEP", [rename(AS, "assign_optimal_throughput", "INC", "STEP")]),
            ("INC as class attribute self.BALANCE_STEP", [
                sub(AS, "        INC = 0.01\n", ""),
                sub(AS, '    GAS_SUFFIXES = "bswlqt"\n', '    GAS_SUFFIXES = "bswlqt"\n    BALANCE_STEP = 10 ** -2\n'),
                rename(AS, "assign_optimal_throughput", "INC", "self.BALANCE_STEP")]),
            ("INC as module constant", [
                sub(AS, "        INC = 0.01\n", ""),
                sub(AS, "class ArchSemantics(ISASemantics):\n", "_BALANCE_INC = 0.01\n\n\nclass ArchSemantics(ISASemantics):\n"),
                rename(AS, "assign_optimal_throughput", "INC", "_BALANCE_INC")]),
            ("round(x, ndigits=2) and a DIGITS local", [
                sub(AS, "if round(min(instr_ports), 2) <= 0:", "if round(min(instr_ports), ndigits=2) <= 0:"),
                sub(AS, "        INC = 0.01\n", "        INC = 0.01\n        DIGITS = 1 + 1\n"),
                sub(AS, "if round(min(differences), 2) <= 0:", "if round(min(differences), DIGITS) <= 0:")]),
            ("trip count commuted and hoisted", [
                sub(AS, "                    for _ in range(int(cycles * (1 / INC))):\n",
                    "                    n_steps = int((1 / INC) * cycles)\n                    for _ in range(n_steps):\n")]),
            ("filter mirrored: 0.0 != instr.throughput", [
                sub(AS, "if instr.throughput != 0.0]", "if 0.0 != instr.throughput]")]),
            ("filter as not ==, constant respelt", [
                sub(AS, "if instr.throughput != 0.0]", "if not instr.throughput == 0e0]")]),
            ("rows built by an append loop with continue guard", [
                sub(AS, "        port_pressures = [instr.port_pressure for instr in kernel if instr.throughput != 0.0]\n",
                    "        port_pressures = []\n        for line in kernel:\n            if line.throughput == 0.0:\n"
                    "                continue\n            port_pressures.append(line.port_pressure)\n")]),
            ("tp sum digits as 1 + 1, comprehension variable renamed", [
                sub(AS, "tp_sum = [round(sum(col), 2) for col in zip(*port_pressures)]",
                    "tp_sum = [round(sum(column), 1 + 1) for column in zip(*port_pressures)]")]),
        ],
        "real": [
            ("INC = 0.02", [sub(AS, "INC = 0.01", "INC = 0.02")]),
            ("INC = 1e-3", [sub(AS, "INC = 0.01", "INC = 1e-3")]),
            ("one transfer uses 2 * INC", [sub(AS, "instr_ports[min_port_idx] += INC", "instr_ports[min_port_idx] += 2 * INC")]),
            ("one cap test rounds to 3 digits", [sub(AS, "if round(min(instr_ports), 2) <= 0:", "if round(min(instr_ports), 3) <= 0:")]),
            ("all balancer roundings to 3 digits", [fn_sub(AS, "assign_optimal_throughput", ", 2)", ", 3)", count=4)]),
            ("tp sum rounded to 3 digits", [sub(AS, "round(sum(col), 2)", "round(sum(col), 3)")]),
            ("filter constant 1.0", [sub(AS, "if instr.throughput != 0.0]", "if instr.throughput != 1.0]")]),
            ("filter operator >", [sub(AS, "if instr.throughput != 0.0]", "if instr.throughput > 0.0]")]),
            ("trip count factor 2 / INC", [sub(AS, "cycles * (1 / INC)", "cycles * (2 / INC)")]),
            ("zip without star", [sub(AS, "zip(*port_pressures)", "zip(port_pressures)")]),
            ("transfer direction: both +=", [sub(AS, "instr_ports[max_port_idx] -= INC", "instr_ports[max_port_idx] += INC"),
                                              sub(AS, "differences[max_port_idx] -= INC", "differences[max_port_idx] += INC")]),
        ],
    },
    # ======================================================================= WorkersConsts
    "WorkersConsts": {
        "harmless": [
            ("h7: 5 * 10, 10**3 class attribute, 1e-1, 2e-1", [
                sub(KD, "    INSTRUCTION_THRESHOLD = 50\n", "    INSTRUCTION_THRESHOLD = 5 * 10\n    MIN_LINE_OFFSET = 10**3\n"),
                sub(KD, "instruction_form.line_number + 0.1", "instruction_form.line_number + 1e-1", count=3),
                sub(KD, "offset = max(1000, ", "offset = max(self.MIN_LINE_OFFSET, "),
                sub(KD, "time.sleep(0.2)", "time.sleep(2e-1)")]),
            ("threshold test mirrored", [sub(KD, "if klen >= self.INSTRUCTION_THRESHOLD:", "if self.INSTRUCTION_THRESHOLD <= klen:")]),
            ("threshold through the class name, negated <", [
                sub(KD, "if klen >= self.INSTRUCTION_THRESHOLD:", "if not klen < KernelDG.INSTRUCTION_THRESHOLD:")]),
            ("threshold branches swapped (if klen < T: sequential else: parallel)", [tree_edit(KD, swap_threshold_branches)]),
            ("klen renamed, len(kernel) inline in the test", [
                rename(KD, "check_for_loopcarried_dep", "klen", "n_instr"),
                sub(KD, "if n_instr >= self.INSTRUCTION_THRESHOLD:", "if len(kernel) >= self.INSTRUCTION_THRESHOLD:")]),
            ("workload with floor division", [sub(KD, WL, "            workload = (klen - 1) // num_cores + 1\n")]),
            ("workload commuted", [sub(KD, WL, "            workload = 1 + int((klen - 1) / num_cores)\n")]),
            ("workload from a hoisted local, all locals renamed", [
                sub(KD, WL, "            last = klen - 1\n            workload = int(last / num_cores) + 1\n"),
                rename(KD, "check_for_loopcarried_dep", "workload", "chunk"),
                rename(KD, "check_for_loopcarried_dep", "num_cores", "ncpu"),
                rename(KD, "check_for_loopcarried_dep", "starts", "lo"),
                rename(KD, "check_for_loopcarried_dep", "ends", "hi")]),
            ("starts built by an append loop", [
                sub(KD, "            starts = [tid * workload for tid in range(num_cores)]\n",
                    "            starts = []\n            for core in range(num_cores):\n                starts.append(core * workload)\n")]),
            ("ends commuted, range(0, n), slice variables renamed", [
                sub(KD, "ends = [min((tid + 1) * workload, klen) for tid in range(num_cores)]",
                    "ends = [min(klen, workload * (1 + t)) for t in range(0, num_cores)]"),
                sub(KD, "instrs = [kernel[s:e] for s, e in zip(starts, ends)]", "instrs = [kernel[a:b] for a, b in zip(starts, ends)]")]),
            ("poll loop mirrored, sleep constant as class attribute", [
                sub(KD, "while time.time() - start_time <= timeout:", "while timeout >= time.time() - start_time:"),
                sub(KD, "    INSTRUCTION_THRESHOLD = 50\n", "    INSTRUCTION_THRESHOLD = 50\n    POLL_INTERVAL = 1 / 5\n"),
                sub(KD, "time.sleep(0.2)", "time.sleep(self.POLL_INTERVAL)")]),
            ("poll body as guard clause", [tree_edit(KD, poll_guard_form)]),
            ("timeout switch mirrored", [sub(KD, "if timeout == -1:", "if -1 == timeout:")]),
            ("timeout switch compared with the float -1.0", [
                sub(KD, "if timeout == -1:", "if timeout == -1.0:")]),
        ],
        "real": [
            ("threshold 60", [sub(KD, "INSTRUCTION_THRESHOLD = 50", "INSTRUCTION_THRESHOLD = 60")]),
            ("threshold operator >", [sub(KD, "if klen >= self.INSTRUCTION_THRESHOLD:", "if klen > self.INSTRUCTION_THRESHOLD:")]),
            ("workload without the -1", [sub(KD, WL, "            workload = int(klen / num_cores) + 1\n")]),
            ("starts shifted by one", [sub(KD, "starts = [tid * workload for", "starts = [tid * workload + 1 for")]),
            ("ends without the min", [sub(KD, "ends = [min((tid + 1) * workload, klen) for", "ends = [(tid + 1) * workload for")]),
            ("zip(ends, starts): bounds swapped", [sub(KD, "zip(starts, ends)", "zip(ends, starts)")]),
            ("slice end + 1", [sub(KD, "kernel[s:e] for s, e", "kernel[s:e + 1] for s, e")]),
            ("one core less", [sub(KD, "starts = [tid * workload for tid in range(num_cores)]", "starts = [tid * workload for tid in range(num_cores - 1)]")]),
            ("sleep 0.5", [sub(KD, "time.sleep(0.2)", "time.sleep(0.5)")]),
            ("poll loop <", [sub(KD, "- start_time <= timeout:", "- start_time < timeout:")]),
            ("timeout switch 0", [sub(KD, "if timeout == -1:", "if timeout == 0:")]),
            ("flag no longer under is_alive", [sub(KD, "                            if p.is_alive():\n", "                            if True:\n")]),
            ("threshold re-bound from another module", [
                add_file("osaca/tuning.py", "from osaca.semantics.kernel_dg import KernelDG\n\nKernelDG.INSTRUCTION_THRESHOLD = 10\n")]),
            ("poll decision inverted", [sub(KD, POLL_IF, "if not any(p.is_alive() for p in processes):")]),
        ],
    },
    # ======================================================================= ImportConsts
    "ImportConsts": {
        "harmless": [
            ("h9: tolerances hoisted and respelt, range(1, 10 + 1), lines_per_entry", [
                sub(DB, "    for i in range(0, len(input_data), 4):\n", "    lines_per_entry = 4\n    for i in range(0, len(input_data), lines_per_entry):\n"),
                sub(DB, ".format((i / 4) + 1)", ".format((i / lines_per_entry) + 1)"),
                sub(DB, '    if mode == "lt":\n', '    tol_below = 95e-2\n    tol_above = 105e-2\n    if mode == "lt":\n'),
                sub(DB, "math.floor(measurement) * 1.05", "math.floor(measurement) * tol_above"),
                sub(DB, "math.ceil(measurement) * 0.95", "math.ceil(measurement) * tol_below"),
                sub(DB, "range(1, 11)", "range(1, 10 + 1)"),
                sub(DB, "if reci * 0.95 <= measurement <= reci * 1.05:", "if reci * tol_below <= measurement <= reci * tol_above:")]),
            ("tolerances as quotients and module constants", [
                sub(DB, "def _validate_measurement(", "_TOL_HI = 21 / 20\n_TOL_LO = 19 / 20\n\n\ndef _validate_measurement("),
                sub(DB, "math.floor(measurement) * 1.05", "math.floor(measurement) * _TOL_HI"),
                sub(DB, "math.ceil(measurement) * 0.95", "math.ceil(measurement) * _TOL_LO")]),
            ("latency tests mirrored, commuted and swapped", [
                sub(DB, "            math.floor(measurement) * 1.05 >= measurement\n            or math.ceil(measurement) * 0.95 <= measurement\n",
                    "            measurement >= 0.95 * math.ceil(measurement)\n            or measurement <= 1.05 * math.floor(measurement)\n")]),
            ("chained comparison as and, 1.0 / x, loop variable renamed, ndigits=", [
                sub(DB, "reciprocals = [1 / x for x in range(1, 11)]", "reciprocals = [1.0 / k for k in range(1, 11)]"),
                sub(DB, "        for reci in reciprocals:\n            if reci * 0.95 <= measurement <= reci * 1.05:",
                    "        for r in reciprocals:\n            if r * 0.95 <= measurement and measurement <= 1.05 * r:"),
                sub(DB, "return round(reci, 5)", "return round(r, ndigits=5)")]),
            ("parameters and mode test mirrored", [
                rename(DB, "_validate_measurement", "measurement", "value"),
                sub(DB, '    if mode == "lt":\n', '    if "lt" == mode:\n')]),
            ("ibench: locals renamed, strings split", [
                rename(DB, "_get_ibench_output", "instruction", "name"),
                rename(DB, "_get_ibench_output", "line", "row"),
                rename(DB, "_get_ibench_output", "key", "ident"),
                sub(DB, '"Using frequency" in row', '"Using " "frequency" in row'),
                sub(DB, 'endswith("-TP")', 'endswith("-" + "TP")')]),
            ("ibench: measurement hoisted, separators as constants", [
                sub(DB, '            entry.throughput = _validate_measurement(float(line.split()[1]), "tp")\n',
                    '            measured = float(line.split()[1])\n            entry.throughput = _validate_measurement(measured, "tp")\n'),
                sub(DB, 'def _get_ibench_output(', '_FIELD_SEP = "-"\n\n\ndef _get_ibench_output('),
                sub(DB, 'key = "-".join(instruction.split("-")[:2])', 'key = _FIELD_SEP.join(instruction.split(_FIELD_SEP)[0:2])')]),
            ("asmbench: offsets commuted, guard mirrored", [
                sub(DB, 'if i + 3 >= len(input_data) or input_data[i + 3].strip() != "":',
                    'if len(input_data) <= 3 + i or not input_data[3 + i].strip() == "":'),
                sub(DB, "float(input_data[i + 2].split()[1])", "float(input_data[2 + i].split()[1])")]),
            ("asmbench: break as guard clause, loop variable renamed", [
                tree_edit(DB, asmbench_guard_form),
                rename(DB, "_get_asmbench_output", "i", "pos"),
                rename(DB, "_get_asmbench_output", "i_form", "form_name")]),
            ("decoders: elif chains as consecutive guard clauses", [
                tree_edit(DB, flatten_chain("_create_db_operand_x86")),
                tree_edit(DB, flatten_chain("_create_db_operand_aarch64"))]),
            ("decoders: bare membership test, format instead of +, mirrored ==, hoisted dict", [
                sub(DB, '"pre_indexed": True if "r" in operand else False,', '"pre_indexed": "r" in operand,'),
                sub(DB, '"post_indexed": True if "p" in operand else False,', '"post_indexed": False if "p" not in operand else True,'),
                sub(DB, '"name": operand + "mm"}', '"name": "{}mm".format(operand)}'),
                sub(DB, 'if operand == "i":\n        return {"class": "immediate", "imd": "int"}\n    elif operand in "wxbhsdq":',
                    'if "i" == operand:\n        return {"class": "immediate", "imd": "int"}\n    elif operand in "wxbh" "sdq":'),
                tree_edit(DB, hoist_dict("_create_db_operand_x86"))]),
        ],
        "real": [
            ("latency tolerance 1.10", [sub(DB, "math.floor(measurement) * 1.05", "math.floor(measurement) * 1.10")]),
            ("throughput tolerances swapped", [sub(DB, "if reci * 0.95 <= measurement <= reci * 1.05:", "if reci * 1.05 <= measurement <= reci * 0.95:")]),
            ("range(1, 12)", [sub(DB, "range(1, 11)", "range(1, 12)")]),
            ("round(reci, 4)", [sub(DB, "round(reci, 5)", "round(reci, 4)")]),
            ("latency comparison strict", [sub(DB, "math.floor(measurement) * 1.05 >= measurement", "math.floor(measurement) * 1.05 > measurement")]),
            ("floor and ceil exchanged", [sub(DB, "math.floor(measurement) * 1.05 >= measurement\n            or math.ceil(measurement) * 0.95",
                                               "math.ceil(measurement) * 1.05 >= measurement\n            or math.floor(measurement) * 0.95")]),
            ("module constant re-bound through global", [
                sub(DB, "def _validate_measurement(", "_TOL_HI = 1.05\n\n\ndef _set_tolerance(x):\n    global _TOL_HI\n    _TOL_HI = x\n\n\ndef _validate_measurement("),
                sub(DB, "math.floor(measurement) * 1.05", "math.floor(measurement) * _TOL_HI")]),
            ("tag -TP -> TP", [sub(DB, 'endswith("-TP")', 'endswith("TP")')]),
            ("key of 3 fields", [sub(DB, '.split("-")[:2])', '.split("-")[:3])')]),
            ("dispatch by substring", [sub(DB, 'instruction.rstrip().endswith("-TP")', '"-TP" in instruction'),
                                        sub(DB, 'instruction.rstrip().endswith("-LT")', '"-LT" in instruction')]),
            ("asmbench latency / throughput lines swapped", [
                sub(DB, "float(input_data[i + 2].split()[1])", "float(input_data[i + 9].split()[1])"),
                sub(DB, "float(input_data[i + 1].split()[1])", "float(input_data[i + 2].split()[1])"),
                sub(DB, "float(input_data[i + 9].split()[1])", "float(input_data[i + 1].split()[1])")]),
            ("asmbench block of 5 lines", [sub(DB, "range(0, len(input_data), 4)", "range(0, len(input_data), 5)")]),
            ("asmbench length guard dropped", [sub(DB, "if i + 3 >= len(input_data) or input_data", "if input_data")]),
            ("x86 table entry dropped", [fn_sub(DB, "_create_db_operand_x86", '            "scale": 8 if "s" in operand else 1,\n', "")]),
            ("x86 first two branches exchanged", [tree_edit(DB, swap_first_two_branches("_create_db_operand_x86"))]),
            ("x86 dict keys exchanged", [tree_edit(DB, swap_dict_keys("_create_db_operand_x86"))]),
            ("startswith(\"r\") -> startswith(\"g\")", [sub(DB, 'operand.startswith("r")', 'operand.startswith("g")')]),
            ("aarch64 register class string", [sub(DB, 'elif operand in "wxbhsdq":', 'elif operand in "wxbhsd":')]),
            ("scale 8 -> 4", [fn_sub(DB, "_create_db_operand_aarch64", '"scale": 8 if', '"scale": 4 if')]),
        ],
    },
    # ======================================================================= CacheConsts
    "CacheConsts": {
        "harmless": [
            ("h3: str.format names", [
                sub(HW, COMP, 'companion_cachefile = p.with_name(".{}_{}".format(p.stem, hexhash)).with_suffix(".pickle")', count=2),
                sub(HW, HOME_R, 'home_cachefile = (Path(utils.CACHE_DIR) / "{}_{}".format(p.stem, hexhash)).with_suffix(\n            ".pickle"\n        )'),
                sub(HW, HOME_W, 'home_cachefile = (cache_dir / "{}_{}".format(p.stem, hexhash)).with_suffix(".pickle")'),
                sub(HW, 'tmpfile = cachefile.with_name("{}.{}.tmp".format(cachefile.name, uuid.uuid4().hex))',
                    'tmpfile = cachefile.with_name(cachefile.name + "." + uuid.uuid4().hex + ".tmp")')]),
            ("f-string / %-format / indexed and named fields", [
                sub(HW, COMP, 'companion_cachefile = p.with_name(f".{p.stem}_{hexhash}").with_suffix(".pickle")', count=2),
                sub(HW, HOME_R, 'home_cachefile = (Path(utils.CACHE_DIR) / ("%s_%s" % (p.stem, hexhash))).with_suffix(".pickle")'),
                sub(HW, HOME_W, 'home_cachefile = (cache_dir / "{1}{sep}{0}".format(hexhash, p.stem, sep="_")).with_suffix(".pickle")')]),
            ("names bound to locals first, join, attribute field, str()", [
                fn_sub(HW, "_get_cached", "        " + COMP,
                       '        stem = p.stem\n        base = "_".join([stem, hexhash])\n        companion_name = "." + base\n'
                       '        companion_cachefile = p.with_name(companion_name).with_suffix(".pickle")'),
                fn_sub(HW, "_get_cached", HOME_R, 'home_cachefile = (Path(utils.CACHE_DIR) / base).with_suffix(".pickle")'),
                fn_sub(HW, "_write_in_cache", COMP, 'companion_cachefile = p.with_name("." "{0.stem}_{1!s}".format(p, str(hexhash))).with_suffix(".pickle")')]),
            ("hash local renamed, bytes hoisted, hashlib.new", [
                rename(HW, "_get_cached", "hexhash", "digest"),
                fn_sub(HW, "_get_cached", "digest = hashlib.sha256(p.read_bytes()).hexdigest()",
                       "raw = p.read_bytes()\n        digest = hashlib.sha256(raw).hexdigest()"),
                fn_sub(HW, "_write_in_cache", HEX, 'hexhash = hashlib.new("sha256", p.read_bytes()).hexdigest()')]),
            ("hash inline, path hoisted, joinpath, suffix concatenated", [
                fn_sub(HW, "_get_cached", HOME_R,
                       'home_base = Path(utils.CACHE_DIR).joinpath(p.stem + "_" + hashlib.sha256(p.read_bytes()).hexdigest())\n'
                       '        home_cachefile = home_base.with_suffix("." + "pickle")')]),
            ("INTERNAL_VERSION = 0 + 1, version test nested and mirrored", [
                sub(HW, "    INTERNAL_VERSION = 1  #", "    INTERNAL_VERSION = 0 + 1  #"),
                sub(HW, "            " + VTEST + "\n                return data\n\n",
                    "            if data is not None:\n                if self.INTERNAL_VERSION == data.get(\"internal_version\"):\n"
                    "                    return data\n\n")]),
            ("version test as guard clauses", [
                sub(HW, "        if home_cachefile.exists():\n            # home file (must be up-to-date, due to equal hash)\n"
                        "            data = self._read_cachefile(home_cachefile)\n            " + VTEST + "\n                return data\n        return False\n",
                    "        if not home_cachefile.exists():\n            return False\n        data = self._read_cachefile(home_cachefile)\n"
                    "        if data is None or data.get(\"internal_version\") != self.INTERNAL_VERSION:\n            return False\n        return data\n")]),
            ("lazy guards: if/else statement, else of `if lazy`, and-chain", [
                tree_edit(HW, cached_as_if_statement),
                sub(HW, "            if not lazy:\n                MachineModel._runtime_cache[self._path] = self._data",
                    "            if lazy:\n                pass\n            else:\n                MachineModel._runtime_cache[self._path] = self._data")]),
            ("lazy guard as conjunction with short-circuit", [
                sub(HW, "cached = self._get_cached(self._path) if not lazy else False", "cached = not lazy and self._get_cached(self._path)")]),
            ("DATA_DIRS / CACHE_DIR with concatenated constants", [
                sub(UT, 'DATA_DIRS = [\n    os.path.expanduser("~/.osaca/data"),\n    os.path.join(os.path.dirname(__file__), "data"),\n]',
                    '_USER = "~/.osaca"\nDATA_DIRS = [\n    os.path.expanduser(_USER + "/data"),\n    os.path.join(os.path.dirname(__file__), "da" "ta"),\n]'),
                sub(UT, 'CACHE_DIR = os.path.expanduser("~/.osaca/cache")', 'CACHE_DIR = os.path.expanduser("%s/cache" % _USER)')]),
            ("sha256 imported by name, home path as Path(D, name), suffix from a class constant", [
                sub(HW, "import hashlib\n", "import hashlib\nfrom hashlib import sha256\n"),
                sub(HW, "hashlib.sha256(p.read_bytes())", "sha256(p.read_bytes())", count=2),
                sub(HW, "    INTERNAL_VERSION = 1  #", "    CACHE_SUFFIX = \".pickle\"\n    INTERNAL_VERSION = 1  #"),
                fn_sub(HW, "_get_cached", HOME_R, 'home_cachefile = Path(utils.CACHE_DIR, p.stem + "_" + hexhash).with_suffix(self.CACHE_SUFFIX)'),
                fn_sub(HW, "_write_in_cache", COMP, 'companion_cachefile = p.with_name("." + p.stem + "_" + hexhash).with_suffix(MachineModel.CACHE_SUFFIX)')]),
            ("pickle functions imported by name", [
                sub(HW, "import pickle\n", "import pickle\nfrom pickle import load as _unpickle, dump\n"),
                sub(HW, "data = pickle.load(f)", "data = pickle.loads(f.read())"),
                sub(HW, "pickle.dump(self._data, f)", "dump(self._data, f)")]),
        ],
        "real": [
            ("INTERNAL_VERSION = 2", [sub(HW, "    INTERNAL_VERSION = 1  #", "    INTERNAL_VERSION = 2  #")]),
            ("companion prefix _ instead of .", [sub(HW, 'p.with_name("." + p.stem', 'p.with_name("_" + p.stem', count=2)]),
            ("suffix .pkl in reader and writer", [sub(HW, '.with_suffix(".pickle")', '.with_suffix(".pkl")', count=4)]),
            ("suffix .pkl in the reader only", [fn_sub(HW, "_get_cached", '.with_suffix(".pickle")', '.with_suffix(".pkl")', count=2)]),
            ("sha1 instead of sha256", [sub(HW, "hashlib.sha256(", "hashlib.sha1(", count=2)]),
            ("hash and stem exchanged", [sub(HW, '(p.stem + "_" + hexhash)', '(hexhash + "_" + p.stem)', count=2)]),
            ("format width on the hash", [sub(HW, COMP, 'companion_cachefile = p.with_name(".{}_{:>70}".format(p.stem, hexhash)).with_suffix(".pickle")', count=2)]),
            ("version test !=", [sub(HW, VTEST, VTEST.replace("==", "!="), count=2)]),
            ("version test or", [sub(HW, VTEST, VTEST.replace(" and ", " or "), count=2)]),
            ("home hit without the version test", [
                sub(HW, "            data = self._read_cachefile(home_cachefile)\n            " + VTEST + "\n",
                    "            data = self._read_cachefile(home_cachefile)\n            if data is not None:\n")]),
            ("home probed first", [
                fn_sub(HW, "_get_cached", "if companion_cachefile.exists():", "if TMP.exists():"),
                fn_sub(HW, "_get_cached", "if home_cachefile.exists():", "if companion_cachefile.exists():"),
                fn_sub(HW, "_get_cached", "if TMP.exists():", "if home_cachefile.exists():"),
                fn_sub(HW, "_get_cached", "self._read_cachefile(companion_cachefile)", "self._read_cachefile(TMP)"),
                fn_sub(HW, "_get_cached", "self._read_cachefile(home_cachefile)", "self._read_cachefile(companion_cachefile)"),
                fn_sub(HW, "_get_cached", "self._read_cachefile(TMP)", "self._read_cachefile(home_cachefile)"),
                fn_sub(HW, "_get_cached", "        " + HOME_R + "\n", ""),
                fn_sub(HW, "_get_cached", "        " + COMP + "\n", "        " + HOME_R + "\n        " + COMP + "\n")]),
            ("runtime store not under `not lazy`", [
                sub(HW, "            if not lazy:\n                MachineModel._runtime_cache[self._path]", "            if True:\n                MachineModel._runtime_cache[self._path]")]),
            ("_get_cached also when lazy", [sub(HW, "cached = self._get_cached(self._path) if not lazy else False", "cached = self._get_cached(self._path)")]),
            ("narrow except around pickle.load", [fn_sub(HW, "_read_cachefile", "except Exception:", "except OSError:")]),
            ("no atomic replace", [sub(HW, "os.replace(str(tmpfile), str(cachefile))", "shutil.copy(str(tmpfile), str(cachefile))")]),
            ("key from the file name instead of its bytes", [sub(HW, "hashlib.sha256(p.read_bytes())", "hashlib.sha256(p.name.encode())", count=2)]),
            ("version stamp dropped", [sub(HW, '                self._data["internal_version"] = self.INTERNAL_VERSION\n', "")]),
            ("DATA_DIRS order exchanged", [
                sub(UT, '    os.path.expanduser("~/.osaca/data"),\n    os.path.join(os.path.dirname(__file__), "data"),\n',
                    '    os.path.join(os.path.dirname(__file__), "data"),\n    os.path.expanduser("~/.osaca/data"),\n')]),
            ("a shipped model file removed", [remove_file("osaca/data/csx.yml")]),
            ("runtime-cache probe returns early", [
                sub(HW, "                self._data = MachineModel._runtime_cache[self._path]\n",
                    "                self._data = MachineModel._runtime_cache[self._path]\n                return\n")]),
        ],
    },
}


# --------------------------------------------------------------------------- whole-file rewrites (all plug-ins)
def NOT(x):
    return ast.UnaryOp(op=ast.Not(), operand=x)


class Respell(ast.NodeTransformer):
    """every literal respelt: s -> "" + s, n -> n + 0, x -> x * 1"""
    def visit_JoinedStr(self, n):
        return n

    def visit_Expr(self, n):
        if isinstance(n.value, ast.Constant) and isinstance(n.value.value, str):
            return n   # docstring
        return self.generic_visit(n)

    def visit_Constant(self, n):
        v = n.value
        if isinstance(v, bool) or v is None:
            return n
        if isinstance(v, str):
            return ast.BinOp(left=ast.Constant(value=""), op=ast.Add(), right=n)
        if isinstance(v, int):
            return ast.BinOp(left=n, op=ast.Add(), right=ast.Constant(value=0))
        if isinstance(v, float):
            return ast.BinOp(left=n, op=ast.Mult(), right=ast.Constant(value=1))
        return n


class RenameLocals(ast.NodeTransformer):
    """every non-parameter local of every function renamed (suffix _q)"""
    def visit_FunctionDef(self, f):
        a = f.args
        params = {x.arg for x in a.posonlyargs + a.args + a.kwonlyargs + [y for y in (a.vararg, a.kwarg) if y]}
        stores = {n.id for n in ast.walk(f) if isinstance(n, ast.Name) and isinstance(n.ctx, ast.Store)} - params
        stores -= {nm for n in ast.walk(f) if isinstance(n, (ast.Global, ast.Nonlocal)) for nm in n.names}
        for n in ast.walk(f):
            if isinstance(n, ast.Name) and n.id in stores:
                n.id = n.id + "_q"
        return f


class Hoist(ast.NodeTransformer):
    """every int / float / str literal inside a function body replaced by a module-level constant _K<i>"""
    def __init__(self):
        self.consts, self.depth = [], 0

    def visit_JoinedStr(self, n):
        return n

    def visit_FunctionDef(self, f):
        self.depth += 1
        f.body = [self.visit(s) for s in f.body]
        self.depth -= 1
        return f

    def visit_Expr(self, n):
        if isinstance(n.value, ast.Constant) and isinstance(n.value.value, str):
            return n
        return self.generic_visit(n)

    def visit_Constant(self, n):
        v = n.value
        if self.depth == 0 or isinstance(v, bool) or not isinstance(v, (int, float, str)):
            return n
        self.consts.append(v)
        return ast.Name(id="_K%d" % (len(self.consts) - 1), ctx=ast.Load())


def hoist(t):
    h = Hoist()
    t = h.visit(t)
    k = max([i for i, s in enumerate(t.body) if isinstance(s, (ast.Import, ast.ImportFrom))] + [0]) + 1
    t.body[k:k] = [ast.Assign(targets=[ast.Name(id="_K%d" % i, ctx=ast.Store())], value=ast.Constant(value=v))
                   for i, v in enumerate(h.consts)]
    return t


_MIR = {ast.Lt: ast.Gt, ast.Gt: ast.Lt, ast.LtE: ast.GtE, ast.GtE: ast.LtE, ast.Eq: ast.Eq, ast.NotEq: ast.NotEq}


class Mirror(ast.NodeTransformer):
    """a < b -> b > a, a == b -> b == a, ..."""
    def visit_Compare(self, n):
        self.generic_visit(n)
        if len(n.ops) == 1 and type(n.ops[0]) in _MIR:
            return ast.Compare(left=n.comparators[0], ops=[_MIR[type(n.ops[0])]()], comparators=[n.left])
        return n


class SwapIf(ast.NodeTransformer):
    """if c: A else: B -> if not c: B else: A (not for elif chains);  x if c else y -> y if not c else x"""
    def visit_If(self, n):
        self.generic_visit(n)
        if n.orelse and not (len(n.orelse) == 1 and isinstance(n.orelse[0], ast.If)):
            return ast.If(test=NOT(n.test), body=n.orelse, orelse=n.body)
        return n

    def visit_IfExp(self, n):
        self.generic_visit(n)
        return ast.IfExp(test=NOT(n.test), body=n.orelse, orelse=n.body)


class DeMorgan(ast.NodeTransformer):
    """in every test: a and b -> not (not a or not b), a or b -> not (not a and not b)"""
    def fix(self, t):
        if isinstance(t, ast.BoolOp):
            other = ast.Or() if isinstance(t.op, ast.And) else ast.And()
            return NOT(ast.BoolOp(op=other, values=[NOT(self.fix(v)) for v in t.values]))
        return t

    def visit_If(self, n):
        self.generic_visit(n)
        n.test = self.fix(n.test)
        return n

    visit_While = visit_IfExp = visit_If

    def visit_comprehension(self, n):
        self.generic_visit(n)
        n.ifs = [self.fix(t) for t in n.ifs]
        return n


class ClassConst(ast.NodeTransformer):
    """self.CONST -> ClassName.CONST for the upper-case class attributes"""
    def visit_ClassDef(self, c):
        consts = {t.id for s in c.body if isinstance(s, ast.Assign) for t in s.targets
                  if isinstance(t, ast.Name) and t.id.isupper()}
        for n in ast.walk(c):
            if isinstance(n, ast.Attribute) and isinstance(n.value, ast.Name) and n.value.id == "self" \
                    and n.attr in consts and isinstance(n.ctx, ast.Load):
                n.value.id = c.name
        return c


def _always_exits(stmts):
    if not stmts:
        return False
    last = stmts[-1]
    if isinstance(last, (ast.Return, ast.Raise, ast.Continue, ast.Break)):
        return True
    return isinstance(last, ast.If) and bool(last.orelse) and _always_exits(last.body) and _always_exits(last.orelse)


class UnElse(ast.NodeTransformer):
    """if c: A(always exits) else: B  ->  if c: A  followed by B"""
    def block(self, stmts):
        out = []
        for s in stmts:
            s = self.visit(s)
            if isinstance(s, ast.If) and s.orelse and _always_exits(s.body):
                rest, s.orelse = s.orelse, []
                out.append(s)
                out.extend(rest)
            else:
                out.append(s)
        return out

    def generic_visit(self, node):
        for f in ("body", "orelse", "finalbody"):
            b = getattr(node, f, None)
            if isinstance(b, list) and b and isinstance(b[0], ast.stmt):
                setattr(node, f, self.block(b))
        if isinstance(node, ast.Try):
            for h in node.handlers:
                h.body = self.block(h.body)
        return node


class _Blocks(ast.NodeTransformer):
    def block(self, stmts):
        raise NotImplementedError

    def generic_visit(self, node):
        super().generic_visit(node)
        for f in ("body", "orelse", "finalbody"):
            b = getattr(node, f, None)
            if isinstance(b, list) and b and isinstance(b[0], ast.stmt):
                setattr(node, f, self.block(b))
        if isinstance(node, ast.Try):
            for h in node.handlers:
                h.body = self.block(h.body)
        return node


class CompToLoop(_Blocks):
    """x = [e for t in it if c]  ->  x = []; for t in it: if c: x.append(e)"""
    def block(self, stmts):
        out = []
        for s in stmts:
            if isinstance(s, ast.Assign) and len(s.targets) == 1 and isinstance(s.targets[0], ast.Name) \
                    and isinstance(s.value, ast.ListComp) and len(s.value.generators) == 1 \
                    and not any(isinstance(n, ast.Name) and n.id == s.targets[0].id for n in ast.walk(s.value)):
                lc, g, nm = s.value, s.value.generators[0], s.targets[0].id
                body = [ast.Expr(value=ast.Call(func=ast.Attribute(value=ast.Name(id=nm, ctx=ast.Load()), attr="append",
                                                                   ctx=ast.Load()), args=[lc.elt], keywords=[]))]
                for c in reversed(g.ifs):
                    body = [ast.If(test=c, body=body, orelse=[])]
                out.append(ast.Assign(targets=[ast.Name(id=nm, ctx=ast.Store())], value=ast.List(elts=[], ctx=ast.Load())))
                out.append(ast.For(target=g.target, iter=g.iter, body=body, orelse=[]))
            else:
                out.append(s)
        return out


class HoistArgs(_Blocks):
    """x = f(g(a), b[i])  ->  _h1 = g(a); _h2 = b[i]; x = f(_h1, _h2)   (plain function calls, leading arguments)"""
    k = 0

    def block(self, stmts):
        out = []
        for s in stmts:
            v = getattr(s, "value", None) if isinstance(s, (ast.Assign, ast.Return)) else None
            if isinstance(v, ast.Call) and not any(isinstance(a, ast.Starred) for a in v.args) \
                    and not isinstance(v.func, ast.Attribute):
                for i, a in enumerate(v.args):
                    if isinstance(a, (ast.Call, ast.BinOp, ast.Subscript)):
                        HoistArgs.k += 1
                        nm = "_h%d" % HoistArgs.k
                        out.append(ast.Assign(targets=[ast.Name(id=nm, ctx=ast.Store())], value=a))
                        v.args[i] = ast.Name(id=nm, ctx=ast.Load())
                    elif not isinstance(a, (ast.Constant, ast.Name)):
                        break
            out.append(s)
        return out


GENERIC = [
    ("ast.unparse round trip (quotes, parentheses, comments, layout)", lambda t: t),
    ("every literal respelt (\"\" + s, n + 0, x * 1)", lambda t: Respell().visit(t)),
    ("every local of every function renamed", lambda t: RenameLocals().visit(t)),
    ("every literal of every function hoisted to a module constant", hoist),
    ("every comparison mirrored", lambda t: Mirror().visit(t)),
    ("every if/else and conditional expression with swapped arms", lambda t: SwapIf().visit(t)),
    ("De Morgan on every test", lambda t: DeMorgan().visit(t)),
    ("self.CONST -> Class.CONST", lambda t: ClassConst().visit(t)),
    ("else after an exiting branch -> guard clause", lambda t: UnElse().visit(t)),
    ("every assigned list comprehension -> append loop", lambda t: CompToLoop().visit(t)),
    ("call arguments hoisted into locals", lambda t: HoistArgs().visit(t)),
]


def generic_test(plugins, base_dir, base, tmp, failures):
    for name, tr in GENERIC:
        d = os.path.join(tmp, "generic")
        shutil.copytree(base_dir, d)
        for rel in FILES:
            p = os.path.join(d, rel)
            t = tr(ast.parse(open(p).read()))
            open(p, "w").write(ast.unparse(ast.fix_missing_locations(t)) + "\n")
            ast.parse(open(p).read())
        for g, fn in plugins.items():
            st, out = run(fn, d)
            good = st == "ok" and out == base[g]
            if VERBOSE or not good:
                print("%-4s %-13s %-8s whole files: %s" % ("ok" if good else "FAIL", g, "harmless", name))
            if not good:
                print("       " + ("plug-in failed: " + out if st != "ok" else "output differs:\n" + diff(base[g], out)).replace("\n", "\n       "))
                failures.append("%s/generic/%s" % (g, name))
        shutil.rmtree(d)
    return len(GENERIC)


def check_floats():
    # the "harmless" respellings above rely on these identities
    assert 1e-2 == 0.01 == 1 / 100 == 10 ** -2 and 0e0 == 0.0 and 2e-1 == 0.2 == 1 / 5 and 1e-1 == 0.1
    assert 95e-2 == 0.95 == 19 / 20 and 105e-2 == 1.05 == 21 / 20 and 1.0 / 7 == 1 / 7
    for c in (0.07, 0.5, 1.0, 3.0, 0.33):
        assert int(c * (1 / 0.01)) == int((1 / 0.01) * c)


def mutation_test():
    check_floats()
    plugins = new_plugins()
    tmp = tempfile.mkdtemp(prefix="g1test_")
    failures = []
    try:
        base_dir = os.path.join(tmp, "base")
        light_copy(base_dir)
        base = {}
        for g, fn in plugins.items():
            st, out = run(fn, base_dir)
            if st != "ok":
                failures.append("%s: baseline fails: %s" % (g, out))
            base[g] = out
            committed = os.path.join(ROOT, "lean", "OsacaVerif", "Gen", g + ".lean")
            if SRC_REPO == "/repo" or os.environ.get("G1_CHECK_COMMITTED"):
                if open(committed).read() != out:
                    failures.append("%s: baseline differs from the committed Gen file" % g)
        n = 0
        for g, kinds in CASES.items():
            for kind in ("harmless", "real"):
                cases = kinds[kind]
                need = 8 if kind == "harmless" else 6
                if len(cases) < need:
                    failures.append("%s: only %d %s cases" % (g, len(cases), kind))
                for name, edits in cases:
                    n += 1
                    d = os.path.join(tmp, "case%d" % n)
                    shutil.copytree(base_dir, d)
                    for e in edits:
                        e(d)
                    for f in FILES:      # every variant must still be a Python program
                        ast.parse(open(os.path.join(d, f)).read())
                    st, out = run(plugins[g], d)
                    if kind == "harmless":
                        good = st == "ok" and out == base[g]
                        why = "" if good else ("plug-in failed: " + out if st != "ok" else "output differs:\n" + diff(base[g], out))
                    else:
                        good = st == "fail" or out != base[g]
                        why = "" if good else "output unchanged"
                    if VERBOSE or not good:
                        print("%-4s %-13s %-8s %s" % ("ok" if good else "FAIL", g, kind, name))
                        if good and kind == "real" and VERBOSE:
                            print("       -> %s" % ("fails: " + out[:110] if st == "fail" else "output changes"))
                    if not good:
                        print("       " + why.replace("\n", "\n       "))
                        failures.append("%s/%s/%s" % (g, kind, name))
                    shutil.rmtree(d)
        ng = generic_test(plugins, base_dir, base, tmp, failures)
        counts = {g: (len(k["harmless"]) + ng, len(k["real"])) for g, k in CASES.items()}
        print("mutation test: %d specific cases + %d whole-file rewrites x 4 plug-ins (%s): %s" % (
            n, ng, ", ".join("%s %dh/%dr" % (g, a, b) for g, (a, b) in counts.items()),
            "all pass" if not failures else "%d FAILED" % len(failures)))
    finally:
        shutil.rmtree(tmp, ignore_errors=True)
    return failures


def diff(a, b):
    import difflib
    return "\n".join(l[:160] for l in list(difflib.unified_diff(a.splitlines(), b.splitlines(), lineterm="", n=0))[:12])


def seeded_test():
    """old (commit BASE) vs new plug-ins on every seeded breaking change that touches their sources"""
    if SRC_REPO == "/repo":
        print("seeded test: refusing to patch /repo; set OSACA_REPO to a private checkout")
        return ["seeded: no private checkout"]
    tmp = tempfile.mkdtemp(prefix="g1seeded_")
    failures = []
    try:
        old, new = old_plugins(tmp), new_plugins()
        if subprocess.run(["git", "-C", SRC_REPO, "status", "--porcelain"], capture_output=True, text=True).stdout.strip():
            return ["seeded: %s is not clean" % SRC_REPO]
        b_old = {g: run(f, SRC_REPO) for g, f in old.items()}
        b_new = {g: run(f, SRC_REPO) for g, f in new.items()}
        touched = ("hw_model.py", "kernel_dg.py", "db_interface.py", "arch_semantics.py", "osaca/utils.py", "_build_cache", "osaca/data/")
        rows = []
        for pd in sorted(glob.glob(os.path.join(ROOT, "seeded", "*", "patch.diff"))):
            if not any(t in open(pd).read() for t in touched):
                continue
            name = os.path.basename(os.path.dirname(pd))
            r = subprocess.run(["git", "-C", SRC_REPO, "apply", "-3", pd], capture_output=True, text=True)
            try:
                if r.returncode != 0 or "conflict" in r.stderr.lower():
                    rows.append((name, "does not apply", ""))
                    continue
                for g in PLUGINS:
                    o, nw = run(old[g], SRC_REPO), run(new[g], SRC_REPO)
                    o_notice = o != b_old[g]
                    n_notice = nw != b_new[g]
                    if o_notice or n_notice:
                        rows.append((name, g, "old: %s | new: %s" % (
                            ("fails" if o[0] == "fail" else "changes") if o_notice else "unnoticed",
                            ("fails" if nw[0] == "fail" else "changes") if n_notice else "unnoticed")))
                    if o_notice and not n_notice:
                        failures.append("seeded %s: %s noticed by the old plug-in only" % (name, g))
            finally:
                subprocess.check_call(["git", "-C", SRC_REPO, "reset", "-q", "--hard", "HEAD"])
        for r in rows:
            print("seeded %-45s %-14s %s" % r)
        print("seeded test: %s" % ("no loss of sensitivity" if not failures else "%d LOST" % len(failures)))
    finally:
        shutil.rmtree(tmp, ignore_errors=True)
    return failures


if __name__ == "__main__":
    fails = mutation_test()
    if "--seeded" in sys.argv:
        fails += seeded_test()
    for f in fails:
        print("FAILED:", f)
    sys.exit(1 if fails else 0)
