#!/usr/bin/env python3
"""Sensitivity / robustness test of the G5 hardening round: ReportConsts, A64Grammar, MarkerConsts, HistoryCfg,
WorkersConsts (plug-ins reportconsts.py, a64grammar.py, markerconsts.py, historycfg.py, workers.py; helpers
astutil_G5.py).

All python sources of $OSACA_REPO (default /repo) are copied into a temp dir once; per case the (file, old, new)
text edits (or a patch file) are applied to the copy, the plug-in function is called directly with
`translate.REPO` pointing at the copy, and the files are restored.

* HARMLESS variants (behaviour-preserving rewrites; the six given patches plus invented ones in the same spirit):
  the output must be IDENTICAL to the baseline.
* REAL mutations (behaviour changes): the output must CHANGE or the plug-in must fail.

Run:  /venv/bin/python tools/gen/tests/test_G5.py             (exit 0 = pass)
      /venv/bin/python tools/gen/tests/test_G5.py --seeded    additionally: every seeded/*/patch.diff that touches a
                                                              source of these plug-ins, old plug-ins (git rev
                                                              ORIG_REV) vs new ones; a change the old plug-in
                                                              noticed must be noticed by the new one
      /venv/bin/python tools/gen/tests/test_G5.py --probe     additionally: the harmless variants of the AArch64 parser
                                                              and of marker_utils are RUN (subprocess importing the
                                                              edited copy) on a small corpus and must behave like the
                                                              unchanged sources -- a check of the test cases
      /venv/bin/python tools/gen/tests/test_G5.py -v          print every case
"""
import glob
import os
import shutil
import subprocess
import sys
import tempfile
import warnings

warnings.simplefilter("ignore")
HERE = os.path.dirname(os.path.abspath(__file__))
TOOLS = os.path.dirname(os.path.dirname(HERE))
ROOT = os.path.dirname(TOOLS)
sys.path.insert(0, TOOLS)
import translate  # noqa: E402

SRC_REPO = os.environ.get("OSACA_REPO", "/repo")
ORIG_REV = "9ab61aa"        # the framework commit before this round (old plug-ins for --seeded)
VERBOSE = "-v" in sys.argv

FE = "osaca/frontend.py"
MAIN = "osaca/osaca.py"
A64 = "osaca/parser/parser_AArch64.py"
BP = "osaca/parser/base_parser.py"
MU = "osaca/semantics/marker_utils.py"
AS = "osaca/semantics/arch_semantics.py"
IS = "osaca/semantics/isa_semantics.py"
HW = "osaca/semantics/hw_model.py"
DG = "osaca/semantics/kernel_dg.py"

GEN_FILES = {
    "ReportConsts": [FE, MAIN, IS],
    "A64Grammar": [A64, BP],
    "MarkerConsts": [MU, MAIN, BP],
    "HistoryCfg": [AS, IS, HW],
    "WorkersConsts": [DG],
}


class Sandbox:
    def __init__(self):
        self.tmp = tempfile.mkdtemp(prefix="g5test")
        self.orig = {}
        for p in glob.glob(os.path.join(SRC_REPO, "osaca", "**", "*.py"), recursive=True):
            rel = os.path.relpath(p, SRC_REPO)
            os.makedirs(os.path.dirname(os.path.join(self.tmp, rel)), exist_ok=True)
            shutil.copy(p, os.path.join(self.tmp, rel))
            self.orig[rel] = open(p, encoding="utf-8").read()
        translate.load_plugins()
        translate.REPO = self.tmp

    def close(self):
        shutil.rmtree(self.tmp, ignore_errors=True)

    def restore(self):
        for rel, text in self.orig.items():
            p = os.path.join(self.tmp, rel)
            if not os.path.exists(p) or open(p, encoding="utf-8").read() != text:
                open(p, "w", encoding="utf-8").write(text)
        for p in glob.glob(os.path.join(self.tmp, "osaca", "**", "*.py"), recursive=True):
            if os.path.relpath(p, self.tmp) not in self.orig:
                os.remove(p)

    def apply(self, edits):
        """edits: list of (file, old, new) -- `old` must occur exactly once; (file, old, new, "all") replaces every
        occurrence; ("patch", path) applies a diff"""
        for e in edits:
            if e[0] == "patch":
                r = subprocess.run(["git", "apply", "--include=osaca/*", e[1]], cwd=self.tmp, capture_output=True, text=True)
                if r.returncode != 0:
                    raise SystemExit("patch %s does not apply to the sources of %s: %s" % (e[1], SRC_REPO, r.stderr[:300]))
                continue
            f, old, new = e[:3]
            p = os.path.join(self.tmp, f)
            s = open(p, encoding="utf-8").read()
            if len(e) == 4 and e[3] == "all":
                if s.count(old) < 1:
                    raise SystemExit("test edit does not apply in %s: %r" % (f, old[:70]))
            elif s.count(old) != 1:
                raise SystemExit("test edit does not apply exactly once in %s: %r (%d times)" % (f, old[:70], s.count(old)))
            s = s.replace(old, new)
            open(p, "w", encoding="utf-8").write(s)
            compile(s, p, "exec")       # the edited file must still be Python

    def run(self, gen, edits):
        """output of the generator on the edited sources; ('FAIL', message) if it raises"""
        try:
            self.apply(edits)
            try:
                return translate.GENERATORS[gen][0]()
            except translate.TranslateError as e:
                return ("FAIL", str(e))
            except Exception as e:      # what translate.run records as a failure, too
                return ("FAIL", "%s: %s" % (type(e).__name__, e))
        finally:
            self.restore()


# =========================================================================================== HistoryCfg
H_IFELSE = '''                            if len(data_port_uops) < 1:
                                data_port_uops = load_perf_data[0][1]
                            else:
                                data_port_uops = data_port_uops[0]
'''
H_COMP = '''                            data_port_uops = [
                                ldp[1]
                                for ldp in load_perf_data
                                if ldp[0].dst is not None
                                and self._machine_model._check_operands(
                                    dummy_reg, RegisterOperand(name=ldp[0].dst)
                                )
                            ]
'''
H_JOIN = "                            data_port_uops = data_port_uops + st_data_port_uops\n"
H_ST = "                            st_data_port_uops = store_perf_data[0][1]\n"
H_FOUND = "        instruction_form.port_uops = instruction_data.port_pressure\n"
H_DEFAULT = '        return [(memory, self._data["load_throughput_default"].copy())]\n'
H_HIDDEN_LOOP = "            for op in isa_data.hidden_operands:\n"
H_HIDDEN_APPEND = "                op_dict[dict_key].append(op)\n"

HISTORY_HARMLESS = [
    ("given out-C/h4.diff (if/else -> conditional expression)", [("patch", "/tmp/harm/out-C/h4.diff")]),
    ("locals renamed", [(AS, "data_port_uops", "ld_uops", "all"), (AS, "load_perf_data", "ld_tab", "all"),
                        (AS, "store_perf_data", "st_tab", "all")]),
    ("`or`-default instead of if/else", [(AS, H_IFELSE,
        "                            data_port_uops = (data_port_uops or [load_perf_data[0][1]])[0]\n")]),
    ("default hoisted into a local", [(AS, H_IFELSE, '''                            fallback_uops = load_perf_data[0][1]
                            if len(data_port_uops) < 1:
                                data_port_uops = fallback_uops
                            else:
                                data_port_uops = data_port_uops[0]
''')]),
    ("if/else mirrored with a new name for the chosen list", [(AS, H_IFELSE, '''                            if len(data_port_uops) >= 1:
                                chosen = data_port_uops[0]
                            else:
                                chosen = load_perf_data[0][1]
                            data_port_uops = chosen
''')]),
    ("comprehension -> filtering loop", [(AS, H_COMP, '''                            data_port_uops = []
                            for ldp in load_perf_data:
                                if ldp[0].dst is None:
                                    continue
                                if self._machine_model._check_operands(
                                    dummy_reg, RegisterOperand(name=ldp[0].dst)
                                ):
                                    data_port_uops.append(ldp[1])
''')]),
    ("comprehension with tuple target", [(AS, H_COMP, '''                            data_port_uops = [
                                uops
                                for mem, uops in load_perf_data
                                if mem.dst is not None
                                and self._machine_model._check_operands(
                                    dummy_reg, RegisterOperand(name=mem.dst)
                                )
                            ]
''')]),
    ("store list by tuple unpacking", [(AS, H_ST, "                            _, st_data_port_uops = store_perf_data[0]\n")]),
    ("store entry hoisted", [(AS, H_ST, "                            st_entry = store_perf_data[0]\n"
                                        "                            st_data_port_uops = st_entry[1]\n")]),
    ("join as [*a, *b]", [(AS, H_JOIN, "                            data_port_uops = [*data_port_uops, *st_data_port_uops]\n")]),
    ("join as list(chain(a, b))", [(AS, H_JOIN, "                            data_port_uops = list(chain(data_port_uops, st_data_port_uops))\n")]),
    ("join bound to a new local first", [(AS, H_JOIN, "                            joined_uops = data_port_uops + st_data_port_uops\n"
                                                      "                            data_port_uops = joined_uops\n")]),
    ("port_uops through a hoisted local", [(AS, H_FOUND, "        found_uops = instruction_data.port_pressure\n"
                                                         "        instruction_form.port_uops = found_uops\n")]),
    ("load default through a local", [(HW, H_DEFAULT, '        default_uops = self._data["load_throughput_default"].copy()\n'
                                                      "        return [(memory, default_uops)]\n")]),
    ("load default copied by list()", [(HW, H_DEFAULT, '        return [(memory, list(self._data["load_throughput_default"]))]\n')]),
    ("hidden operands through a hoisted local", [(IS, H_HIDDEN_LOOP, "            hidden = isa_data.hidden_operands\n"
                                                                     "            for op in hidden:\n")]),
    ("hidden operand loop variable renamed", [(IS, H_HIDDEN_LOOP, "            for hidden_op in isa_data.hidden_operands:\n"
                                                                  "                op = hidden_op\n")]),
]
H_PICK = '''    def _pick_load_uops(self, table, wanted):
        """micro-ops of the first load entry whose destination register class matches, else of the first entry"""
        matching = [
            entry[1]
            for entry in table
            if entry[0].dst is not None
            and self._machine_model._check_operands(wanted, RegisterOperand(name=entry[0].dst))
        ]
        if not matching:
            return table[0][1]
        return matching[0]

'''
H_ANCHOR = "    def _handle_instruction_found(self, instruction_data, port_number, instruction_form, flags):\n"
HISTORY_HARMLESS += [
    ("choice of the load micro-ops extracted into a private method",
     [(AS, H_COMP + H_IFELSE, "                            data_port_uops = self._pick_load_uops(load_perf_data, dummy_reg)\n"),
      (AS, H_ANCHOR, H_PICK + H_ANCHOR)]),
]

HISTORY_REAL = [
    ("private method that picks the load micro-ops returns a copy",
     [(AS, H_COMP + H_IFELSE, "                            data_port_uops = self._pick_load_uops(load_perf_data, dummy_reg)\n"),
      (AS, H_ANCHOR, H_PICK.replace("return matching[0]", "return list(matching[0])").replace("return table[0][1]", "return list(table[0][1])") + H_ANCHOR)]),
    ("default load list copied (one path only)", [(AS, "data_port_uops = load_perf_data[0][1]", "data_port_uops = list(load_perf_data[0][1])")]),
    ("load lists copied on both paths", [(AS, "data_port_uops = load_perf_data[0][1]", "data_port_uops = list(load_perf_data[0][1])"),
                                         (AS, "                                ldp[1]\n", "                                list(ldp[1])\n")]),
    ("chosen list deep-copied", [(AS, "data_port_uops = data_port_uops[0]", "data_port_uops = deepcopy(data_port_uops)[0]"),
                                 (AS, "data_port_uops = load_perf_data[0][1]", "data_port_uops = deepcopy(load_perf_data)[0][1]")]),
    ("join in place (+=)", [(AS, H_JOIN, "                            data_port_uops += st_data_port_uops\n")]),
    ("join in place (extend)", [(AS, H_JOIN, "                            data_port_uops.extend(st_data_port_uops)\n")]),
    ("store micro-ops first", [(AS, H_JOIN, "                            data_port_uops = st_data_port_uops + data_port_uops\n")]),
    ("store list is entry element 0", [(AS, H_ST, "                            st_data_port_uops = store_perf_data[0][0]\n")]),
    ("conditional expression with a copying arm", [(AS, H_IFELSE, '''                            data_port_uops = (
                                load_perf_data[0][1].copy()
                                if len(data_port_uops) < 1
                                else data_port_uops[0]
                            )
''')]),
    ("load default no longer copied", [(HW, H_DEFAULT, '        return [(memory, self._data["load_throughput_default"])]\n')]),
    ("port_uops copied", [(AS, H_FOUND, "        instruction_form.port_uops = list(instruction_data.port_pressure)\n")]),
    ("hidden operand copied in the loop", [(IS, H_HIDDEN_APPEND, "                op_dict[dict_key].append(copy.copy(op))\n")]),
    ("hidden operands deep-copied everywhere", [(IS, H_HIDDEN_LOOP, "            for op in deepcopy(isa_data.hidden_operands):\n"),
                                                (IS, "[hop for hop in isa_data.hidden_operands]", "[deepcopy(hop) for hop in isa_data.hidden_operands]")]),
]

# =========================================================================================== WorkersConsts
W_SLICES = '''            starts = [tid * workload for tid in range(num_cores)]
            ends = [min((tid + 1) * workload, klen) for tid in range(num_cores)]
            instrs = [kernel[s:e] for s, e in zip(starts, ends)]
'''
W_INSTRS = "            instrs = [kernel[s:e] for s, e in zip(starts, ends)]\n"
W_WORKLOAD = "            workload = int((klen - 1) / num_cores) + 1\n"

W_POLL = '''                    while time.time() - start_time <= timeout:
                        if any(p.is_alive() for p in processes):
                            time.sleep(0.2)
                        else:
                            # all procs done
                            for p in processes:
                                p.join()
                            break
                    else:
                        # terminate running processes
                        for p in processes:
                            if p.is_alive():
                                # the search is cut short only if a worker is still running
                                self.timed_out = True
                                # Python 3.6 does not support Process.kill().
                                # Can be changed to `p.kill()` after EoL (01/22) of Py3.6
                                os.kill(p.pid, signal.SIGKILL)
                            p.join()
'''
W_POLL_TRUE = '''                    while True:
                        if time.time() - start_time > timeout:
                            # terminate running processes
                            for p in processes:
                                if p.is_alive():
                                    self.timed_out = True
                                    os.kill(p.pid, signal.SIGKILL)
                                p.join()
                            break
                        if not any(p.is_alive() for p in processes):
                            for p in processes:
                                p.join()
                            break
                        time.sleep(1 / 5)
'''

WORKERS_HARMLESS = [
    ("poll loop as `while True` with the time-out as a guard", [(DG, W_POLL, W_POLL_TRUE)]),
    ("given out-C/h8.diff (one comprehension over tid, //, min order, guard form of the poll loop)", [("patch", "/tmp/harm/out-C/h8.diff")]),
    ("slices built by a loop with hoisted bounds", [(DG, W_SLICES, '''            instrs = []
            for tid in range(num_cores):
                first = tid * workload
                last = min((tid + 1) * workload, klen)
                instrs.append(kernel[first:last])
''')]),
    ("slices built by a loop, bounds by tuple assignment", [(DG, W_SLICES, '''            instrs = list()
            for t in range(0, num_cores):
                lo, hi = t * workload, min(klen, workload * (t + 1))
                instrs.append(kernel[lo:hi])
''')]),
    ("list of (start, end) pairs", [(DG, W_SLICES, '''            bounds = [(tid * workload, min((tid + 1) * workload, klen)) for tid in range(num_cores)]
            instrs = [kernel[s:e] for s, e in bounds]
''')]),
    ("pairs consumed as one tuple variable", [(DG, W_INSTRS, "            instrs = [kernel[s:e] for (s, e) in list(zip(starts, ends))]\n")]),
    ("enumerate over starts, ends indexed", [(DG, W_INSTRS, "            instrs = [kernel[s : ends[i]] for i, s in enumerate(starts)]\n")]),
    ("zip bound to a local", [(DG, W_INSTRS, "            pairs = zip(starts, ends)\n            instrs = [kernel[a:b] for a, b in pairs]\n")]),
    ("generator inside list()", [(DG, W_INSTRS, "            instrs = list(kernel[s:e] for s, e in zip(starts, ends))\n")]),
    ("range(num_cores) hoisted, starts/ends by append loops", [(DG, W_SLICES, '''            tids = range(num_cores)
            starts = []
            for tid in tids:
                starts.append(tid * workload)
            ends = []
            for tid in tids:
                ends.append(min((tid + 1) * workload, klen))
            instrs = [kernel[s:e] for s, e in zip(starts, ends)]
''')]),
    ("slices indexed by tid", [(DG, W_INSTRS, "            instrs = [kernel[starts[tid] : ends[tid]] for tid in range(num_cores)]\n")]),
    ("workload with // and a hoisted numerator", [(DG, W_WORKLOAD, "            last_index = klen - 1\n            workload = last_index // num_cores + 1\n")]),
]
WORKERS_REAL = [
    ("`while True` poll loop that times out at >=", [(DG, W_POLL, W_POLL_TRUE.replace("> timeout", ">= timeout"))]),
    ("`while True` poll loop that flags the time-out unconditionally", [(DG, W_POLL, W_POLL_TRUE.replace(
        "                                if p.is_alive():\n                                    self.timed_out = True\n",
        "                                self.timed_out = True\n                                if p.is_alive():\n"))]),
    ("start shifted by one", [(DG, "starts = [tid * workload for", "starts = [tid * workload + 1 for")]),
    ("end uses tid + 2", [(DG, "min((tid + 1) * workload, klen)", "min((tid + 2) * workload, klen)")]),
    ("slice bounds swapped", [(DG, "kernel[s:e] for s, e in zip(starts, ends)", "kernel[e:s] for s, e in zip(starts, ends)")]),
    ("zip arguments swapped", [(DG, "zip(starts, ends)", "zip(ends, starts)")]),
    ("empty slices filtered out", [(DG, W_INSTRS, "            instrs = [kernel[s:e] for s, e in zip(starts, ends) if s < e]\n")]),
    ("one core left out", [(DG, "starts = [tid * workload for tid in range(num_cores)]", "starts = [tid * workload for tid in range(num_cores - 1)]")]),
    ("tids start at 1", [(DG, W_SLICES, '''            instrs = []
            for tid in range(1, num_cores):
                instrs.append(kernel[tid * workload : min((tid + 1) * workload, klen)])
''')]),
    ("loop keeps only every other slice", [(DG, W_SLICES, '''            instrs = []
            for tid in range(num_cores):
                if tid % 2:
                    continue
                instrs.append(kernel[tid * workload : min((tid + 1) * workload, klen)])
''')]),
    ("workload without the - 1", [(DG, W_WORKLOAD, "            workload = int(klen / num_cores) + 1\n")]),
    ("end not clipped to klen", [(DG, "min((tid + 1) * workload, klen)", "(tid + 1) * workload")]),
    ("slice with a step", [(DG, "kernel[s:e] for s, e", "kernel[s:e:2] for s, e")]),
    ("poll interval changed", [(DG, "time.sleep(0.2)", "time.sleep(0.5)")]),
    ("threshold comparison strict", [(DG, "if klen >= self.INSTRUCTION_THRESHOLD:", "if klen > self.INSTRUCTION_THRESHOLD:")]),
]

# =========================================================================================== MarkerConsts
M_RED = '''    isa = isa.lower()
    if isa == "x86":
        start, end = find_marked_kernel_x86ATT(kernel)
    elif isa == "aarch64":
        start, end = find_marked_kernel_AArch64(kernel)
    else:
        raise ValueError("ISA not supported.")
    if start == -1:
        start = 0
    if end == -1:
        end = len(kernel)
    return kernel[start:end]
'''
M_DISPATCH = '''    if isa == "x86":
        start, end = find_marked_kernel_x86ATT(kernel)
    elif isa == "aarch64":
        start, end = find_marked_kernel_AArch64(kernel)
    else:
        raise ValueError("ISA not supported.")
'''
M_CLIP = '''    if start == -1:
        start = 0
    if end == -1:
        end = len(kernel)
    return kernel[start:end]
'''

MARKER_HARMLESS = [
    ("given out-D/h10.diff (guard clause raising first, dict(...), loops)", [("patch", "/tmp/harm/out-D/h10.diff")]),
    ("membership tests", [(MU, M_DISPATCH, '''    if isa in ("x86",):
        start, end = find_marked_kernel_x86ATT(kernel)
    elif isa in ["aarch64"]:
        start, end = find_marked_kernel_AArch64(kernel)
    else:
        raise ValueError("ISA not supported.")
''')]),
    ("guard with `not in` a tuple, then plain else", [(MU, M_DISPATCH, '''    if isa not in ("x86", "aarch64"):
        raise ValueError("ISA not supported.")
    if isa == "aarch64":
        start, end = find_marked_kernel_AArch64(kernel)
    else:
        start, end = find_marked_kernel_x86ATT(kernel)
''')]),
    ("De Morgan guard", [(MU, M_DISPATCH, '''    if not (isa == "x86" or isa == "aarch64"):
        raise ValueError("ISA not supported.")
    if isa != "x86":
        start, end = find_marked_kernel_AArch64(kernel)
    else:
        start, end = find_marked_kernel_x86ATT(kernel)
''')]),
    ("nested negative tests", [(MU, M_DISPATCH, '''    if isa != "x86":
        if isa != "aarch64":
            raise ValueError("ISA not supported.")
        start, end = find_marked_kernel_AArch64(kernel)
    else:
        start, end = find_marked_kernel_x86ATT(kernel)
''')]),
    ("conditional expression after a guard", [(MU, M_DISPATCH, '''    if isa != "x86" and isa != "aarch64":
        raise ValueError("ISA not supported.")
    start, end = (
        find_marked_kernel_x86ATT(kernel) if isa == "x86" else find_marked_kernel_AArch64(kernel)
    )
''')]),
    ("lower-cased name bound to a new local, constants at module level", [(MU, M_RED, '''    arch_family = isa.lower()
    if arch_family == ISA_X86:
        start, end = find_marked_kernel_x86ATT(kernel)
    elif arch_family == ISA_A64:
        start, end = find_marked_kernel_AArch64(kernel)
    else:
        raise ValueError("ISA not supported.")
    if start == -1:
        start = 0
    if end == -1:
        end = len(kernel)
    return kernel[start:end]
'''), (MU, 'COMMENT_MARKER = {', 'ISA_X86, ISA_A64 = "x86", "aarch" + "64"\nCOMMENT_MARKER = {')]),
    ("private helper clips the indices", [(MU, M_CLIP, '''    start, end = _clip_to_kernel(start, end, len(kernel))
    return kernel[start:end]


def _clip_to_kernel(first, last, length):
    """replace the 'not found' value of find_marked_section by the kernel bounds"""
    if first == -1:
        first = 0
    if last == -1:
        last = length
    return first, last
''')]),
    ("private helper rejects unknown ISAs", [(MU, M_DISPATCH, '''    _require_supported(isa)
    if isa == "x86":
        start, end = find_marked_kernel_x86ATT(kernel)
    else:
        start, end = find_marked_kernel_AArch64(kernel)
'''), (MU, "def find_marked_kernel_AArch64(lines):", '''def _require_supported(name):
    if name == "x86" or name == "aarch64":
        return
    raise ValueError("ISA not supported.")


def find_marked_kernel_AArch64(lines):''')]),
    ("early returns instead of rebinding start/end", [(MU, M_CLIP, '''    if start == -1 and end == -1:
        return kernel[0:]
    if start == -1:
        return kernel[0:end]
    if end == -1:
        return kernel[start : len(kernel)]
    return kernel[start:end]
''')]),
]
MARKER_REAL = [
    ("ISA name changed", [(MU, 'if isa == "x86":\n        start, end = find_marked_kernel_x86ATT', 'if isa == "x86_64":\n        start, end = find_marked_kernel_x86ATT')]),
    ("finders swapped", [(MU, M_DISPATCH, M_DISPATCH.replace("x86ATT", "TMP").replace("AArch64", "x86ATT").replace("TMP", "AArch64"))]),
    ("isa no longer lower-cased", [(MU, "    isa = isa.lower()\n    if isa == \"x86\":\n        start, end", "    if isa == \"x86\":\n        start, end")]),
    ("sentinel of start changed", [(MU, "    if start == -1:\n        start = 0\n", "    if start == -2:\n        start = 0\n")]),
    ("default end is len - 1", [(MU, "        end = len(kernel)\n", "        end = len(kernel) - 1\n")]),
    ("else branch serves every other ISA", [(MU, M_DISPATCH, '''    if isa == "x86":
        start, end = find_marked_kernel_x86ATT(kernel)
    else:
        start, end = find_marked_kernel_AArch64(kernel)
''')]),
    ("guard lets aarch64-like names through", [(MU, M_DISPATCH, '''    if isa != "x86" and not isa.startswith("aarch64"):
        raise ValueError("ISA not supported.")
    if isa == "x86":
        start, end = find_marked_kernel_x86ATT(kernel)
    else:
        start, end = find_marked_kernel_AArch64(kernel)
''')]),
    ("guard tests the wrong polarity", [(MU, M_DISPATCH, '''    if isa != "x86" and isa == "aarch64":
        raise ValueError("ISA not supported.")
    if isa == "x86":
        start, end = find_marked_kernel_x86ATT(kernel)
    else:
        start, end = find_marked_kernel_AArch64(kernel)
''')]),
    ("private helper clips the start to 1", [(MU, M_CLIP, '''    start, end = _clip_to_kernel(start, end, len(kernel))
    return kernel[start:end]


def _clip_to_kernel(first, last, length):
    if first == -1:
        first = 1
    if last == -1:
        last = length
    return first, last
''')]),
    ("comment marker text changed", [(MU, '"start": "OSACA-BEGIN"', '"start": "OSACA-START"')]),
    ("x86 nop bytes changed", [(MU, "nop_bytes = [100, 103, 144]", "nop_bytes = [100, 103, 145]")]),
]

# =========================================================================================== A64Grammar
A_FORCE = '''        if base is not None and "name" in base and base["name"].lower() == "sp":
            base["prefix"] = "x"
        if index is not None and "name" in index and index["name"].lower() == "sp":
            index["prefix"] = "x"
        if base is not None and "name" in base and base["name"].lower() == "zr":
            base["prefix"] = "x"
        if index is not None and "name" in index and index["name"].lower() == "zr":
            index["prefix"] = "x"
'''
A_ANCHOR = "    def process_sp_register(self, register):\n"
A_CALLS4 = '''        self._force_x(base, "sp")
        self._force_x(index, "sp")
        self._force_x(base, "zr")
        self._force_x(index, "zr")
'''
A_HELPER = '''    def _force_x(self, register, alias):
        if register is not None and "name" in register and register["name"].lower() == alias:
            register["prefix"] = "x"

'''
A_RANGE = "            for name in range(int(start_name), int(end_name) + 1):\n"
A_COPY3 = '''                reg = deepcopy(base_register)
                if index is not None:
                    reg["index"] = int(index, 0)
'''


def a_helper(body_calls, helper):
    return [(A64, A_FORCE, body_calls), (A64, A_ANCHOR, helper + A_ANCHOR)]


A64_HARMLESS = [
    ("given out-D/h8.diff (two static helpers, list -> tuple)", [("patch", "/tmp/harm/out-D/h8.diff")]),
    ("instance-method helper", a_helper(A_CALLS4, A_HELPER)),
    ("helper called through the class name", a_helper(A_CALLS4.replace("self._force_x", "ParserAArch64._force_x"),
                                                      "    @staticmethod\n" + A_HELPER.replace("(self, register", "(register"))),
    ("helper with a guard clause", a_helper(A_CALLS4, '''    def _force_x(self, register, alias):
        if register is None or "name" not in register:
            return
        if register["name"].lower() == alias:
            register["prefix"] = "x"

''')),
    ("helper called in a loop over registers and aliases", a_helper('''        for reg in (base, index):
            for alias in ("sp", "zr"):
                self._force_x(reg, alias)
''', A_HELPER)),
    ("helper handles both aliases of one register", a_helper('''        self._force_x(base)
        self._force_x(index)
''', '''    @staticmethod
    def _force_x(register, aliases=("sp", "zr")):
        for alias in aliases:
            if register is not None and "name" in register and register["name"].lower() == alias:
                register["prefix"] = "x"

''')),
    ("helper reads the register from the parse result by key", a_helper('''        self._force_x(memory_address, "base", "sp")
        self._force_x(memory_address, "index", "sp")
        self._force_x(memory_address, "base", "zr")
        self._force_x(memory_address, "index", "zr")
''', '''    @staticmethod
    def _force_x(parsed, key, alias):
        register = parsed.get(key, None)
        if register is not None and "name" in register and register["name"].lower() == alias:
            register["prefix"] = "x"

''')),
    ("two-level helpers", a_helper('''        self._force_aliases(base)
        self._force_aliases(index)
''', '''    def _force_aliases(self, register):
        self._force_x(register, "sp")
        self._force_x(register, "zr")

''' + A_HELPER)),
    ("range end computed by a helper", [(A64, A_RANGE, "            for name in range(int(start_name), self._last(end_name)):\n"),
                                        (A64, A_ANCHOR, "    @staticmethod\n    def _last(name):\n        return int(name) + 1\n\n" + A_ANCHOR)]),
    ("whole range computed by a helper", [(A64, A_RANGE, "            for name in self._names(start_name, end_name):\n"),
                                          (A64, A_ANCHOR, "    @staticmethod\n    def _names(first, last):\n        stop = int(last) + 1\n"
                                                          "        return range(int(first), stop)\n\n" + A_ANCHOR)]),
    ("copy-with-index helper as instance method", [(A64, A_COPY3, "                reg = self._indexed_copy(base_register, index)\n"),
                                                   (A64, A_ANCHOR, '''    def _indexed_copy(self, register, index):
        register = deepcopy(register)
        if index is not None:
            register["index"] = int(index, 0)
        return register

''' + A_ANCHOR)]),
    ("sp register built by a private helper", [(A64, '        return RegisterOperand(prefix="x", name="sp")\n', "        return self._sp()\n"),
                                               (A64, A_ANCHOR, '    @staticmethod\n    def _sp():\n        return RegisterOperand(prefix="x", name="sp")\n\n' + A_ANCHOR)]),
]
A64_REAL = [
    ("helper forces prefix w", a_helper(A_CALLS4, A_HELPER.replace('= "x"', '= "w"'))),
    ("helper compares without lower()", a_helper(A_CALLS4, A_HELPER.replace('["name"].lower() == alias', '["name"] == alias'))),
    ("helper tests inequality", a_helper(A_CALLS4, A_HELPER.replace(".lower() == alias", ".lower() != alias"))),
    ("one helper call dropped (index/zr)", a_helper(A_CALLS4.replace('        self._force_x(index, "zr")\n', ""), A_HELPER)),
    ("helper only applied to the index", a_helper('        self._force_x(index, "sp")\n        self._force_x(index, "zr")\n', A_HELPER)),
    ("alias renamed in a call", a_helper(A_CALLS4.replace('(base, "zr")', '(base, "xzr")').replace('(index, "zr")', '(index, "xzr")'), A_HELPER)),
    ("additional private helper forces wsp on the base only", [
        (A64, A_FORCE, A_FORCE + "        self._also(base)\n"),
        (A64, A_ANCHOR, '''    @staticmethod
    def _also(register):
        if register is not None and "name" in register and register["name"].lower() == "wsp":
            register["prefix"] = "w"

''' + A_ANCHOR)]),
    ("range helper adds 2", [(A64, A_RANGE, "            for name in range(int(start_name), self._last(end_name)):\n"),
                             (A64, A_ANCHOR, "    @staticmethod\n    def _last(name):\n        return int(name) + 2\n\n" + A_ANCHOR)]),
    ("scaling shift op dropped from the tuple", [("patch", "/tmp/harm/out-D/h8.diff"),
                                                 (A64, '("lsl", "uxtw", "uxtb", "sxtw", "sxtx")', '("lsl", "uxtw", "uxtb", "sxtw")')]),
    ("sp helper returns another register", [(A64, '        return RegisterOperand(prefix="x", name="sp")\n', "        return self._sp()\n"),
                                            (A64, A_ANCHOR, '    @staticmethod\n    def _sp():\n        return RegisterOperand(prefix="w", name="sp")\n\n' + A_ANCHOR)]),
    ("scale base 4", [(A64, "scale = 2 ** int(", "scale = 4 ** int(")]),
]

# =========================================================================================== ReportConsts
R_WARN = '''        warnings = []

        if arch_warning:
            warnings.append("ArchWarning")

        if length_warning:
            warnings.append("LengthWarning")

        if lcd_warning:
            warnings.append("LCDWarning")

        if INSTR_FLAGS.TP_UNKWN in [flag for instr in kernel for flag in instr.flags]:
            warnings.append("UnknownInstrWarning")
'''
R_LINES = '''        print_length_warning = False
    else:
        kernel = reduce_to_section(parsed_code, isa)
        # Print warning if kernel has no markers and is larger than threshold (100)
        print_length_warning = (
            True if len(kernel) == len(parsed_code) and len(kernel) > 100 else False
        )
'''
R_LEN = '''        print_length_warning = (
            True if len(kernel) == len(parsed_code) and len(kernel) > 100 else False
        )
'''
R_ARCH = "    print_arch_warning = False if args.arch else True\n"

REPORT_HARMLESS = [
    ("given out-D/h1.diff (filtering comprehension over a table, incremental dicts)", [("patch", "/tmp/harm/out-D/h1.diff")]),
    ("given out-D/h5.diff (conditional expressions -> if statements, named threshold)", [("patch", "/tmp/harm/out-D/h5.diff")]),
    ("warnings grown with +=", [(FE, R_WARN, '''        warnings = []
        if arch_warning:
            warnings += ["ArchWarning"]
        if length_warning:
            warnings += ["LengthWarning"]
        if lcd_warning:
            warnings.extend(["LCDWarning"])
        if any(INSTR_FLAGS.TP_UNKWN in instr.flags for instr in kernel):
            warnings.append("UnknownInstrWarning")
''')]),
    ("warnings as one concatenation", [(FE, R_WARN, '''        all_flags = [flag for instr in kernel for flag in instr.flags]
        warnings = (
            (["ArchWarning"] if arch_warning else [])
            + (["LengthWarning"] if length_warning else [])
            + (["LCDWarning"] if lcd_warning else [])
            + (["UnknownInstrWarning"] if INSTR_FLAGS.TP_UNKWN in all_flags else [])
        )
''')]),
    ("warnings from a name table and zip", [(FE, R_WARN, '''        names = ("ArchWarning", "LengthWarning", "LCDWarning", "UnknownInstrWarning")
        unknown = False
        for instr in kernel:
            if INSTR_FLAGS.TP_UNKWN in instr.flags:
                unknown = True
        switches = (arch_warning, length_warning, lcd_warning, unknown)
        warnings = [name for name, on in zip(names, switches) if on]
''')]),
    ("a copy of the list is stored", [(FE, '            "Warnings": warnings,\n', '            "Warnings": list(warnings),\n')]),
    ("length flag by default + override, nested ifs", [(MAIN, R_LINES, '''        print_length_warning = False
    else:
        kernel = reduce_to_section(parsed_code, isa)
        print_length_warning = False
        if len(kernel) == len(parsed_code):
            if len(kernel) > 100:
                print_length_warning = True
''')]),
    ("length flag computed once after the branches", [(MAIN, R_LINES, '''        pass
    else:
        kernel = reduce_to_section(parsed_code, isa)
    print_length_warning = not args.lines and len(kernel) == len(parsed_code) and len(kernel) > 100
''')]),
    ("threshold as >= 101 with hoisted length and test", [(MAIN, R_LEN, '''        n_forms = len(kernel)
        unmarked = n_forms == len(parsed_code)
        print_length_warning = unmarked and n_forms >= 101
''')]),
    ("mirrored comparison, constant first", [(MAIN, R_LEN, '''        print_length_warning = bool(len(parsed_code) == len(kernel) and 100 < len(kernel))
''')]),
    ("negated length test", [(MAIN, R_LEN, '''        if len(kernel) != len(parsed_code) or len(kernel) <= 100:
            print_length_warning = False
        else:
            print_length_warning = True
''')]),
    ("arch flag as not", [(MAIN, R_ARCH, "    print_arch_warning = not args.arch\n")]),
    ("arch flag as if/else", [(MAIN, R_ARCH, "    if args.arch:\n        print_arch_warning = False\n    else:\n        print_arch_warning = True\n")]),
    ("arch flag passed as an expression", [(MAIN, "            arch_warning=print_arch_warning,\n            length_warning=print_length_warning,\n            lcd_warning=kernel_graph.timed_out,\n            verbose=verbose,",
                                            "            arch_warning=not args.arch,\n            length_warning=print_length_warning,\n            lcd_warning=kernel_graph.timed_out,\n            verbose=verbose,")]),
]
R_HELPER_CALL = "        warnings = self._warning_names(kernel, arch_warning, length_warning, lcd_warning)\n"
R_HELPER = '''    def _warning_names(self, forms, arch, length, lcd):
        names = []
        if arch:
            names.append("ArchWarning")
        if length:
            names.append("LengthWarning")
        if lcd:
            names.append("LCDWarning")
        if INSTR_FLAGS.TP_UNKWN in [flag for form in forms for flag in form.flags]:
            names.append("UnknownInstrWarning")
        return names

'''
R_DICT_ANCHOR = "    def combined_view(\n"
R_LEN_HELPER = '''def _needs_length_warning(selected, everything):
    """an unmarked kernel above the threshold"""
    if len(selected) != len(everything):
        return False
    return len(selected) > 100


def inspect(args, output_file=sys.stdout):
'''
REPORT_HARMLESS += [
    ("warning names collected by a private method", [(FE, R_WARN, R_HELPER_CALL), (FE, R_DICT_ANCHOR, R_HELPER + R_DICT_ANCHOR)]),
    ("length test in a private module function", [(MAIN, R_LEN, "        print_length_warning = _needs_length_warning(kernel, parsed_code)\n"),
                                                  (MAIN, "def inspect(args, output_file=sys.stdout):\n", R_LEN_HELPER)]),
]

REPORT_REAL = [
    ("private method drops the length warning", [(FE, R_WARN, R_HELPER_CALL),
        (FE, R_DICT_ANCHOR, R_HELPER.replace('        if length:\n            names.append("LengthWarning")\n', "") + R_DICT_ANCHOR)]),
    ("private module function with threshold 90", [(MAIN, R_LEN, "        print_length_warning = _needs_length_warning(kernel, parsed_code)\n"),
        (MAIN, "def inspect(args, output_file=sys.stdout):\n", R_LEN_HELPER.replace("> 100", "> 90"))]),
    ("threshold 120", [(MAIN, "len(kernel) > 100 else", "len(kernel) > 120 else")]),
    ("threshold comparison >=", [(MAIN, "len(kernel) > 100 else", "len(kernel) >= 100 else")]),
    ("named threshold with another value", [("patch", "/tmp/harm/out-D/h5.diff"), (MAIN, "LENGTH_WARNING_THRESHOLD = 100", "LENGTH_WARNING_THRESHOLD = 99")]),
    ("`or` instead of `and`", [(MAIN, "len(kernel) == len(parsed_code) and len(kernel) > 100", "len(kernel) == len(parsed_code) or len(kernel) > 100")]),
    ("length warning also under --lines", [(MAIN, "        print_length_warning = False\n    else:", "        print_length_warning = len(kernel) > 100\n    else:")]),
    ("default + override with the default True", [(MAIN, R_LEN, '''        print_length_warning = True
        if len(kernel) == len(parsed_code) and len(kernel) > 100:
            print_length_warning = True
''')]),
    ("arch warning inverted", [(MAIN, R_ARCH, "    print_arch_warning = True if args.arch else False\n")]),
    ("arch warning always on", [(MAIN, R_ARCH, "    print_arch_warning = True\n")]),
    ("LCD warning name dropped", [(FE, '        if lcd_warning:\n            warnings.append("LCDWarning")\n', "")]),
    ("warning names swapped", [(FE, 'warnings.append("ArchWarning")', 'warnings.append("LengthWarning")'),
                               (FE, '        if length_warning:\n            warnings.append("LengthWarning")', '        if length_warning:\n            warnings.append("ArchWarning")')]),
    ("warning renamed", [(FE, '"UnknownInstrWarning"', '"UnknownInstructionWarning"')]),
    ("unknown warning on the latency flag", [(FE, "if INSTR_FLAGS.TP_UNKWN in [flag for instr in kernel", "if INSTR_FLAGS.LT_UNKWN in [flag for instr in kernel")]),
    ("unknown warning only looks at the first instruction", [(FE, "in [flag for instr in kernel for flag in instr.flags]", "in [flag for instr in kernel[:1] for flag in instr.flags]")]),
    ("table order changed (given h1, pairs swapped)", [("patch", "/tmp/harm/out-D/h1.diff"),
        (FE, '            (arch_warning, "ArchWarning"),\n            (length_warning, "LengthWarning"),\n',
             '            (length_warning, "LengthWarning"),\n            (arch_warning, "ArchWarning"),\n')]),
    ("table filters on the name instead of the switch (given h1)", [("patch", "/tmp/harm/out-D/h1.diff"),
        (FE, "for requested, name in requested_warnings if requested]", "for requested, name in requested_warnings if name]")]),
    ("elif chain (seeded C13-m4 style)", [(FE, "        if length_warning:\n            warnings.append", "        elif length_warning:\n            warnings.append")]),
]

# =========================================================================================== behaviour probe
PROBE = r'''
import sys, warnings
warnings.simplefilter("ignore")
from osaca.parser import ParserAArch64, ParserX86ATT
from osaca.semantics.marker_utils import reduce_to_section
pa, px = ParserAArch64(), ParserX86ATT()
A64_LINES = """ldr x0, [sp, #16]
ldr w1, [SP]
str x2, [x3, xzr]
ldr x4, [x5, wzr, uxtw #2]
ldr x4, [x5, x6, lsl #3]
ldr q1, [x7, x8, sxtx #4]
ldr x9, [x10, w11, sxtw]
ldr x1, [zr, sp]
add x1, sp, #8
mov x29, sp
ld1 {v0.2d - v3.2d}, [x0], #64
ld1 {v4.4s, v5.4s}, [x1]
st1 {v6.s - v7.s}[2], [x2]
ld4 {v0.b, v1.b, v2.b, v3.b}[15], [x9]
stp x29, x30, [sp, #-16]!
ldp x19, x20, [sp], #32
prfm pldl1keep, [x1, #256]
fmla v0.2d, v1.2d, v2.d[1]
b.ne .L4
""".splitlines()
for line in A64_LINES:
    try:
        print("A64", repr(line), pa.parse_line(line))
    except Exception as e:
        print("A64", repr(line), type(e).__name__, e)
X86 = """movl $111, %ebx
.byte 100
.byte 103
.byte 144
addq %rax, %rbx
vaddpd %ymm0, %ymm1, %ymm2
movl $222, %ebx
.byte 100
.byte 103
.byte 144
subq $1, %rcx
"""
A64 = """mov x1, #111
.byte 213,3,32,31
add x0, x0, x1
// OSACA-END
fadd d0, d0, d1
mov x1, #222
.byte 213,3,32,31
sub x2, x2, #1
"""
for code, parser, names, cm in ((X86, px, ("x86", "X86", "aarch64", "riscv", ""), "# "), (A64, pa, ("aarch64", "AArch64", "x86", "arm"), "// ")):
    lines = code.splitlines()
    for text in (code, chr(10).join(lines[4:6]), cm + "OSACA-BEGIN" + chr(10) + code):
        kernel = parser.parse_file(text)
        for isa in names:
            try:
                print("RED", isa, [f.line_number for f in reduce_to_section(kernel, isa)])
            except Exception as e:
                print("RED", isa, type(e).__name__, e)
'''


def probe(box, edits):
    """behaviour of the edited sources on a fixed corpus (AArch64 parser, reduce_to_section)"""
    try:
        box.apply(edits)
        data = os.path.join(box.tmp, "osaca", "data")
        if not os.path.exists(data):
            os.symlink(os.path.join(SRC_REPO, "osaca", "data"), data)
        env = dict(os.environ, PYTHONPATH=box.tmp, HOME=box.tmp)
        r = subprocess.run([sys.executable, "-W", "ignore", "-c", PROBE], capture_output=True, text=True, env=env, cwd=box.tmp)
        return r.stdout + ("\nSTDERR " + r.stderr[-400:] if r.returncode else "")
    finally:
        box.restore()


def probe_cases(box):
    """every harmless variant of the parser / marker sources must behave like the unchanged sources on the
    corpus (the variants are meant to be behaviour-preserving: this checks the test, not the plug-in); every real
    mutation of these sources that the corpus can see is counted"""
    base = probe(box, [])
    if "A64" not in base or "RED" not in base or "STDERR" in base:
        print("probe does not run on the unchanged sources:\n" + base[-600:])
        return 1, []
    bad, rows = 0, []
    for gen, harmless, real in SUITES:
        if gen not in ("A64Grammar", "MarkerConsts"):
            continue
        same = 0
        for name, edits in harmless:
            out = probe(box, edits)
            if out != base:
                bad += 1
                print("BAD  %-14s harmless variant changes the behaviour on the probe corpus: %s" % (gen, name))
            else:
                same += 1
        seen = sum(1 for name, edits in real if probe(box, edits) != base)
        rows.append("%s probe: %d/%d harmless variants behave identically on the corpus; %d/%d real mutations visible on it"
                    % (gen, same, len(harmless), seen, len(real)))
    return bad, rows


SUITES = [
    ("HistoryCfg", HISTORY_HARMLESS, HISTORY_REAL),
    ("WorkersConsts", WORKERS_HARMLESS, WORKERS_REAL),
    ("MarkerConsts", MARKER_HARMLESS, MARKER_REAL),
    ("A64Grammar", A64_HARMLESS, A64_REAL),
    ("ReportConsts", REPORT_HARMLESS, REPORT_REAL),
]


def main_cases(box):
    bad = 0
    summary = []
    for gen, harmless, real in SUITES:
        base = box.run(gen, [])
        if isinstance(base, tuple):
            print("BASELINE of %s FAILS: %s" % (gen, base[1]))
            return 1, summary
        committed = os.path.join(ROOT, "lean", "OsacaVerif", "Gen",
                                 {"A64Grammar": "A64Grammar", "WorkersConsts": "WorkersConsts"}.get(gen, gen) + ".lean")
        if SRC_REPO in ("/repo",) or os.environ.get("G5_CHECK_COMMITTED"):
            if open(committed, encoding="utf-8").read() != base:
                print("baseline of %s differs from the committed Gen file" % gen)
                bad += 1
        nh = nr = 0
        for name, edits in harmless:
            out = box.run(gen, edits)
            ok = out == base
            nh += ok
            bad += not ok
            if VERBOSE or not ok:
                print("%-4s %-14s harmless  %-70s %s" % ("ok" if ok else "BAD", gen, name,
                      "identical" if ok else ("FAILS: " + out[1][:160] if isinstance(out, tuple) else "output differs")))
        for name, edits in real:
            out = box.run(gen, edits)
            ok = out != base
            nr += ok
            bad += not ok
            if VERBOSE or not ok:
                print("%-4s %-14s real      %-70s %s" % ("ok" if ok else "BAD", gen, name,
                      ("fails: " + out[1][:120]) if isinstance(out, tuple) else ("output changes" if ok else "UNNOTICED")))
        if len(harmless) < 8 or len(real) < 6:
            print("%s: too few cases" % gen)
            bad += 1
        summary.append("%s: harmless identical %d/%d, real mutations noticed %d/%d" % (gen, nh, len(harmless), nr, len(real)))
    return bad, summary


# =========================================================================================== seeded changes
def _run_tool(tooldir, repo):
    """{generator: ('ok', text) | ('FAIL', msg)} using the plug-ins under tooldir, in a subprocess"""
    code = r'''
import sys, json, warnings
warnings.simplefilter("ignore")
sys.path.insert(0, %r)
import translate
translate.REPO = %r
translate.load_plugins()
out = {}
for name in %r:
    try:
        out[name] = ["ok", translate.GENERATORS[name][0]()]
    except Exception as e:
        out[name] = ["FAIL", "%%s: %%s" %% (type(e).__name__, e)]
print("@@" + json.dumps(out))
''' % (tooldir, repo, list(GEN_FILES))
    env = dict(os.environ, OSACA_REPO=repo)
    r = subprocess.run([sys.executable, "-W", "ignore", "-c", code], capture_output=True, text=True, env=env)
    import json
    for line in r.stdout.splitlines():
        if line.startswith("@@"):
            return json.loads(line[2:])
    raise SystemExit("plug-in run failed: %s" % r.stderr[-500:])


def seeded(box):
    """every seeded patch that touches a source file of the five plug-ins: old plug-ins vs new plug-ins"""
    old_tools = tempfile.mkdtemp(prefix="g5old")
    try:
        files = subprocess.run(["git", "-C", ROOT, "ls-tree", "-r", "--name-only", ORIG_REV, "tools/"],
                               capture_output=True, text=True, check=True).stdout.split()
        for f in files:
            if f.startswith("tools/gen/tests/"):
                continue
            dst = os.path.join(old_tools, os.path.relpath(f, "tools"))
            os.makedirs(os.path.dirname(dst), exist_ok=True)
            with open(dst, "wb") as fh:
                fh.write(subprocess.run(["git", "-C", ROOT, "show", "%s:%s" % (ORIG_REV, f)], capture_output=True, check=True).stdout)
        mine = set(x for v in GEN_FILES.values() for x in v)
        base_old, base_new = _run_tool(old_tools, box.tmp), _run_tool(TOOLS, box.tmp)
        for g in GEN_FILES:
            if base_old[g] != base_new[g]:
                print("seeded: baselines of old and new %s differ" % g)
                return 1, []
        bad, rows = 0, []
        for pdir in sorted(glob.glob(os.path.join(ROOT, "seeded", "*"))):
            patch = os.path.join(pdir, "patch.diff")
            if not os.path.exists(patch):
                continue
            touched = {line[6:].strip() for line in open(patch, encoding="utf-8", errors="replace") if line.startswith("+++ b/")}
            if not touched & mine:
                continue
            r = subprocess.run(["git", "apply", "--include=osaca/*.py", patch], cwd=box.tmp, capture_output=True, text=True)
            if r.returncode != 0:
                rows.append("%-45s does not apply to this checkout" % os.path.basename(pdir))
                box.restore()
                continue
            try:
                o, n = _run_tool(old_tools, box.tmp), _run_tool(TOOLS, box.tmp)
            finally:
                box.restore()
            cells = []
            for g, fl in GEN_FILES.items():
                if not touched & set(fl):
                    continue
                so = "unnoticed" if o[g] == base_old[g] else ("fails" if o[g][0] == "FAIL" else "changes")
                sn = "unnoticed" if n[g] == base_new[g] else ("fails" if n[g][0] == "FAIL" else "changes")
                flag = ""
                if so != "unnoticed" and sn == "unnoticed":
                    flag = "  <-- LOST"
                    bad += 1
                cells.append("%s: %s%s" % (g, so if so == sn else "%s -> %s" % (so, sn), flag))
            rows.append("%-45s %s" % (os.path.basename(pdir), "; ".join(cells)))
        return bad, rows
    finally:
        shutil.rmtree(old_tools, ignore_errors=True)


def main():
    box = Sandbox()
    try:
        bad, summary = main_cases(box)
        rows = []
        if "--probe" in sys.argv:
            b3, prow = probe_cases(box)
            bad += b3
            summary += prow
        if "--seeded" in sys.argv:
            b2, rows = seeded(box)
            bad += b2
    finally:
        box.close()
    for r in rows:
        print("seeded  " + r)
    for s in summary:
        print(s)
    print("PASS" if not bad else "FAIL (%d wrong)" % bad)
    return 1 if bad else 0


if __name__ == "__main__":
    sys.exit(main())
