"""Gen/Consts.lean: numeric constants and small decision expressions the theorems depend on."""
import ast

import translate as T
from translate import TranslateError, generator, parse, find_func, rat, HEADER


def _num(node):
    if isinstance(node, ast.Constant) and isinstance(node.value, (int, float)) and not isinstance(node.value, bool):
        return node.value
    if isinstance(node, ast.UnaryOp) and isinstance(node.op, ast.USub):
        return -_num(node.operand)
    raise TranslateError("expected numeric literal at line %s" % getattr(node, "lineno", "?"))


@generator("Consts", ["osaca/semantics/arch_semantics.py", "osaca/semantics/kernel_dg.py"])
def gen_consts():
    from fractions import Fraction

    ta = parse("osaca/semantics/arch_semantics.py")
    f = find_func(ta, "assign_optimal_throughput", "ArchSemantics")
    inc = None
    for node in ast.walk(f):
        if isinstance(node, ast.Assign) and len(node.targets) == 1 and isinstance(node.targets[0], ast.Name) \
                and node.targets[0].id == "INC":
            inc = _num(node.value)
    if inc is None:
        raise TranslateError("assign_optimal_throughput: INC not found")
    # round(..., k) calls on min(instr_ports)/min(differences): the digit count of the cap tests
    cap_digits = set()
    for node in ast.walk(f):
        if isinstance(node, ast.Call) and isinstance(node.func, ast.Name) and node.func.id == "round" and len(node.args) == 2:
            cap_digits.add(_num(node.args[1]))
    if len(cap_digits) != 1:
        raise TranslateError("assign_optimal_throughput: expected one rounding precision, got %r" % cap_digits)
    g = find_func(ta, "get_throughput_sum", "ArchSemantics")
    digits = None
    for node in ast.walk(g):
        if isinstance(node, ast.Call) and isinstance(node.func, ast.Name) and node.func.id == "round" and len(node.args) == 2:
            inner = node.args[0]
            if not (isinstance(inner, ast.Call) and isinstance(inner.func, ast.Name) and inner.func.id == "sum"):
                raise TranslateError("get_throughput_sum: round() is not applied to sum(col)")
            digits = _num(node.args[1])
    if digits is None:
        raise TranslateError("get_throughput_sum: round(sum(col), k) not found")
    # the filter: [instr.port_pressure for instr in kernel if instr.throughput != 0.0]
    flt = None
    for node in ast.walk(g):
        if isinstance(node, ast.ListComp) and len(node.generators) == 1 and len(node.generators[0].ifs) == 1:
            c = node.generators[0].ifs[0]
            elt = node.elt
            if (isinstance(c, ast.Compare) and len(c.ops) == 1 and isinstance(c.ops[0], ast.NotEq)
                    and isinstance(c.left, ast.Attribute) and c.left.attr == "throughput"
                    and isinstance(elt, ast.Attribute) and elt.attr == "port_pressure"):
                flt = _num(c.comparators[0])
    if flt is None:
        raise TranslateError("get_throughput_sum: filter `instr.throughput != <const>` on port_pressure not found")
    if not any(isinstance(n, ast.Call) and isinstance(n.func, ast.Name) and n.func.id == "zip" for n in ast.walk(g)):
        raise TranslateError("get_throughput_sum: zip(*port_pressures) not found")

    out = [HEADER, "namespace OsacaVerif.Gen\n"]
    out.append("/-- `INC` of `assign_optimal_throughput` (the decimal literal, exactly) -/")
    out.append("def balanceInc : Rat := %s\n" % rat(repr(inc)))
    out.append("/-- digits of the `round(min(...), k) <= 0` cap tests in the balancer -/")
    out.append("def balanceCapDigits : Nat := %d\n" % cap_digits.pop())
    out.append("/-- digits of `round(sum(col), k)` in `get_throughput_sum` -/")
    out.append("def tpSumDigits : Nat := %d\n" % digits)
    out.append("/-- lines are summed iff `instr.throughput != <this>` -/")
    out.append("def tpSumSkipValue : Rat := %s\n" % rat(repr(flt)))
    out.append("end OsacaVerif.Gen\n")
    return "\n".join(out)
