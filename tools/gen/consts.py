"""Gen/Consts.lean: numeric constants and small decision expressions the theorems depend on.

Read by VALUE and by ROLE, not by spelling or variable name (helpers: astutil_G1.py):

  balanceInc        the step of the balancer in `ArchSemantics.assign_optimal_throughput`: the one constant
                    that the `x[i] -= c` / `x[j] += c` transfers inside the `for _ in range(int(cycles * K))`
                    loop use, with `K == 1 / c` checked.  The constant may be written `0.01`, `1e-2`,
                    `1 / 100`, be a local, a class attribute (`self.X` / `ArchSemantics.X`) or a module
                    constant, under any name.
  balanceCapDigits  the (single) digit count of all `round(x, k)` / `round(x, ndigits=k)` of that function
  tpSumDigits       the `k` of `round(sum(col), k)` in `get_throughput_sum` (sum may be hoisted to a local)
  tpSumSkipValue    the constant `c` of the filter `instr.throughput != c` (also `c != instr.throughput`,
                    `not instr.throughput == c`) that selects the `port_pressure` rows; the rows may be
                    built by a comprehension or by an append loop with `if` / `continue` guard.

Still insisted on (a change of these is a change of behaviour): every transfer uses the same constant and
both directions occur; the trip count is `int(cycles * (1 / c))` up to commutation; one rounding precision in
the balancer; the filter is a single `!=` test on `.throughput`; `zip(*rows)` column sums.
No module of the analysed tree is imported or executed.
"""
import ast
import os
import sys

sys.path.insert(0, os.path.dirname(os.path.abspath(__file__)))
import astutil_G1 as U  # noqa: E402

# the plug-in and its helpers are inputs too: a change of either regenerates the file
SELF = ["../verif-self:tools/gen/consts.py", "../verif-self:tools/gen/astutil_G1.py"]

from translate import TranslateError, generator, rat, HEADER  # noqa: E402

SRC = "osaca/semantics/arch_semantics.py"


def _round_digits(call, sc, what):
    """`round(x, k)` / `round(x, ndigits=k)` -> (x, k) ; None for a one-argument round"""
    if not (isinstance(call, ast.Call) and isinstance(call.func, ast.Name) and call.func.id == "round"):
        return None
    if sc.lookup("round") is not None or sc.is_param("round"):
        raise TranslateError("%s: `round` is shadowed" % what)
    k = None
    if len(call.args) == 2 and not call.keywords:
        k = call.args[1]
    elif len(call.args) == 1 and len(call.keywords) == 1 and call.keywords[0].arg == "ndigits":
        k = call.keywords[0].value
    elif len(call.args) == 1 and not call.keywords:
        return None
    else:
        raise TranslateError("%s: unexpected round() call at line %d" % (what, call.lineno))
    ok, v = sc.try_ev(k)
    if ok and v is None:
        return None
    return call.args[0], sc.ev_int(k, "%s: digits of round()" % what)


def _balancer(cls):
    sc = cls.fn("assign_optimal_throughput")
    f = sc.node
    par = sc.par
    steps = []       # (sign, value, node)
    for node in ast.walk(f):
        if isinstance(node, ast.AugAssign) and isinstance(node.op, (ast.Add, ast.Sub)) \
                and isinstance(node.target, ast.Subscript):
            ok, v = sc.try_ev(node.value)
            if ok:
                if isinstance(v, bool) or not isinstance(v, (int, float)):
                    raise TranslateError("assign_optimal_throughput: constant step %r is not a number" % (v,))
                steps.append((isinstance(node.op, ast.Add), v, node))
    if not steps:
        raise TranslateError("assign_optimal_throughput: no constant `x[i] += c` / `x[i] -= c` transfer found")
    vals = {v for _, v, _ in steps}
    if len(vals) != 1:
        raise TranslateError("assign_optimal_throughput: transfers use different constants %r" % sorted(vals))
    if {s for s, _, _ in steps} != {True, False}:
        raise TranslateError("assign_optimal_throughput: transfers go in one direction only")
    inc = vals.pop()
    if not inc > 0:
        raise TranslateError("assign_optimal_throughput: step %r is not positive" % inc)
    # the loop they are in: for _ in range(int(cycles * (1 / INC)))
    loops = set()
    for _, _, n in steps:
        ch = n
        while ch in par and not isinstance(par[ch], (ast.For, ast.While)):
            ch = par[ch]
        loops.add(par.get(ch))
    if len(loops) != 1 or not isinstance(next(iter(loops)), ast.For):
        raise TranslateError("assign_optimal_throughput: the transfers are not in one common for loop")
    loop = loops.pop()
    it = sc.deref(loop.iter)
    if not (U.call_name(it) == "range" and isinstance(it.func, ast.Name) and len(it.args) == 1 and not it.keywords):
        raise TranslateError("assign_optimal_throughput: balancing loop is not `for _ in range(n)`")
    n = sc.deref(it.args[0])
    if not (U.call_name(n) == "int" and isinstance(n.func, ast.Name) and len(n.args) == 1 and not n.keywords):
        raise TranslateError("assign_optimal_throughput: trip count is not int(...)")
    e = sc.deref(n.args[0])
    if not (isinstance(e, ast.BinOp) and isinstance(e.op, ast.Mult)):
        raise TranslateError("assign_optimal_throughput: trip count is not int(cycles * K)")
    ks = [v for ok, v in (sc.try_ev(e.left), sc.try_ev(e.right)) if ok]
    if len(ks) != 1 or isinstance(ks[0], bool) or not isinstance(ks[0], (int, float)):
        raise TranslateError("assign_optimal_throughput: trip count is not <variable> * <constant>")
    if ks[0] != 1 / inc:
        raise TranslateError("assign_optimal_throughput: trip count factor %r is not 1 / step (%r)" % (ks[0], 1 / inc))
    # round(..., k): the digit count of the cap tests
    cap_digits = set()
    for node in ast.walk(f):
        r = _round_digits(node, sc, "assign_optimal_throughput")
        if r is not None:
            cap_digits.add(r[1])
    if len(cap_digits) != 1:
        raise TranslateError("assign_optimal_throughput: expected one rounding precision, got %r" % sorted(cap_digits))
    return inc, cap_digits.pop()


def _is_attr_of(node, attr, target):
    return (isinstance(node, ast.Attribute) and node.attr == attr and isinstance(node.value, ast.Name)
            and isinstance(target, ast.Name) and node.value.id == target.id)


def _tp_sum(cls):
    sc = cls.fn("get_throughput_sum")
    g = sc.node
    digits = None
    for node in ast.walk(g):
        r = _round_digits(node, sc, "get_throughput_sum")
        if r is not None:
            inner = sc.deref(r[0])
            if not (U.call_name(inner) == "sum" and isinstance(inner.func, ast.Name) and len(inner.args) == 1):
                raise TranslateError("get_throughput_sum: round() is not applied to sum(col)")
            if digits is not None and digits != r[1]:
                raise TranslateError("get_throughput_sum: two rounding precisions")
            digits = r[1]
    if digits is None:
        raise TranslateError("get_throughput_sum: round(sum(col), k) not found")
    # the filter: [instr.port_pressure for instr in kernel if instr.throughput != 0.0]
    comps = [U.comp_view(n, sc) for n in ast.walk(g) if isinstance(n, ast.ListComp)]
    comps += [U.comp_view(ast.Name(id=nm, ctx=ast.Load()), sc) for nm, b in sc.bind.items()
              if len(b) == 1 and b[0][0] == "assign" and not isinstance(b[0][1], ast.ListComp)]
    flt = []
    for c in comps:
        if c is None or not _is_attr_of(c.elt, "port_pressure", c.target):
            continue
        conds = []
        for t in c.ifs:
            conds.extend(U.atoms(t, True))
        if len(conds) != 1:
            raise TranslateError("get_throughput_sum: the port_pressure rows have %d filter conditions" % len(conds))
        a, pol = conds[0]
        if not (isinstance(a, ast.Compare) and len(a.ops) == 1 and isinstance(a.ops[0], ast.Eq) and pol is False):
            raise TranslateError("get_throughput_sum: filter is not `instr.throughput != <const>`")
        l, r = a.left, a.comparators[0]
        if _is_attr_of(r, "throughput", c.target):
            l, r = r, l
        if not _is_attr_of(l, "throughput", c.target):
            raise TranslateError("get_throughput_sum: filter does not test instr.throughput")
        flt.append(sc.ev_num(r, "get_throughput_sum: filter constant"))
    if len(flt) != 1:
        raise TranslateError("get_throughput_sum: filter `instr.throughput != <const>` on port_pressure not found")
    if not any(U.call_name(n) == "zip" and isinstance(n.func, ast.Name) and len(n.args) == 1
               and isinstance(n.args[0], ast.Starred) for n in ast.walk(g)):
        raise TranslateError("get_throughput_sum: zip(*port_pressures) not found")
    return digits, flt[0]


@generator("Consts", [SRC, "osaca/semantics/kernel_dg.py"] + SELF)
def gen_consts():
    U.reset_cache()
    cls = U.mod_scope(SRC).cls("ArchSemantics")
    inc, cap = _balancer(cls)
    digits, flt = _tp_sum(cls)
    for k in (cap, digits):
        if k < 0:
            raise TranslateError("negative rounding precision %d" % k)

    out = [HEADER, "namespace OsacaVerif.Gen\n"]
    out.append("/-- `INC` of `assign_optimal_throughput` (the decimal literal, exactly) -/")
    out.append("def balanceInc : Rat := %s\n" % rat(U.dec_text(inc)))
    out.append("/-- digits of the `round(min(...), k) <= 0` cap tests in the balancer -/")
    out.append("def balanceCapDigits : Nat := %d\n" % cap)
    out.append("/-- digits of `round(sum(col), k)` in `get_throughput_sum` -/")
    out.append("def tpSumDigits : Nat := %d\n" % digits)
    out.append("/-- lines are summed iff `instr.throughput != <this>` -/")
    out.append("def tpSumSkipValue : Rat := %s\n" % rat(U.dec_text(flt)))
    out.append("end OsacaVerif.Gen\n")
    return "\n".join(out)
